"""C17 — results stay finite on degenerate and badly scaled but legal inputs.

L1  Props/C17.v: on the partial-arithmetic instance Dops (division by 0, ln of a non-positive, sqrt of a
    negative = None) the GEMINI evaluators, the shifted softmax and the group-lasso row operator are
    defined for every input, i.e. no undefined real operation is ever performed (exact-arithmetic half).
L2  the implementation and the extracted float model on the same degenerate inputs: both finite, and equal.
L3  np.isfinite over every learned parameter, probability, score, history value and recorded gain after
    fit / path / predict_proba / score on the degenerate families, for every estimator.
Failure keys: <estimator-or-gemini>:<family>:<what>.
"""
import json
import warnings
import numpy as np
from core import Check, enc_mat, enc_vec, hx
import impl
import gemlib

warnings.filterwarnings("ignore")
np.seterr(all="ignore")

import gemclus.tree.kauri as kauri_mod  # noqa: E402
from gemclus.sparse import _prox_grad as prox_mod  # noqa: E402
from sklearn.utils.extmath import softmax as sk_softmax  # noqa: E402

GEN_NAMES = list(impl.G.AVAILABLE_GEMINIS)


def finite(a):
    try:
        return bool(np.all(np.isfinite(np.asarray(a, dtype=float))))
    except (TypeError, ValueError):
        return all(finite(x) for x in a)


def short(a, lim=6):
    a = np.asarray(a, dtype=float).ravel()
    return [float(v) for v in a[:lim]]


# ================================================================== stream 1: saturated predictions -> every GEMINI
P_FAMILIES = ["onehot", "uniform", "eps-exact", "K=1", "n=1", "onehot-one-cluster", "mixed", "dyadic-uniform", "near-eps"]


def gen_degenerate_P(rng, fam, eps):
    n = int(rng.integers(1, 9))
    K = int(rng.integers(2, 6))
    if fam == "K=1":
        K = 1
        P = np.ones((n, 1))
    elif fam == "n=1":
        n = 1
        P = np.eye(K)[[int(rng.integers(0, K))]] if rng.random() < 0.5 else impl.softmax_rows(rng.normal(size=(1, K)))
    elif fam == "onehot":
        P = np.eye(K)[rng.integers(0, K, size=n)]
    elif fam == "onehot-one-cluster":
        P = np.eye(K)[np.full(n, int(rng.integers(0, K)))]
    elif fam == "uniform":
        P = np.full((n, K), 1.0 / K)
    elif fam == "dyadic-uniform":
        n = int(rng.choice([1, 2, 4, 8]))
        K = int(rng.choice([1, 2, 4]))
        P = np.full((n, K), 1.0 / K)
    elif fam == "eps-exact":
        # every row: one entry exactly 1-eps, the others exactly eps (the clip bounds themselves)
        P = np.full((n, K), eps)
        P[np.arange(n), rng.integers(0, K, size=n)] = 1 - eps
    elif fam == "near-eps":
        # entries one ulp inside / outside the clip bounds
        P = np.full((n, K), eps)
        P[np.arange(n), rng.integers(0, K, size=n)] = 1 - eps
        step = rng.choice([-1.0, 1.0], size=(n, K))
        P = np.nextafter(P, P + step)
    else:  # mixed: one-hot, uniform, saturated and ordinary rows together
        rows = []
        for _ in range(n):
            r = rng.random()
            if r < 0.3:
                rows.append(np.eye(K)[int(rng.integers(0, K))])
            elif r < 0.5:
                rows.append(np.full(K, 1.0 / K))
            elif r < 0.75:
                rows.append(impl.softmax_rows(rng.normal(size=(1, K)) * 60)[0])
            else:
                rows.append(impl.softmax_rows(rng.normal(size=(1, K)))[0])
        P = np.array(rows)
    return np.ascontiguousarray(P, dtype=float)


def gen_degenerate_affinity(rng, n, obj):
    """Kernels / distances including the degenerate ones: all-zero, constant, duplicated points, indefinite, huge."""
    from sklearn.metrics import pairwise_kernels, pairwise_distances
    d = int(rng.integers(1, 4))
    X = rng.normal(size=(n, d))
    kind = rng.choice(["plain", "duplicates", "allsame", "zero", "const", "indef", "x1000", "x1e-3", "dyadic"])
    if kind == "duplicates" and n >= 2:
        X = X[rng.integers(0, max(1, n // 2), size=n)]
    if kind == "allsame":
        X = np.repeat(X[:1], n, axis=0)
    if kind == "x1000":
        X = X * 1000
    if kind == "x1e-3":
        X = X * 1e-3
    if kind == "dyadic":
        X = np.round(X * 2) / 2
    if obj == "mmd":
        A = pairwise_kernels(X, metric=str(rng.choice(["linear", "rbf"])))
        if kind == "zero":
            A = np.zeros((n, n))
        if kind == "const":
            A = np.full((n, n), float(rng.choice([1.0, 4.0])))
        if kind == "indef":
            B = rng.normal(size=(n, n))
            A = (B + B.T) / 2
        if kind == "dyadic":
            A = X @ X.T
    else:
        A = pairwise_distances(X, metric=str(rng.choice(["euclidean", "manhattan"])))
        if kind in ("zero", "indef"):
            A = np.zeros((n, n))
            kind = "zero"
        if kind == "const":
            A = np.full((n, n), 1.0) - np.eye(n)
    return np.ascontiguousarray(A, dtype=float), str(kind)


def tie_indicator(obj, ovo, eps, P, A, f32=False):
    """True when a discrete decision of the evaluator (sign at 0, delta == 0 mask) sits on a rounding-level tie:
    the gradient is then not a continuous function of the summation order and is not compared (only required finite)."""
    n, K = P.shape
    Pc = np.clip(P, eps, 1 - eps)
    pi = Pc.mean(0)
    if obj == "tv":
        if ovo:
            cross = pi.reshape(1, K, 1) * Pc.reshape(n, 1, K)
            diff = cross - np.transpose(cross, (0, 2, 1))
            off = ~np.eye(K, dtype=bool)
            diff = diff[:, off] if K > 1 else np.zeros((n, 0))
        else:
            diff = Pc - pi
        a = np.abs(diff)
        if f32:     # evaluated in float32: a difference below float32 resolution (exact zero included) can get either sign
            return bool(np.any(a < 1e-5))
        return bool(np.any((a < 1e-13) & (a > 0))) or bool(np.any(a == 0) and not _exact_case(Pc))
    if obj == "mmd":
        nk = A / n ** 2
        alpha = Pc / pi
        gamma = nk @ alpha
        if ovo:
            om = alpha.T @ gamma
            dg = np.diag(om).reshape(1, -1)
            arg = -2 * om + dg + dg.T
            arg = arg[~np.eye(K, dtype=bool)] if K > 1 else np.zeros(0)
        else:
            a, b, c = (alpha * gamma).sum(0), gamma.sum(0), nk.sum()
            arg = a + c - 2 * b
        scale = float(np.abs(nk).sum() * np.abs(alpha).max() ** 2)     # magnitude of the terms that cancel
        if f32:
            return bool(np.any(np.abs(arg) <= 1e-4 * (scale + 1e-300)))
        return bool(np.any(np.abs(arg) <= 1e-9 * (scale + 1e-300))) and not _exact_case(Pc, A)
    return False


def _exact_case(P, A=None):
    """All quantities are small dyadic rationals: every float operation involved is exact on both sides."""
    def dy(M):
        M = np.asarray(M, dtype=float)
        return bool(np.all(M * 64 == np.round(M * 64)) and np.all(np.abs(M) <= 64))
    n = P.shape[0]
    return dy(P) and (n & (n - 1)) == 0 and (A is None or dy(A))


def stream_gemini(chk, i, rng):
    gl = gemlib.gemini_list()
    label, fac = gl[i % len(gl)]
    fam = P_FAMILIES[(i // len(gl)) % len(P_FAMILIES)]
    g = fac()
    if rng.random() < 0.25:
        g.epsilon = float(rng.choice([1e-12, 1e-6, 1e-3, 0.25, 0.49]))
    eps = g.epsilon
    obj, ovo = gemlib.obj_of(g)
    P = gen_degenerate_P(rng, fam, eps)
    n, K = P.shape
    A, akind = None, "none"
    if obj in ("mmd", "ws"):
        A, akind = gen_degenerate_affinity(rng, n, obj)
    key = f"{type(g).__name__}({'ovo' if ovo else 'ova'}):{fam}"
    replay = {"gemini": label, "family": fam, "eps": eps, "n": n, "K": K, "affinity": akind, "P": P.tolist(), "A": None if A is None else A.tolist()}
    chk.dist[f"P={fam}"] += 1
    chk.dist[f"obj={obj}:{'ovo' if ovo else 'ova'}"] += 1
    if A is not None:
        chk.dist[f"affinity={akind}"] += 1
    try:
        s0, _, _ = gemlib.run_impl(g, P, A, want_grad=False)
        s, gr, calls = gemlib.run_impl(g, P, A, want_grad=True)
    except Exception as e:  # noqa
        chk.fail(key + ":raises", f"{label} on {fam} P (n={n}, K={K}) raised {type(e).__name__}: {e}", replay, layer="L3")
        chk.count(None)
        return
    ok = True
    if not (np.isfinite(s) and np.isfinite(s0)):
        chk.fail(key + ":score-nonfinite", f"{label}: score {s!r} / {s0!r} is not finite", replay, layer="L3")
        ok = False
    if gr.shape != (n, K):
        chk.fail(key + ":grad-shape", f"{label}: gradient shape {gr.shape}, expected {(n, K)}", replay, layer="L3")
        ok = False
    elif not finite(gr):
        chk.fail(key + ":grad-nonfinite", f"{label}: gradient has non-finite entries {short(gr[~np.isfinite(gr)])}", replay, layer="L3")
        ok = False
    if obj == "ws" and not all(finite(c["u"]) and finite(c["v"]) and np.isfinite(c["cost"]) for c in calls):
        chk.fail(key + ":oracle-nonfinite", f"{label}: the transport solver returned a non-finite cost or potential", replay, layer="L3")
        ok = False
    if ok:
        ms, mg = gemlib.run_model(chk, obj, ovo, eps, P, A, calls)
        if not (np.isfinite(ms) and finite(mg)):
            chk.fail(key + ":model-nonfinite", f"{label}: the extracted float model is not finite (score {ms!r})", replay)
        else:
            scale = max(abs(s), abs(ms), 1.0)
            tie = tie_indicator(obj, ovo, eps, P, A)
            # a squared MMD that is zero up to rounding goes through sqrt: the score is then only determined up to sqrt(rounding)
            stol = 1e-6 * (1.0 + float(np.sqrt(np.abs(A).max()))) if (tie and obj == "mmd") else 1e-9 * scale
            if abs(s - ms) > stol:
                chk.fail(key + ":score-mismatch", f"{label}: implementation score {s!r} != model score {ms!r}", replay)
            if tie:
                chk.dist["grad-not-compared(tie at rounding level)"] += 1
            else:
                gs = max(float(np.abs(gr).max()), float(np.abs(mg).max()), 1.0)
                if float(np.abs(gr - mg).max()) > 1e-8 * gs:
                    chk.fail(key + ":grad-mismatch", f"{label}: implementation gradient differs from the model's by {float(np.abs(gr - mg).max())!r}", replay)
    sat = bool(np.any((P <= eps) | (P >= 1 - eps)))
    chk.count((label, fam, n, K, akind, eps) if (sat or K == 1 or n == 1 or fam.endswith("uniform")) else None)
    chk.sample({"stream": "gemini", "gemini": label, "family": fam, "n": n, "K": K, "affinity": akind, "score": s})


# ================================================================== stream 2: softmax on extreme logits
def stream_softmax(chk, i, rng):
    fam = ["huge", "equal", "K=1", "spread", "tiny", "mixed-sign-huge", "max-float"][i % 7]
    K = 1 if fam == "K=1" else int(rng.integers(1, 7))
    n = int(rng.integers(1, 5))
    if fam == "huge":
        Z = rng.normal(size=(n, K)) * 10.0 ** rng.integers(3, 300)
    elif fam == "equal":
        Z = np.full((n, K), float(rng.normal() * 10.0 ** rng.integers(-3, 300)))
    elif fam == "spread":
        Z = rng.normal(size=(n, K)) * 800
    elif fam == "tiny":
        Z = rng.normal(size=(n, K)) * 1e-300
    elif fam == "max-float":
        Z = rng.choice([np.finfo(float).max, -np.finfo(float).max, 0.0, 1.0], size=(n, K))
    else:
        Z = rng.choice([-1.0, 1.0], size=(n, K)) * 10.0 ** rng.integers(0, 308, size=(n, K))
    Z = np.ascontiguousarray(Z, dtype=float)
    replay = {"family": fam, "Z": [[hx(v) for v in r] for r in Z]}
    S = sk_softmax(Z.copy())
    if not finite(S) or np.any(S < 0) or np.any(np.abs(S.sum(1) - 1) > 1e-12) or np.any(S.max(1) < 1.0 / K - 1e-15):
        chk.fail(f"softmax:{fam}:nonfinite", f"softmax of finite logits is not a finite probability vector: {short(S)}", replay, layer="L3")
    t = chk.ask(f"c17.softmax {enc_mat(Z)}")
    M = np.array(t.floats(n * K)).reshape(n, K)
    mx = np.array(t.floats(n))       # largest argument handed to exp, per row
    den = np.array(t.floats(n))      # denominator, per row
    if not finite(M):
        chk.fail(f"softmax:{fam}:model-nonfinite", "the extracted softmax_row is not finite", replay)
    elif np.abs(M - S).max() > 1e-12:
        chk.fail(f"softmax:{fam}:mismatch", f"sklearn softmax differs from the model by {np.abs(M - S).max()!r}", replay)
    if np.any(mx > 0) or np.any(den < 1) or np.any(den > K):
        chk.fail(f"softmax:{fam}:bounds", f"model: an exp argument is positive ({short(mx)}) or the denominator is outside [1, K] ({short(den)})", replay)
    chk.dist[f"softmax={fam}"] += 1
    chk.count(("softmax", fam, n, K) if float(np.abs(Z).max()) > 700 or K == 1 or fam == "equal" else None)


# ================================================================== stream 3: group-lasso operator on zero rows
def stream_prox(chk, i, rng):
    fam = ["zero-rows", "alpha=0", "tiny", "huge", "mixed", "all-zero", "one-col"][i % 7]
    d, h = int(rng.integers(1, 6)), int(rng.integers(1, 5))
    if fam == "one-col":
        h = 1
    W = rng.normal(size=(d, h))
    alpha = float(rng.choice([0.0, 1e-3, 0.1, 1.0, 10.0]))
    if fam == "zero-rows":
        W[rng.random(d) < 0.5] = 0.0
        W[0] = 0.0
    elif fam == "alpha=0":
        alpha = 0.0
        W[rng.random(d) < 0.3] = 0.0
    elif fam == "tiny":
        W *= 10.0 ** -rng.integers(150, 320)
    elif fam == "huge":
        W *= 10.0 ** rng.integers(100, 150)
    elif fam == "mixed":
        W[rng.random(d) < 0.3] = 0.0
        W[rng.random((d, h)) < 0.3] = 0.0
    elif fam == "all-zero":
        W[:] = 0.0
    replay = {"family": fam, "alpha": alpha, "W": [[hx(v) for v in r] for r in W]}
    try:
        R = np.asarray(prox_mod.linear_prox_grad(W.copy(), alpha), dtype=float)
    except Exception as e:  # noqa
        chk.fail(f"linear_prox_grad:{fam}:raises", f"{type(e).__name__}: {e}", replay, layer="L3")
        chk.count(None)
        return
    zero_rows = ~W.any(axis=1)
    if not finite(R):
        chk.fail(f"linear_prox_grad:{fam}:nonfinite", f"non-finite entries {short(R[~np.isfinite(R)])}", replay, layer="L3")
    elif np.any(R[zero_rows] != 0):
        chk.fail(f"linear_prox_grad:{fam}:zero-row", "a zero row does not stay zero", replay, layer="L3")
    t = chk.ask(f"c17.prox {hx(alpha)} {enc_mat(W)}")
    M = np.array(t.floats(d * h)).reshape(d, h)
    if not finite(M):
        chk.fail(f"linear_prox_grad:{fam}:model-nonfinite", "the extracted linear_prox_row is not finite", replay)
    elif finite(R) and np.abs(M - R).max() > 1e-9 * (1 + np.abs(W).max()):
        chk.fail(f"linear_prox_grad:{fam}:mismatch", f"implementation differs from the model by {np.abs(M - R).max()!r}", replay)
    # the group wrapper: one group holding a zero block, the rest singletons
    g0 = [int(j) for j in np.nonzero(zero_rows)[0]]
    groups = ([g0] if g0 else []) + [[j] for j in range(d) if j not in g0]
    RG = np.asarray(prox_mod.group_linear_prox_grad(groups, W.copy(), alpha), dtype=float)
    if not finite(RG):
        chk.fail(f"group_linear_prox_grad:{fam}:nonfinite", "non-finite entries with a group of zero rows", dict(replay, groups=groups), layer="L3")
    # the hierarchical operator at the states training reaches after a feature was eliminated: v = 0 and u = 0
    if alpha > 0:
        V, U = rng.normal(size=(d, 2)), rng.normal(size=(d, h))
        V[zero_rows] = 0.0
        U[zero_rows] = 0.0
        b, th = prox_mod.mlp_prox_grad(V.copy(), U.copy(), alpha, float(rng.choice([1.0, 10.0])))
        if not (finite(b) and finite(th)):
            chk.fail(f"mlp_prox_grad:{fam}:nonfinite", "non-finite result on eliminated (zero skip and zero first-layer) rows", dict(replay, V=V.tolist(), U=U.tolist()), layer="L3")
    chk.dist[f"prox={fam}"] += 1
    chk.count(("prox", fam, d, h, alpha) if zero_rows.any() or fam in ("tiny", "huge") else None)


# ================================================================== stream 4: every estimator x GEMINI x data family
DATA_FAMILIES = ["scale=1e-3", "scale=1", "scale=1000", "const-col", "zero-col", "dup-col", "dup-rows", "all-same-rows",
                 "K=n", "K=1", "batch=1", "one-feature"]


def gen_data(rng, fam, big=False):
    n = int(rng.integers(6, 13 if not big else 25))
    d = int(rng.integers(2, 5))
    K = int(rng.integers(2, 4))
    scale = {"scale=1e-3": 1e-3, "scale=1": 1.0, "scale=1000": 1000.0}.get(fam, float(rng.choice([1e-3, 1.0, 1000.0])))
    if fam == "one-feature":
        d = 1
    X = impl.blobs(rng, n, d, k=3, scale=1.0)
    if fam == "const-col":
        X[:, int(rng.integers(0, d))] = float(rng.normal())
    if fam == "zero-col":
        X[:, int(rng.integers(0, d))] = 0.0
    if fam == "dup-col":
        a, b = rng.choice(d, size=2, replace=False)
        X[:, b] = X[:, a]
    if fam == "dup-rows":
        X = X[rng.integers(0, max(2, n // 3), size=n)]
    if fam == "all-same-rows":
        X = np.repeat(X[:1], n, axis=0)
    X = X * scale
    bs = None if rng.random() < 0.5 else int(rng.integers(2, n + 1))
    if fam == "K=n":
        X = X[:int(rng.integers(3, 8))]
        K = len(X)
    if fam == "K=1":
        K = 1
    if fam == "batch=1":
        bs = 1
    return np.ascontiguousarray(X, dtype=float), K, bs, scale


def krim_sgd_divergence(est, X):
    """Independent diagnosis of the recorded finding F26 (key KernelRIM:sgd-divergence).  KernelRIM's SGD step on the penalty
    reg*tr(W'KW) is W <- (I - 2*lr*reg*K) W plus the bounded GEMINI term: it is expansive iff lr*reg*lambda_max(K) > 1.  The
    non-finite parameters are attributed to it only when that criterion holds for the training kernel AND the same fit without
    the penalty (reg=0) stays finite; anything else keeps its specific key."""
    from sklearn.base import clone
    if est.solver != "sgd":
        return False
    K = np.asarray(est.training_kernel_, dtype=float)
    if not finite(K):
        return False
    lam = float(np.linalg.eigvalsh((K + K.T) / 2).max())
    if not (est.learning_rate * est.reg * lam > 1):
        return False
    twin = clone(est).set_params(reg=0.0)
    twin.fit(X)
    return finite(twin._get_weights()[0]) and finite(twin._get_weights()[1])


KEY_F26 = "KernelRIM:sgd-divergence"


def check_fitted(chk, key, est, name, X, y, replay, obj=None):
    """L3: every learned parameter, probability and score finite; L2: score() = extracted model GEMINI on predict_proba."""
    bad = False
    if name == "Kauri":
        tr = est.tree_
        nums = [v for v in list(tr.gains) + [t for t in tr.thresholds if t is not None]]
        if not finite(nums):
            chk.fail(key + ":params-nonfinite", f"tree_ gains/thresholds contain a non-finite value: gains={short(tr.gains)}", replay, layer="L3")
            bad = True
        try:
            lab = est.predict(X)
            sc = est.score(X, y)
        except Exception as e:  # noqa
            chk.fail(key + f":predict-raises:{type(e).__name__}", f"predict/score raised {type(e).__name__}: {e}", replay, layer="L3")
            return False
        if not np.isfinite(sc):
            chk.fail(key + ":score-nonfinite", f"score is {sc!r}", replay, layer="L3")
            bad = True
        if not np.array_equal(lab, est.labels_):
            chk.fail(key + ":labels", "predict on the training data differs from labels_", replay, layer="L3")
        return not bad
    ws = est._get_weights()
    for j, w in enumerate(ws):
        if not finite(w):
            k2 = key + ":params-nonfinite"
            if name == "KernelRIM" and krim_sgd_divergence(est, X):
                k2 = KEY_F26
                chk.dist["KernelRIM sgd divergence (expansive penalty step, finite with reg=0)"] += 1
            chk.fail(k2, f"learned parameter #{j} has non-finite entries {short(np.asarray(w)[~np.isfinite(w)])}", replay, layer="L3")
            return False        # probabilities and score computed from these parameters are consequences, not separate failures
    try:
        Pp = np.asarray(est.predict_proba(X), dtype=float)
        sc = est.score(X, y)
    except Exception as e:  # noqa
        chk.fail(key + f":predict-raises:{type(e).__name__}", f"predict_proba/score raised {type(e).__name__}: {e}", replay, layer="L3")
        return False
    if not finite(Pp) or np.any(np.abs(Pp.sum(1) - 1) > 1e-9) or np.any(Pp < 0):
        chk.fail(key + ":proba-nonfinite", f"predict_proba is not a finite probability matrix: {short(Pp)}", replay, layer="L3")
        bad = True
    if not np.isfinite(sc):
        chk.fail(key + ":score-nonfinite", f"score is {sc!r}", replay, layer="L3")
        bad = True
    if not finite(est.labels_):
        bad = True
    if not bad and name != "KernelRIM":
        # L2: the score is the extracted model's GEMINI of the returned probabilities (float instance, degenerate data)
        g = est.get_gemini()
        o, ovo = gemlib.obj_of(g)
        A = g.compute_affinity(X, y)
        # the extracted model recomputes shared sub-terms (no memoisation): keep its cost bounded
        cost = len(X) ** 5 * Pp.shape[1] ** 2 if (o == "mmd" and ovo) else len(X) ** 3 * Pp.shape[1]
        if cost <= 2e7 and (o != "ws" or len(X) <= 12):
            s_impl, _, calls = gemlib.run_impl(g, Pp, A, want_grad=(o == "ws"))
            ms, mg = gemlib.run_model(chk, o, ovo, g.epsilon, Pp, None if A is None else np.asarray(A, dtype=float), calls)
            if not np.isfinite(ms) or not finite(mg):
                chk.fail(key + ":model-nonfinite", f"extracted model GEMINI on the fitted probabilities is not finite ({ms!r})", replay)
            elif abs(ms - sc) > (1e-6 * (1.0 + float(np.sqrt(np.abs(A).max()))) if (o == "mmd" and tie_indicator(o, ovo, g.epsilon, Pp, np.asarray(A, dtype=float)))
                                 else 1e-9 * max(1.0, abs(sc), abs(ms))):
                chk.fail(key + ":score-mismatch", f"score() = {sc!r} but the model GEMINI of predict_proba = {ms!r}", replay)
    return not bad


def build_estimator(rng, name, K, bs, max_iter, gem_index):
    kw = dict(n_clusters=K, max_iter=max_iter, batch_size=bs, random_state=int(rng.integers(0, 10 ** 6)),
              learning_rate=float(rng.choice([1e-3, 1e-2, 1e-1])), solver=str(rng.choice(["adam", "sgd"])))
    desc = {}
    if name in impl.GENERIC_GEMINI:
        gname = GEN_NAMES[gem_index % len(GEN_NAMES)]
        kw["gemini"] = gname
        desc["gemini"] = gname
    else:
        kw["ovo"] = bool(rng.random() < 0.5)
        desc["ovo"] = kw["ovo"]
    if "MLP" in name:
        kw["n_hidden_dim"] = int(rng.integers(1, 6))
    if name in impl.SPARSE:
        kw["alpha"] = float(rng.choice([1e-2, 1.0, 100.0]))
    if name == "Douglas":
        kw["n_cuts"] = int(rng.integers(1, 3))
        kw["temperature"] = float(rng.choice([0.1, 1.0, 0.01]))
    if name == "Kauri":
        kw = dict(max_clusters=K, random_state=kw["random_state"], kernel=str(rng.choice(["linear", "rbf", "laplacian"])))
    est = impl.make(name, **kw)
    desc.update({k: v for k, v in kw.items() if k != "gemini"})
    desc = {k: v for k, v in desc.items() if k in est.get_params()}
    return est, desc


def stream_fit(chk, i, rng):
    names = list(impl.ALL_ESTIMATORS)
    name = names[i % len(names)]
    fam = DATA_FAMILIES[(i // len(names)) % len(DATA_FAMILIES)]
    X, K, bs, scale = gen_data(rng, fam, big=chk.tier == "thorough")
    max_iter = int(rng.choice([2, 3, 6]))
    est, desc = build_estimator(rng, name, K, bs, max_iter, i // (len(names) * len(DATA_FAMILIES)) + i)
    key = f"{name}:{fam}"
    replay = {"estimator": name, "family": fam, "scale": scale, "params": desc, "X": X.tolist()}
    chk.dist[f"family={fam}"] += 1
    chk.dist[f"est={name}"] += 1
    if "gemini" in desc:
        chk.dist[f"gemini={desc['gemini']}"] += 1
    try:
        est.fit(X)
    except Exception as e:  # noqa
        chk.fail(key + f":fit-raises:{type(e).__name__}", f"fit raised {type(e).__name__}: {e} with {desc}", replay, layer="L3")
        chk.count(None)
        return
    ok = check_fitted(chk, key, est, name, X, None, replay)
    chk.traces += 1
    chk.count((name, fam, tuple(sorted((k, str(v)) for k, v in desc.items())), X.shape))
    if ok:
        chk.sample({"stream": "fit", "estimator": name, "family": fam, "params": desc, "n": len(X), "d": X.shape[1],
                    "one_cluster": bool(len(set(np.asarray(est.labels_).tolist())) == 1)})
    if len(set(np.asarray(est.labels_).tolist())) == 1:
        chk.dist["result:single-cluster(finite)"] += 1


# ================================================================== stream 4b: long trainings on badly scaled data
def stream_long(chk, i, rng):
    """Many optimiser steps (divergence needs time to overflow): every estimator, both solvers, default-like step sizes."""
    names = list(impl.GRADIENT_ESTIMATORS)
    name = names[i % len(names)]
    j = i // len(names)
    fam = ["scale=1000", "scale=1e-3", "scale=1000", "dup-rows"][j % 4]
    solver = ["sgd", "adam"][(j // 2) % 2] if j % 4 != 2 else "sgd"
    X, K, bs, scale = gen_data(rng, fam)
    if fam == "dup-rows":
        X, scale = X / scale * 1000.0, 1000.0
    max_iter = 100 if chk.tier == "quick" else 400
    est, desc = build_estimator(rng, name, K, None if j % 4 != 2 else 1, max_iter, i)
    est.set_params(solver=solver, learning_rate=float([1e-3, 1e-2][j % 2]))
    desc.update(solver=solver, learning_rate=est.learning_rate, max_iter=max_iter, batch_size=est.get_params().get("batch_size"))
    key = f"{name}:{fam}:long"
    replay = {"estimator": name, "family": fam, "scale": scale, "params": desc, "X": X.tolist()}
    try:
        est.fit(X)
    except Exception as e:  # noqa
        chk.fail(key + f":fit-raises:{type(e).__name__}", f"fit raised {type(e).__name__}: {e} with {desc}", replay, layer="L3")
        chk.count(None)
        return
    check_fitted(chk, key, est, name, X, None, replay)
    chk.traces += 1
    chk.dist[f"long:{fam}:{solver}"] += 1
    chk.count(("long", name, fam, solver, est.learning_rate, X.shape))


# ================================================================== stream 4c: the recorded KernelRIM divergence, deterministic
def stream_krim(chk, i, rng):
    """Case 0: the minimal reproduction of F26 (default KernelRIM but solver='sgd', features x1000, 100 epochs): a repair makes the
    KNOWN-FINDING line disappear.  Cases 1-3: the same data with adam / with the rbf base kernel / unscaled with sgd must be finite."""
    X = np.random.default_rng(0).normal(size=(20, 2))
    cfg = [dict(solver="sgd", scale=1000.0), dict(solver="adam", scale=1000.0), dict(solver="sgd", scale=1000.0, base_kernel="rbf"),
           dict(solver="sgd", scale=1.0)][i % 4]
    scale = cfg.pop("scale")
    est = impl.KernelRIM(n_clusters=3, max_iter=100, random_state=0, **cfg)
    Xs = X * scale
    replay = {"estimator": "KernelRIM", "family": f"scale={scale:g}", "params": dict(cfg, n_clusters=3, max_iter=100, random_state=0),
              "X": "np.random.default_rng(0).normal(size=(20, 2)) * %g" % scale}
    est.fit(Xs)
    check_fitted(chk, f"KernelRIM:scale={scale:g}:dedicated", est, "KernelRIM", Xs, None, replay)
    chk.traces += 1
    chk.count(("krim", i % 4))


# ================================================================== stream 5: regularisation paths of the sparse models
def stream_path(chk, i, rng):
    name = impl.SPARSE[i % len(impl.SPARSE)]
    fam = DATA_FAMILIES[(i // len(impl.SPARSE)) % len(DATA_FAMILIES)]
    if fam == "one-feature":
        fam = "dup-col"
    X, K, bs, scale = gen_data(rng, fam)
    if X.shape[1] < 3:
        X = np.hstack([X, X[:, :1] * 0.5 + 1.0, rng.normal(size=(len(X), 1)) * scale])
    est, desc = build_estimator(rng, name, K, bs, 2, i)
    est.set_params(alpha=float(rng.choice([1e-2, 1.0])))
    if "dynamic" in est.get_params() and rng.random() < 0.3:
        est.set_params(dynamic=True)
        desc["dynamic"] = True
    pargs = dict(alpha_multiplier=float(rng.choice([3.0, 10.0])), min_features=int(rng.integers(1, 3)), max_patience=2)
    key = f"{name}:{fam}:path"
    replay = {"estimator": name, "family": fam, "scale": scale, "params": desc, "path_args": pargs, "X": X.tolist()}
    try:
        res = est.path(X, **pargs)
    except Exception as e:  # noqa
        chk.fail(key + f":raises:{type(e).__name__}", f"path raised {type(e).__name__}: {e} with {desc}", replay, layer="L3")
        chk.count(None)
        return
    for j, part in enumerate(res):
        if not finite(part):
            chk.fail(key + ":history-nonfinite", f"element #{j} of the path result has non-finite values: {short(np.asarray(part, dtype=float)) if not isinstance(part, list) or not part or np.isscalar(part[0]) else '...'}", replay, layer="L3")
            break
    lens = [len(p) for p in res[1:]]
    check_fitted(chk, key, est, name, X, None, replay)
    chk.traces += 1
    chk.dist[f"path:{name}"] += 1
    chk.dist[f"path-steps={min(lens) if lens else 0}"] += 1
    chk.count(("path", name, fam, tuple(sorted((k, str(v)) for k, v in desc.items())), tuple(lens)) if lens and min(lens) >= 1 else None)


# ================================================================== stream 6: Kauri — recorded gains, both artefacts
KAURI_FAMILIES = ["dup-rows", "all-same-rows", "const-col", "all-const", "dup-col", "scale=1000", "scale=1e-3",
                  "precomputed-indef", "precomputed-zero", "precomputed-psd", "K=n", "K=1", "two-values"]
PYX = {}


def load_pyx(chk):
    if "mod" in PYX:
        return PYX["mod"]
    try:
        import pyx_desugar
        PYX["mod"] = pyx_desugar.load_module()
    except Exception as e:  # noqa
        PYX["mod"] = None
        chk.notes.append(f"desugared .pyx unavailable ({type(e).__name__}: {e}); only the compiled module is examined")
    return PYX["mod"]


class GainRecorder:
    def __init__(self, fn):
        self.fn, self.gains = fn, []

    def __enter__(self):
        self.orig = kauri_mod.find_best_split
        rec = self

        def wrapped(*a):
            s = rec.fn(*a)
            rec.gains.append(float(s.gain))
            return s
        kauri_mod.find_best_split = wrapped
        return self

    def __exit__(self, *a):
        kauri_mod.find_best_split = self.orig


def stream_kauri(chk, i, rng):
    fam = KAURI_FAMILIES[i % len(KAURI_FAMILIES)]
    n = int(rng.integers(2, 15))
    d = int(rng.integers(1, 4))
    X = impl.blobs(rng, n, d, k=3)
    Kmax = int(rng.integers(2, 5))
    y = None
    kernel = str(rng.choice(["linear", "rbf", "cosine"]))
    if fam == "dup-rows":
        X = X[rng.integers(0, max(1, n // 3), size=n)]
    elif fam == "all-same-rows":
        X = np.repeat(X[:1], n, axis=0)
    elif fam == "const-col":
        X[:, int(rng.integers(0, d))] = float(rng.normal())
    elif fam == "all-const":
        X[:] = X[0]
        X[:, 0] = np.arange(n) % 2 if rng.random() < 0.5 else X[0, 0]
    elif fam == "dup-col" and d >= 2:
        X[:, 1] = X[:, 0]
    elif fam == "scale=1000":
        X *= 1000
    elif fam == "scale=1e-3":
        X *= 1e-3
    elif fam == "two-values":
        X = np.round(X / 3.0)
    elif fam.startswith("precomputed"):
        kernel = "precomputed"
        B = rng.normal(size=(n, n))
        y = {"precomputed-indef": (B + B.T) / 2, "precomputed-zero": np.zeros((n, n)), "precomputed-psd": B @ B.T}[fam]
        if rng.random() < 0.3:
            y = y * 1e6
    elif fam == "K=n":
        Kmax = n
    elif fam == "K=1":
        Kmax = 1
    msl = int(rng.choice([1, 1, 2]))
    p = dict(max_clusters=Kmax, kernel=kernel, min_samples_leaf=msl, min_samples_split=max(2, 2 * msl),
             max_depth=None if rng.random() < 0.6 else int(rng.integers(1, 4)), random_state=int(rng.integers(0, 10 ** 6)))
    X = np.ascontiguousarray(X, dtype=float)
    replay = {"family": fam, "params": p, "X": X.tolist(), "y": None if y is None else y.tolist()}
    mods = [("so", None)]
    pyx = load_pyx(chk)
    if pyx is not None:
        mods.append(("pyx", pyx))
    results = {}
    for tag, mod in mods:
        key = f"Kauri[{tag}]:{fam}"
        est = impl.Kauri(**p)
        fn = kauri_mod.find_best_split if mod is None else mod.find_best_split
        try:
            with GainRecorder(fn) as rec:
                est.fit(X, y)
        except Exception as e:  # noqa
            chk.fail(key + f":fit-raises:{type(e).__name__}", f"Kauri.fit raised {type(e).__name__}: {e}", replay, layer="L3")
            continue
        if not finite(rec.gains):
            chk.fail(key + ":gain-nonfinite", f"find_best_split returned a non-finite gain: {rec.gains}", replay, layer="L3")
        check_fitted(chk, key, est, "Kauri", X, y, replay)
        results[tag] = (rec.gains, np.asarray(est.labels_).tolist())
        chk.traces += 1
    if len(results) == 2:
        ga, gb = results["so"][0], results["pyx"][0]
        if len(ga) != len(gb) or any(abs(a - b) > 1e-9 * (1 + abs(a)) for a, b in zip(ga, gb)):
            chk.notes.append(f"compiled module and .pyx source disagree on recorded gains for case {chk.cur} (stale .so?)") if len(chk.notes) < 5 else None
            chk.dist["so-vs-pyx-differ"] += 1
    ng = len(results.get("so", ([], []))[0])
    chk.dist[f"kauri={fam}"] += 1
    chk.count(("kauri", fam, n, d, Kmax, kernel, ng) if ng >= 1 else None)


# ================================================================== round-3 streams: representations, extreme scales, GEMINI call path
import copy as _copy


def flat_numbers(obj):
    """Every number of a nested result (arrays, lists, tuples, scalars) as one float vector."""
    if obj is None:
        return np.zeros(0)
    if isinstance(obj, (list, tuple)):
        parts = [flat_numbers(o) for o in obj]
        return np.concatenate(parts) if parts else np.zeros(0)
    return np.asarray(obj, dtype=float).ravel()


def same_numbers(a, b, tol=1e-10, atol=0.0):
    fa, fb = flat_numbers(a), flat_numbers(b)
    if fa.shape != fb.shape:
        return False
    if fa.size == 0:
        return True
    if not (np.all(np.isfinite(fa)) and np.all(np.isfinite(fb))):
        return bool(np.array_equal(fa, fb, equal_nan=True))
    return bool(np.all(np.abs(fa - fb) <= atol + tol * (1.0 + np.maximum(np.abs(fa), np.abs(fb)))))


class time_limit:
    """Wall-clock guard for calls that loop until a condition holds (path): TimeoutError instead of a hung check."""

    def __init__(self, seconds):
        self.seconds = seconds

    def __enter__(self):
        import signal

        def handler(signum, frame):
            raise TimeoutError(f"no result after {self.seconds} s")
        self.old = signal.signal(signal.SIGALRM, handler)
        signal.alarm(self.seconds)

    def __exit__(self, *a):
        import signal
        signal.alarm(0)
        signal.signal(signal.SIGALRM, self.old)


def observe(chk, oid, what):
    """A misbehaviour of the UNCHANGED tree at a corner outside the recorded findings: reported to the coordinator, counted
    and written to the evidence notes, not failed (the coordinator decides between fix / known finding / out of scope)."""
    chk.dist[f"observation:{oid}"] += 1
    msg = f"observation {oid}: {what}"
    if not any(nt.startswith(f"observation {oid}:") for nt in chk.notes):
        chk.notes.append(msg)


class Snap:
    """Bit-for-bit snapshot of an argument (and of the buffer a view looks into) taken before a call."""

    def __init__(self, obj):
        self.obj = obj
        if isinstance(obj, np.ndarray):
            self.base = obj.base if isinstance(obj.base, np.ndarray) else None
            self.state = (np.ascontiguousarray(obj).tobytes(), obj.dtype, obj.shape, obj.strides, obj.flags.writeable,
                          None if self.base is None else self.base.tobytes())
        else:
            self.state = _copy.deepcopy(obj)

    def unchanged(self):
        o = self.obj
        if isinstance(o, np.ndarray):
            return self.state == (np.ascontiguousarray(o).tobytes(), o.dtype, o.shape, o.strides, o.flags.writeable,
                                  None if self.base is None else self.base.tobytes())
        return self.state == o and type(self.state) is type(o)


def representations(M, rng, lists=True):
    """The same values in other representations: (tag, object).  M is a float64 C-contiguous matrix."""
    out = []
    if np.all(M == np.round(M)) and np.abs(M).max() < 2 ** 31:
        out += [("int64", M.astype(np.int64)), ("int32", M.astype(np.int32))]
        if np.all((M == 0) | (M == 1)):
            out.append(("bool", M.astype(bool)))
    if np.array_equal(M.astype(np.float32).astype(np.float64), M):
        out.append(("float32", M.astype(np.float32)))
    out.append(("fortran", np.asfortranarray(M.copy())))
    big = rng.normal(size=(2 * M.shape[0], M.shape[1]))
    big[::2] = M
    out.append(("view-rows", big[::2]))
    rev = np.ascontiguousarray(M[:, ::-1])
    out.append(("view-cols", rev[:, ::-1]))
    out.append(("transposed-copy", np.ascontiguousarray(M.T).T))
    ro = M.copy()
    ro.setflags(write=False)
    out.append(("read-only", ro))
    if lists:
        out += [("list", M.tolist()), ("tuple", tuple(tuple(r) for r in M.tolist()))]
    return out


PRECOMPUTABLE = {"LinearMMD": "kernel", "MLPMMD": "kernel", "SparseLinearMMD": "kernel", "SparseMLPMMD": "kernel", "CategoricalMMD": "kernel",
                 "LinearWasserstein": "metric", "MLPWasserstein": "metric", "CategoricalWasserstein": "metric", "Kauri": "kernel"}
REPR_FAMILIES = ["grid", "K=1", "K=n", "one-feature", "const-col", "dup-col", "eighths", "x1024", "x2^-10"]


def repr_data(rng, fam):
    n, d, K = int(rng.integers(6, 10)), int(rng.integers(2, 4)), int(rng.integers(2, 4))
    if fam == "one-feature":
        d = 1
    X = rng.integers(-4, 5, size=(n, d)).astype(float) + np.repeat(np.arange(3), n)[:n].reshape(-1, 1) * 6
    if fam == "eighths":
        X = X + rng.integers(0, 8, size=(n, d)) / 8.0
    if fam == "x1024":
        X = X * 1024.0
    if fam == "x2^-10":
        X = X / 1024.0
    if fam == "const-col":
        X[:, int(rng.integers(0, d))] = 3.0
    if fam == "dup-col" and d >= 2:
        X[:, 1] = X[:, 0]
    if fam == "K=1":
        K = 1
    if fam == "K=n":
        X, K = X[:5], 5
    return np.ascontiguousarray(X, dtype=float), K


def run_entry_points(name, est_factory, X, y, with_path):
    """fit, fit_predict, predict, predict_proba, score (and path) on fresh clones.  Returns (results, errors): one failing
    entry point does not mask the others."""
    res, err = {}, {}
    try:
        e = est_factory()
        e.fit(X, y)
        res["labels"] = np.asarray(e.labels_).tolist()
        if name == "Kauri":
            res["params"] = [list(e.tree_.gains), [t for t in e.tree_.thresholds if t is not None], [f for f in e.tree_.features if f is not None]]
        else:
            res["params"] = [np.array(w, dtype=float) for w in e._get_weights()]
    except Exception as ex:  # noqa
        err["fit"] = ex
        e = None
    if e is not None:
        calls = [("predict", lambda: np.asarray(e.predict(X)).tolist()), ("score", lambda: float(e.score(X, y)))]
        if name != "Kauri":
            calls.insert(0, ("proba", lambda: np.asarray(e.predict_proba(X), dtype=float)))
        for part, fn in calls:
            try:
                res[part] = fn()
            except Exception as ex:  # noqa
                err[part] = ex
    try:
        res["fit_predict"] = np.asarray(est_factory().fit_predict(X, y)).tolist()
    except Exception as ex:  # noqa
        err["fit_predict"] = ex
    if with_path:
        try:
            p = est_factory()
            with time_limit(30):
                out = p.path(X, y, alpha_multiplier=4.0, min_features=1, max_patience=1)
            res["path"] = [out[0], out[1], out[2], out[3], out[4]]
            res["path-weights"] = [np.array(w, dtype=float) for w in p._get_weights()]
            res["path-score"] = float(p.score(X, y))
        except Exception as ex:  # noqa
            err["path"] = ex
    return res, err


def stream_repr(chk, i, rng):
    """Same values, other representation (dtype, memory layout, read-only, lists) -> same finite results through fit,
    fit_predict, predict, predict_proba, score and path; the caller's arrays are unchanged bit for bit."""
    names = list(impl.ALL_ESTIMATORS)
    name = names[i % len(names)]
    fam = REPR_FAMILIES[(i // len(names) + i) % len(REPR_FAMILIES)]
    X, K = repr_data(rng, fam)
    n = len(X)
    pre = PRECOMPUTABLE.get(name) if (i // len(names)) % 2 == 1 else None
    seed = int(rng.integers(0, 10 ** 6))
    kw = dict(n_clusters=K, max_clusters=K, max_iter=2, random_state=seed, batch_size=[None, n, n + 3, 2][i % 4], alpha=1.0)
    if name in impl.GENERIC_GEMINI:
        kw["gemini"] = GEN_NAMES[(i // len(names) * 5 + i) % len(GEN_NAMES)]
    if "MLP" in name:
        kw["n_hidden_dim"] = 3
    if name == "Douglas":
        kw["n_cuts"] = 1
    A = None
    if pre is not None:
        kw[pre] = "precomputed"
        B = rng.integers(-3, 4, size=(n, n)).astype(float)
        A = B + B.T if pre == "kernel" else np.abs(B + B.T)
        if pre == "metric":
            np.fill_diagonal(A, 0.0)
        if name == "Kauri":
            A = B @ B.T
    factory = lambda: impl.make(name, **kw)  # noqa: E731
    with_path = name in impl.SPARSE and X.shape[1] >= 2
    desc = {k: v for k, v in kw.items() if k in factory().get_params()}
    replay = {"estimator": name, "family": fam, "params": desc, "X": X.tolist(), "y": None if A is None else A.tolist()}
    chk.dist[f"repr:family={fam}"] += 1
    chk.dist["repr:precomputed" if pre else "repr:named-affinity"] += 1
    ref, rerr = run_entry_points(name, factory, X.copy(), None if A is None else A.copy(), with_path)
    for part, ex in rerr.items():
        chk.fail(f"{name}:repr:{fam}:reference-{part}-raises:{type(ex).__name__}", f"{part} raised {type(ex).__name__}: {ex} on the float64 C-contiguous reference with {desc}", replay, layer="L3")
    for part, val in ref.items():
        if not finite(flat_numbers(val)):
            chk.fail(f"{name}:repr:{fam}:{part}-nonfinite", f"{part} has non-finite values on the reference representation with {desc}", replay, layer="L3")
    # an MMD whose square is zero up to rounding goes through sqrt: its score is only determined up to sqrt(rounding)
    slack = 0.0
    if name not in ("Kauri", "KernelRIM"):
        g0 = factory().get_gemini()
        if gemlib.obj_of(g0)[0] == "mmd":
            slack = 1.0 + float(np.sqrt(np.abs(np.asarray(g0.compute_affinity(X, A), dtype=float)).max()))
    xs = representations(X, rng)
    ys = [(None, None)] if A is None else [("f64", A.copy())] + representations(A, rng)
    pairs = [(tx, vx, "f64" if A is not None else None, None if A is None else A.copy()) for tx, vx in xs]
    pairs += [("f64", X.copy(), ty, vy) for ty, vy in ys[1:]]
    if A is not None and len(xs) and len(ys) > 1:
        j = int(rng.integers(0, min(len(xs), len(ys) - 1)))
        pairs.append((xs[j][0], xs[j][1], ys[1 + j][0], ys[1 + j][1]))
    for tx, vx, ty, vy in pairs:
        tag = tx if ty in (None, "f64") else (f"y={ty}" if tx == "f64" else f"{tx}+y={ty}")
        f32 = "float32" in tag          # float32 inputs reach compute_affinity / the GEMINI unconverted in score(): float32 resolution
        sx, sy = Snap(vx), Snap(vy)
        chk.dist[f"repr:{'y' if 'y=' in tag else tag}"] += 1
        got, gerr = run_entry_points(name, factory, vx, vy, with_path)
        for part, ex in gerr.items():
            if part in rerr:
                continue
            if ty in ("list", "tuple"):
                # y is documented as an ndarray: nothing is expected of a list-typed affinity (coordinator's decision); recorded only
                observe(chk, "O1", f"{name}(kernel/metric='precomputed').{part}(X, y) raises {type(ex).__name__} ({ex}) when the affinity y is a list/tuple "
                                   "(fit and score accept it; compute_val_score of path slices the raw y)")
                continue
            chk.fail(f"{name}:repr:{tag}:{part}-raises:{type(ex).__name__}", f"{part}: {type(ex).__name__}: {ex} on the {tag} representation although the float64 C-contiguous call succeeds ({fam}, {desc})", dict(replay, variant=tag), layer="L3")
        for part in ref:
            if part not in got or ty in ("list", "tuple"):
                continue
            if ty == "float32" or (f32 and part in ("params", "path", "path-weights", "path-score")):
                # a float32 affinity enters every gradient unconverted: its 1e-7 rounding is amplified without bound by Adam's normalised
                # step at near-zero gradients and by discrete branches (ReLU masks, hier-prox index, LP vertex): only finiteness is required
                # (same for the weights / histories trained or selected on float32 X: path() scores the raw float32 X) -- C17 is about
                # finiteness: finite, same shapes, no exception, arguments unchanged
                if not finite(flat_numbers(got[part])) or flat_numbers(got[part]).shape != flat_numbers(ref[part]).shape and part != "path":
                    chk.fail(f"{name}:repr:{tag}:{part}-nonfinite", f"{part} has non-finite values or another shape on the {tag} representation ({fam}, {desc})", dict(replay, variant=tag), layer="L3")
                continue
            sc = part in ("score", "path-score", "path")
            if not same_numbers(ref[part], got[part], tol=1e-5 if f32 else 1e-10, atol=(2e-3 if f32 else 1e-6) * slack if sc else 0.0):
                chk.fail(f"{name}:repr:{tag}:{part}-differs", f"{part} on the {tag} representation differs from the float64 C-contiguous reference ({fam}, {desc})", dict(replay, variant=tag), layer="L3")
                break
        if not sx.unchanged():
            chk.fail(f"{name}:repr:{tag}:X-modified", f"the caller's X ({tx}) was modified by fit/fit_predict/predict/score/path", dict(replay, variant=tag), layer="L3")
        if vy is not None and not sy.unchanged():
            chk.fail(f"{name}:repr:{tag}:y-modified", f"the caller's affinity ({ty}) was modified", dict(replay, variant=tag), layer="L3")
    chk.traces += len(pairs)
    chk.count(("repr", name, fam, pre, len(pairs)))
    chk.sample({"stream": "repr", "estimator": name, "family": fam, "precomputed": pre, "variants": [p[0] if p[2] in (None, "f64") else p[0] + "/" + p[2] for p in pairs]})


# ------------------------------------------------------------------ extreme scales (1e-300 .. 1e300), typed data
EXTREME = [("f64", 1e-300), ("f64", 1e-150), ("f64", 1e-30), ("f64", 1e30), ("f64", 1e150), ("f64", 1e300), ("f64", 5e-324),
           ("float32", 1e-30), ("float32", 1e30), ("float32", 1.0), ("int64", 1.0), ("int64", 1e15), ("int32", 1e6), ("f64-negzero", 1.0), ("f64-adjacent", 1.0), ("f64-adjacent", 1e300)]
EXT_FAMILIES = ["plain", "K=1", "K=n", "one-feature", "const-col", "dup-col", "const+dup"]


def affinity_legal(est, name, X, raw=False):
    """Scales are legal while the affinity the objective needs (an sklearn / user oracle) is itself finite and its grand sum
    does not overflow; beyond that no finite result can be expected from any implementation."""
    from sklearn.metrics import pairwise_kernels
    Xf = np.asarray(X) if raw else np.asarray(X, dtype=float)
    try:
        if name == "Kauri":
            A = est._compute_kernel(Xf, None)
        elif name == "KernelRIM":
            A = pairwise_kernels(Xf, metric=est.base_kernel, **(est.base_kernel_params or {}))
        else:
            A = est.get_gemini().compute_affinity(Xf)
    except Exception:  # noqa
        return False
    if A is None:
        return True
    A = np.asarray(A)
    return finite(A) and bool(np.isfinite(np.abs(A).sum(dtype=A.dtype if A.dtype.kind == "f" else float) * len(Xf)))


def stream_extreme(chk, i, rng):
    names = list(impl.ALL_ESTIMATORS)
    name = names[i % len(names)]
    dtype, scale = EXTREME[(i // len(names) + i) % len(EXTREME)]
    fam = EXT_FAMILIES[(i // len(names) * 3 + i) % len(EXT_FAMILIES)]
    n, d, K = int(rng.integers(6, 11)), int(rng.integers(2, 4)), int(rng.integers(2, 4))
    if fam == "one-feature":
        d = 1
    base = rng.integers(-4, 5, size=(n, d)).astype(float) + np.repeat(np.arange(3), n)[:n].reshape(-1, 1) * 6
    if dtype.startswith("f"):
        base = base + rng.integers(0, 8, size=(n, d)) / 8.0
    if fam in ("const-col", "const+dup"):
        base[:, 0] = 3.0
    if fam in ("dup-col", "const+dup") and d >= 2:
        base[:, d - 1] = base[:, d - 2] if d >= 3 or fam == "dup-col" else base[:, 0]
    if fam == "K=1":
        K = 1
    if fam == "K=n":
        base, K = base[:5], 5
    X = base * scale
    if dtype == "f64-negzero":
        X = X - X[:1]
        X[X == 0] = -0.0
    if dtype == "f64-adjacent":
        # exact ties and adjacent doubles: every second sample is one ulp above / equal to its predecessor
        X[1::2] = np.nextafter(X[0::2][:len(X[1::2])], np.inf)
        if len(X) > 4:
            X[4] = X[2]
    if dtype in ("float32", "int64", "int32"):
        X = X.astype(dtype)
    X = np.ascontiguousarray(X)
    solver = ["adam", "sgd"][(i // len(names)) % 2]
    # inclusive ends of the documented intervals: alpha = 0, batch_size = n and > n, keep_threshold = 1.0 / 0.0, min_features = d
    kw = dict(n_clusters=K, max_clusters=K, max_iter=3, random_state=int(rng.integers(0, 10 ** 6)), solver=solver,
              alpha=[1.0, 0.0, 100.0][(i // len(names)) % 3], batch_size=[None, len(X), 2, len(X) + 1][i % 4])
    pargs = dict(alpha_multiplier=4.0, min_features=[1, max(1, X.shape[1] - 1), X.shape[1]][(i // len(names)) % 3],
                 keep_threshold=[0.9, 1.0, 0.0][(i // (2 * len(names))) % 3], max_patience=1)
    if name in impl.GENERIC_GEMINI:
        kw["gemini"] = GEN_NAMES[(i // len(names) * 7 + i) % len(GEN_NAMES)]
    if "MLP" in name:
        kw["n_hidden_dim"] = 3
    if name == "Douglas":
        kw["n_cuts"] = 1
    # a third of the batched models carry a must-link / cannot-link decoration, through fit, fit_predict and path alike
    mlcl = name in impl.BATCHED + impl.NONPARAMETRIC and (i // len(names)) % 3 == 2 and len(X) >= 4

    def make_est():
        e = impl.make(name, **kw)
        if mlcl:
            e = impl.add_mlcl_constraint(e, [[0, 1]], [[2, 3]])
        return e
    est = make_est()
    desc = {k: v for k, v in kw.items() if k in est.get_params()}
    if mlcl:
        desc["mlcl"] = "ml=[[0,1]] cl=[[2,3]]"
    legal = affinity_legal(est, name, X)
    if name == "KernelRIM" and legal and not affinity_legal(est, name, X, raw=True):
        # KernelRIM.fit computes its base kernel on X as given: in float32 it overflows at 1e30 and fit raises a clean ValueError (O2's sibling)
        legal = False
        chk.dist["extreme:KernelRIM base kernel overflows in the caller's dtype (clean ValueError, only counted)"] += 1
    key = f"{name}:extreme:{dtype}@{scale:g}"
    replay = {"estimator": name, "family": fam, "dtype": dtype, "scale": scale, "params": desc, "path_args": pargs, "X": np.asarray(X, dtype=float).tolist()}
    chk.dist[f"extreme:{dtype}@{scale:g}"] += 1
    chk.dist[f"extreme:family={fam}"] += 1
    if not legal:
        chk.dist["extreme:affinity-overflows(not legal, only counted)"] += 1
        chk.count(None)
        return
    snap = Snap(X)
    with_path = name in impl.SPARSE and X.shape[1] >= 2 and kw["alpha"] > 0     # path with alpha = 0 never terminates: recorded finding F12a of C07
    typed = X.dtype != np.float64
    X64 = X.astype(np.float64)
    raw_legal = affinity_legal(est, name, X, raw=True) if typed else True

    def typed_calls(e, k):
        """predict_proba / predict / score on the data as the caller holds it (float32, integers)."""
        if not typed:
            return
        if not raw_legal:
            # the affinity overflows in the caller's dtype although it is finite in float64: outside the property's families (O2), recorded only
            try:
                vals = [float(e.score(X))] + ([] if name == "Kauri" else [np.asarray(e.predict_proba(X), dtype=float)])
                bad_t = not finite(flat_numbers(vals))
                why = "non-finite score / probabilities"
            except Exception as ex:  # noqa
                bad_t, why = True, f"{type(ex).__name__}: {str(ex)[:80]}"
            if bad_t:
                observe(chk, "O2", f"score / predict_proba on {X.dtype} X: {why}, where fit(X) is finite and the float64 copy of the same values scores finitely: "
                                   f"the raw X is handed to the affinity / kernel, which overflows in {X.dtype} (first seen: {name}, scale {scale:g})")
            return
        if name != "Kauri":
            pt, p64 = np.asarray(e.predict_proba(X), dtype=float), np.asarray(e.predict_proba(X64), dtype=float)
            if not finite(pt) or not same_numbers(pt, p64, tol=1e-5 if X.dtype == np.float32 else 1e-12):
                chk.fail(k + ":typed-proba", f"predict_proba on the {X.dtype} data is not finite or differs from the float64 copy of the same values", replay, layer="L3")
        if not np.array_equal(np.asarray(e.predict(X)), np.asarray(e.predict(X64))):
            chk.fail(k + ":typed-predict", f"predict on the {X.dtype} data differs from the float64 copy of the same values", replay, layer="L3")
        st, s64 = float(e.score(X)), float(e.score(X64))
        if not np.isfinite(st):
            chk.fail(k + ":typed-score-nonfinite", f"score on the {X.dtype} data is {st!r} (float64 copy: {s64!r}) although the affinity is finite in {X.dtype}", replay, layer="L3")
        elif X.dtype.kind in "iu" and not same_numbers(st, s64, tol=1e-12):
            chk.fail(k + ":typed-score", f"score on the {X.dtype} data ({st!r}) differs from the float64 copy ({s64!r})", replay, layer="L3")
    try:
        est.fit(X)
        ok = check_fitted(chk, key, est, name, X64, None, replay)
        if ok:
            typed_calls(est, key)
        lab2 = np.asarray(make_est().fit_predict(X))
        if ok and not np.array_equal(lab2, est.labels_):
            chk.fail(key + ":fit_predict-differs", "fit_predict returns other labels than fit(...).labels_ with the same random_state", replay, layer="L3")
        if typed and ok:
            e64 = make_est().fit(X64)
            same = np.array_equal(e64.labels_, est.labels_) and (name == "Kauri" or same_numbers([np.asarray(w) for w in e64._get_weights()], [np.asarray(w) for w in est._get_weights()], tol=1e-12))
            if not same:
                chk.fail(key + ":typed-fit-differs", f"fit on the {X.dtype} data learns other parameters / labels than on the float64 copy of the same values", replay, layer="L3")
        if with_path:
            p = make_est()
            with time_limit(30):
                out = p.path(X, **pargs)
            if not finite(flat_numbers(list(out))):
                if typed and not raw_legal:
                    observe(chk, "O2", f"path(X) with {X.dtype} X records non-finite validation scores (raw X handed to the affinity)")
                else:
                    chk.fail(key + ":path-history-nonfinite", "the path result holds non-finite values", replay, layer="L3")
            if check_fitted(chk, key + ":path", p, name, X64, None, replay):
                typed_calls(p, key + ":path")
    except Exception as e:  # noqa
        chk.fail(key + f":raises:{type(e).__name__}", f"{type(e).__name__}: {e} on legal data ({fam}, finite affinity) with {desc}", replay, layer="L3")
    if not snap.unchanged():
        chk.fail(key + ":X-modified", "the caller's X was modified", replay, layer="L3")
    chk.traces += 1
    chk.count(("extreme", name, dtype, scale, fam, solver))


# ------------------------------------------------------------------ GEMINI public call path on other representations / sizes 1
def stream_gemini_repr(chk, i, rng):
    gl = gemlib.gemini_list()
    label, fac = gl[i % len(gl)]
    g = fac()
    obj, ovo = gemlib.obj_of(g)
    shape = ["onehot", "K=1", "n=1", "one-per-cluster", "eighths"][(i // len(gl) + i) % 5]
    n, K = int(rng.integers(2, 7)), int(rng.integers(2, 5))
    if shape == "K=1":
        K = 1
    if shape == "n=1":
        n = 1
    if shape == "one-per-cluster":
        n = K
    if shape == "eighths":
        K = int(rng.choice([2, 4, 8]))
        cnt = rng.multinomial(8, np.ones(K) / K, size=n)
        P = cnt / 8.0
    elif shape == "one-per-cluster":
        P = np.eye(K)[rng.permutation(K)]
    else:
        P = np.eye(K)[rng.integers(0, K, size=n)]
    P = np.ascontiguousarray(P, dtype=float)
    A = None
    if obj in ("mmd", "ws"):
        B = rng.integers(-3, 4, size=(n, n)).astype(float)
        A = B @ B.T if obj == "mmd" else np.abs(B + B.T)
        if obj == "ws":
            np.fill_diagonal(A, 0.0)
    key = f"{type(g).__name__}({'ovo' if ovo else 'ova'}):repr"
    replay = {"gemini": label, "shape": shape, "P": P.tolist(), "A": None if A is None else A.tolist()}
    try:
        s_ref = float(np.asarray(g(P.copy(), None if A is None else A.copy())))
        s2, g_ref = g(P.copy(), None if A is None else A.copy(), return_grad=True)
    except Exception as e:  # noqa
        chk.fail(key + f":reference-raises:{type(e).__name__}", f"{label}(P, A) raised {type(e).__name__}: {e} ({shape})", replay, layer="L3")
        chk.count(None)
        return
    g_ref = np.asarray(g_ref, dtype=float)
    if not (np.isfinite(s_ref) and finite(g_ref)) or g_ref.shape != P.shape:
        chk.fail(key + f":{shape}:nonfinite", f"{label}(P, A): score {s_ref!r}, gradient shape {g_ref.shape} / finite {finite(g_ref)}", replay, layer="L3")
    ps = representations(P, rng, lists=False)
    As = [] if A is None else representations(A, rng, lists=False)
    pairs = [(t, v, "f64", None if A is None else A.copy()) for t, v in ps] + [("f64", P.copy(), t, v) for t, v in As]
    for tp, vp, ta, va in pairs:
        tag = tp if ta == "f64" else f"A={ta}"
        sp, sa = Snap(vp), Snap(va)
        chk.dist[f"gemini-repr:{tp if ta == 'f64' else 'A'}"] += 1
        try:
            s = float(np.asarray(g(vp, va)))
            s3, gr = g(vp, va, return_grad=True)
        except Exception as e:  # noqa
            chk.fail(key + f":{tag}:raises:{type(e).__name__}", f"{label}(P, A) raised {type(e).__name__}: {e} on the {tag} representation ({shape})", dict(replay, variant=tag), layer="L3")
            continue
        f32 = "float32" in tag          # float32 arguments are evaluated in float32: equal at float32 resolution only
        # float32 arguments: the library computes means / products in float32 whatever the values, so every result carries
        # float32 rounding: 1e-5 relative (1e-10 for the float64-typed representations), plus the sqrt-cancellation allowance
        # for an MMD whose square vanishes up to rounding, and no gradient comparison when a sign / ==0 decision is a tie at that resolution
        rt = 1e-5 if f32 else 1e-10
        slack = 0.0
        if obj == "mmd":
            slack = max(4.0 * float(np.sqrt(1.2e-7 * np.abs(A).max())), 2e-3 * (1.0 + float(np.sqrt(np.abs(A).max())))) if f32 else 1e-6 * (1.0 + float(np.sqrt(np.abs(A).max())))
        gmax = float(np.abs(g_ref).max()) if g_ref.size else 0.0
        if not (same_numbers(s, s_ref, rt, slack) and same_numbers(float(np.asarray(s3)), s_ref, rt, slack)
                and np.asarray(gr).shape == g_ref.shape and (same_numbers(gr, g_ref, rt, rt * gmax) or (obj in ("mmd", "tv") and tie_indicator(obj, ovo, g.epsilon, P, A, f32=f32))
                                                             # float32 marginals are another LP: the solver may return other (equally optimal) potentials
                                                             or (obj == "ws" and f32 and finite(gr)))):
            chk.fail(key + f":{tag}:differs", f"{label}(P, A) on the {tag} representation differs from the float64 C-contiguous reference ({shape}): {s!r} vs {s_ref!r}", dict(replay, variant=tag), layer="L3")
        if not sp.unchanged() or (va is not None and not sa.unchanged()):
            chk.fail(key + f":{tag}:argument-modified", f"{label}(P, A) modified its argument ({tag})", dict(replay, variant=tag), layer="L3")
    chk.dist[f"gemini-repr:shape={shape}"] += 1
    chk.count(("gemini-repr", label, shape, n, K))


# ================================================================== main
STREAMS = {"gemini": (stream_gemini, 26 * len(P_FAMILIES) * 4, 26 * len(P_FAMILIES) * 40),
           "softmax": (stream_softmax, 70, 1400),
           "prox": (stream_prox, 140, 2800),
           "fit": (stream_fit, 18 * len(DATA_FAMILIES) * 3, 18 * len(DATA_FAMILIES) * 12),
           "krim": (stream_krim, 4, 4),
           "long": (stream_long, 17 * 4, 17 * 16),
           "path": (stream_path, 5 * len(DATA_FAMILIES), 5 * len(DATA_FAMILIES) * 10),
           "kauri": (stream_kauri, 13 * 12, 13 * 80),
           "repr": (stream_repr, 36, 360),
           "extreme": (stream_extreme, 18 * 7, 18 * 7 * 8),
           "gemini-repr": (stream_gemini_repr, 52, 520)}

RULE = ("stream gemini: all 13 registry names, the 6 classes with both flags and MI on saturated predictions (exactly one-hot, one cluster only, uniform, "
        "entries exactly eps / 1-eps and one ulp around them, K=1, n=1, mixed rows; eps in {1e-12..0.49}) with degenerate kernels/distances (zero, constant, duplicates, "
        "identical points, indefinite, x1000, x1e-3): implementation and extracted float model both finite and equal (gradients not compared when a sign/==0 decision sits on a rounding-level tie). "
        "stream softmax: sklearn softmax vs extracted softmax_row on logits up to 1e308 (exp arguments <= 0, denominator in [1,K]). stream prox: linear_prox_grad / group wrapper / "
        "hier-prox on zero rows, alpha=0, tiny and huge rows vs extracted linear_prox_row. stream fit: all 18 estimators x data families (scale 1e-3/1/1000, constant, zero and duplicated "
        "columns, duplicated and identical samples, K=n, K=1, batch_size=1, one feature) x GEMINIs: fit, _get_weights, predict_proba, score finite, score = model GEMINI of predict_proba. "
        "stream krim: the deterministic reproduction of the recorded KernelRIM sgd divergence and its three finite neighbours. stream long: the 17 gradient estimators trained for 100 (thorough 400) epochs with sgd and adam on x1000 / x1e-3 / duplicated data (divergence needs many steps to overflow). "
        "stream repr: every estimator's fit / fit_predict / predict / predict_proba / score / path on the same values as int64, int32, float32, Fortran order, non-contiguous views, "
        "read-only arrays, lists and tuples (X and, for precomputed kernels/metrics, the affinity y): finite, equal to the float64 C-contiguous reference (1e-10; float32 resolution 1e-5 "
        "where the float32 array reaches the affinity unconverted), no new exception, caller's arrays bit-identical afterwards. stream extreme: scales 1e-300..1e300, the smallest denormal, "
        "float32 at 1e-30/1/1e30, int64/int32 data, -0.0, adjacent doubles and exact ties x K=1, K=n, one feature, constant and duplicated columns, alpha in {0,1,100}, batch_size in "
        "{None,n,2,n+1}, keep_threshold in {0.9,1,0}, min_features in {1,d-1,d}, mlcl-decorated models, through fit, fit_predict, score and path, required finite whenever the affinity "
        "the objective needs is itself finite (otherwise only counted). stream gemini-repr: g(P, A) through __call__ on one-hot / K=1 / n=1 / one sample per cluster P as int/bool/float32/"
        "Fortran/views/read-only, same for A. Misbehaviour of the unchanged tree outside the property's stated families is recorded as 'observation' notes (O1 list-typed precomputed y in path, "
        "O2 float32 data whose kernel overflows float32 in score), not failed. "
        "stream path: the 5 sparse models' path() on the same families: every history value and weight finite. stream kauri: compiled module and desugared .pyx on duplicated/identical samples, "
        "constant features, indefinite/zero precomputed kernels: every recorded gain, threshold and score finite. non-trivial = the degenerate feature is present "
        "(saturated or uniform P, |logit|>700, zero row, a completed fit / a path with >= 1 step / a Kauri fit with >= 1 split search)")


def main():
    chk = Check("C17")
    chk.build()
    chk.proofs()
    if chk.replay_path:
        rp = json.load(open(chk.replay_path))
        chk.seed = rp.get("seed", chk.seed)
        st, case = rp["input"].get("stream"), rp["input"].get("case")
        if st in STREAMS:
            chk.run_stream(st, STREAMS[st][0], 0, only=case)
    else:
        for name, (fn, q, th) in STREAMS.items():
            cnt = q if chk.tier == "quick" else th
            if chk.l1_broken:
                cnt *= 3
            chk.run_stream(name, fn, cnt)
    chk.finish(rule=RULE)


if __name__ == "__main__":
    main()
