"""C02 — GEMINI gradients are the exact derivative of the returned score."""
import numpy as np
import gemlib
import c01


def stream_grad_model(chk, i, rng):
    """L2: gradient of the implementation vs gradient of the extracted model; shape; score independent of return_grad;
    entries clipped at the epsilon bounds get zero gradient."""
    gl = gemlib.gemini_list()
    label, fac = gl[i % len(gl)]
    g = fac()
    obj, ovo = gemlib.obj_of(g)
    n = int(rng.integers(1, 9 if (obj in ("mmd", "ws") and ovo) else 12))
    K = int(rng.integers(2, 6)) if rng.integers(0, 10) else 1   # one case in ten: a single cluster
    mode = rng.choice(["soft", "mid", "sharp", "saturated", "clipped"] + (["clipped", "saturated"] if obj in ("ws", "mmd") else []))
    P = gemlib.gen_P(rng, n, K, "sharp" if mode == "clipped" else mode)
    if mode == "clipped":
        # put some entries exactly at / beyond the clip bounds (still a legal prediction matrix up to rounding)
        for _ in range(int(rng.integers(1, 4))):
            r, c = int(rng.integers(0, n)), int(rng.integers(0, K))
            P[r, c] = rng.choice([0.0, g.epsilon, g.epsilon / 2, 1.0, 1 - g.epsilon])
        if K >= 2 and rng.integers(0, 2):
            # an empty cluster: a whole column at or below the clip bound (its proportion is then of the order of epsilon,
            # which is where a gradient that reads the unclipped predictions differs from the derivative of the score)
            c = int(rng.integers(0, K))
            P[:, c] = rng.choice([0.0, g.epsilon / 2])
            P /= np.maximum(P.sum(1, keepdims=True), 1e-300)
            P[np.isnan(P)] = 1.0 / K
    A, akind = None, "none"
    if obj == "mmd":
        A, akind = gemlib.gen_affinity(rng, n, "kernel")
    if obj == "ws":
        A, akind = gemlib.gen_affinity(rng, n, "dist")
    replay = {"gemini": label, "n": n, "K": K, "mode": mode, "affinity": akind, "P": P.tolist(), "A": None if A is None else A.tolist()}
    s0, _, _ = gemlib.run_impl(g, P, A, want_grad=False)
    s, gr, calls = gemlib.run_impl(g, P, A)
    if gr.shape != P.shape:
        chk.fail(f"grad:shape:{obj}:{'ovo' if ovo else 'ova'}", f"{label}: gradient shape {gr.shape} != predictions shape {P.shape}", replay, layer="L3")
        chk.count(None)
        return
    if not c01.close(s, s0, s):
        chk.fail("grad:score-depends-on-return_grad", f"{label}: {s0} vs {s}", replay, layer="L3")
    clipped = ~((P > g.epsilon) & (P < 1 - g.epsilon))
    if clipped.any() and np.any(gr[clipped] != 0):
        chk.fail(f"grad:clipped-nonzero:{obj}", f"{label}: an entry clipped at the epsilon bounds received a non-zero gradient", replay, layer="L3")
    ms, mg = gemlib.run_model(chk, obj, ovo, g.epsilon, P, A, calls)
    scale = max(1.0, float(np.abs(mg).max()) if np.isfinite(mg).all() else 1.0)
    # conditioning: how much the implementation's own gradient moves under a 1e-15 relative perturbation of P
    Pn = P * (1 + 1e-15 * rng.choice([-1.0, 1.0], size=P.shape))
    _, gr_n, _ = gemlib.run_impl(g, Pn, A)
    cond = np.abs(gr_n - gr) * 1e3
    if cond.max() > 1e-9 * scale:
        chk.dist["ill-conditioned (tolerance widened)"] += 1
    extra, ill = gemlib.widen(obj, ovo, P, A, g.epsilon)
    if ill:
        chk.dist["ill-conditioned (values not compared)"] += 1
    elif np.any(np.abs(gr - mg) > (1e-8 + extra) * np.abs(mg) + (1e-9 + extra) * scale + cond) or (np.isnan(gr) != np.isnan(mg)).any():
        chk.fail(f"grad:model-mismatch:{obj}:{'ovo' if ovo else 'ova'}", f"{label}: returned gradient differs from the model's (max abs diff {np.nanmax(np.abs(gr - mg)):.3e})", replay)
    chk.dist[f"obj={obj}:{'ovo' if ovo else 'ova'}"] += 1
    chk.dist[f"mode={mode}"] += 1
    chk.count((label, n, K, mode, akind) if n >= 2 else None)
    chk.sample({"gemini": label, "n": n, "K": K, "mode": mode, "affinity": akind, "grad_max": float(np.abs(gr).max())})


def stream_grad_fd(chk, i, rng):
    """L3: central finite differences of the returned score along simplex-preserving directions and through a
    softmax parameterisation, two step sizes (Richardson), kink guard for the piecewise-smooth objectives."""
    gl = gemlib.gemini_list()
    label, fac = gl[i % len(gl)]
    g = fac()
    obj, ovo = gemlib.obj_of(g)
    n = int(rng.integers(2, 10 if obj != "ws" else 8))
    K = int(rng.integers(2, 6))
    scale = float(rng.choice([0.3, 1.0, 3.0]))
    Z = rng.normal(size=(n, K)) * scale
    P = gemlib.impl.softmax_rows(Z)
    if P.min() < 1e-6:
        chk.count(None)
        return
    A, akind = None, "none"
    if obj == "mmd":
        A, akind = gemlib.gen_affinity(rng, n, "kernel")
    if obj == "ws":
        A, akind = gemlib.gen_affinity(rng, n, "dist")
    replay = {"gemini": label, "n": n, "K": K, "scale": scale, "affinity": akind, "Z": Z.tolist(), "A": None if A is None else A.tolist()}
    _, gr, _ = gemlib.run_impl(g, P, A)
    via_softmax = rng.random() < 0.5
    if via_softmax:
        dZ = rng.normal(size=(n, K))
        # Jacobian image of a logit direction: D = P * (dZ - <P, dZ>)
        D = P * (dZ - (P * dZ).sum(1, keepdims=True))

        def f(t):
            return float(np.asarray(g(gemlib.impl.softmax_rows(Z + t * dZ), A)))
    else:
        D = gemlib.tangent_direction(rng, n, K) * P.min() * 0.5

        def f(t):
            return float(np.asarray(g(P + t * D, A)))
    pred = float((gr * D).sum())
    f0 = f(0.0)
    # central differences at several step sizes; a step size is usable when forward and backward differences agree
    # (no kink of the piecewise-smooth objectives TV / Wasserstein / MMD inside [-h, h]). The gradient is accepted when
    # ANY usable step size confirms it (a kink between two step sizes must not condemn it); it is reported only when
    # every usable step size contradicts it.
    usable, agree = [], False
    for h in (1e-4, 3e-5, 1e-5, 3e-6):
        fp, fm = f(h), f(-h)
        cen, fwd, bwd = (fp - fm) / (2 * h), (fp - f0) / h, (f0 - fm) / h
        mag = max(abs(pred), abs(cen), 1e-6)
        noise = 4e-16 * max(abs(f0), 1.0) / h
        if abs(fwd - bwd) > 2e-3 * mag + 4 * noise:
            continue
        usable.append((h, cen))
        tol = (2e-4 if obj == "ws" else 2e-5) * mag + 1e-8 + 4 * noise + abs(fwd - bwd)
        if abs(pred - cen) <= tol:
            agree = True
            break
    if not usable:
        chk.dist["fd:kink-skipped"] += 1
        chk.count(None)
        return
    if not agree:
        chk.fail(f"grad:finite-difference:{obj}:{'ovo' if ovo else 'ova'}",
                 f"{label}: <grad, D> = {pred!r} but central differences of the returned score give {[(h, c) for h, c in usable]} ({'softmax' if via_softmax else 'tangent'} direction)", replay, layer="L3")
    chk.dist[f"fd:{obj}:{'ovo' if ovo else 'ova'}"] += 1
    chk.count(("fd", label, n, K, scale, akind, via_softmax))


def stream_reuse_grad(chk, i, rng):
    c01.stream_reuse(chk, i, rng, with_grad=True)


STREAMS = {"grad_model": (stream_grad_model, 420, 6000), "grad_fd": (stream_grad_fd, 330, 5000), "reuse": (stream_reuse_grad, 130, 1500)}

if __name__ == "__main__":
    c01.main("C02", STREAMS,
             rule="stream grad_model: every registry name / class x flag on generated (n<=11, K in 2..5, soft..saturated softmax rows, entries set exactly at/over the clip bounds), "
                  "implementation gradient vs extracted Coq model gradient (emd2 duals recorded as oracle), shape, score independent of return_grad, clipped entries zero. "
                  "stream grad_fd: Richardson central differences of the returned score along random tangent directions and through a softmax parameterisation (logit scales 0.3/1/3), "
                  "kink guard by forward/backward agreement. non-trivial = n>=2; distinct = (gemini, n, K, mode/scale, affinity kind, direction kind)")
