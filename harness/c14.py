"""C14 — must-link / cannot-link constraints: exact validation, right samples, right sign."""
import itertools
import json
import numpy as np
from core import Check, enc_list, enc_mat, hx
import impl

REJECT = (ValueError, TypeError)      # InvalidParameterError derives from both
SENT = object()


# ------------------------------------------------------------------ encoders for the model process
def enc_pairs(pairs):
    return " ".join([str(len(pairs))] + [f"{int(a)} {int(b)}" for a, b in pairs])


def enc_raw(spec):
    kind = spec[0]
    if kind == "none":
        return "N"
    if kind == "scalar":
        return f"S {int(spec[1])}"
    if kind == "flat":
        return "F " + enc_list(spec[1])
    return "R " + " ".join([str(len(spec[1]))] + [enc_list(r) for r in spec[1]])


def model_valid(chk, ml, cl):
    return chk.ask(f"c14.valid {enc_pairs(ml)} {enc_pairs(cl)}").bool()


def model_decorate(chk, f, idx, Y, ml, cl, G):
    t = chk.ask(f"c14.decorate {hx(f)} {enc_list(idx)} {enc_mat(Y)} {enc_pairs(ml)} {enc_pairs(cl)} {enc_mat(G)}")
    return np.array(t.list(lambda: t.list(t.float)), dtype=float).reshape(len(idx), -1)


# ------------------------------------------------------------------ L3 oracles (independent of the model)
def oracle_valid(ml, cl):
    """Union-find: accept iff no self pair and no cannot-link pair inside one must-link component."""
    if any(a == b for a, b in ml) or any(a == b for a, b in cl):
        return False
    parent = {}

    def find(x):
        parent.setdefault(x, x)
        while parent[x] != x:
            parent[x] = parent[parent[x]]
            x = parent[x]
        return x
    for a, b in ml:
        ra, rb = find(a), find(b)
        if ra != rb:
            parent[ra] = rb
    return not any(find(a) == find(b) for a, b in cl)


def oracle_decorate(f, idx, Y, ml, cl, G0):
    """Graph-Laplacian form: G0 + f * (L_cl - L_ml) @ Y over the pairs lying wholly inside the batch."""
    m = len(idx)
    pos = {}
    for p, s in enumerate(idx):
        pos.setdefault(s, p)
    L = np.zeros((m, m))
    active = set()
    for pairs, sg in ((cl, 1.0), (ml, -1.0)):
        for a, b in pairs:
            if a in pos and b in pos:
                pa, pb = pos[a], pos[b]
                L[pa, pa] += sg
                L[pb, pb] += sg
                L[pa, pb] -= sg
                L[pb, pa] -= sg
                active.update((pa, pb))
    return G0 + f * (L @ Y), active


def call_add(ml_obj, cl_obj, est=None, factor=None):
    """-> ('accept', est) | ('reject', exc) | ('other', exc)"""
    est = est if est is not None else impl.LinearMMD()
    try:
        if factor is None:
            impl.add_mlcl_constraint(est, ml_obj, cl_obj)
        else:
            impl.add_mlcl_constraint(est, ml_obj, cl_obj, factor)
        return "accept", est
    except REJECT as e:
        return "reject", e
    except Exception as e:  # noqa
        return "other", e


def as_container(rng, pairs, allow_empty_none=True):
    """The same pair list as list of lists / list of tuples / tuple of tuples / int ndarray (or None / [] when empty)."""
    pairs = [(int(a), int(b)) for a, b in pairs]
    if not pairs:
        return (None if rng.random() < 0.5 else []) if allow_empty_none else []
    k = int(rng.integers(0, 4))
    if k == 0:
        return [list(p) for p in pairs]
    if k == 1:
        return [tuple(p) for p in pairs]
    if k == 2:
        return tuple(tuple(p) for p in pairs)
    return np.array(pairs, dtype=[int, np.int32, np.int64][int(rng.integers(0, 3))])


def check_validation(chk, key, ml, cl, rng, replay):
    """One well-shaped (ml, cl): implementation vs model (L2) and vs union-find (L3)."""
    st, info = call_add(as_container(rng, ml), as_container(rng, cl))
    mv = model_valid(chk, ml, cl)
    ov = oracle_valid(ml, cl)
    rp = dict(replay, must_link=[list(map(int, p)) for p in ml], cannot_link=[list(map(int, p)) for p in cl])
    if st == "other":
        chk.fail(key + ":exception-kind", f"add_mlcl_constraint raised {type(info).__name__}: {info} (neither acceptance nor a ValueError/TypeError)", rp, layer="L3")
        return None
    acc = st == "accept"
    if acc != mv:
        chk.fail(key + ":model-mismatch", f"add_mlcl_constraint {'accepted' if acc else 'rejected'} but the model says valid={mv}", rp)
    if acc != ov:
        chk.fail(key + (":contradiction-accepted" if acc else ":consistent-rejected"),
                 f"add_mlcl_constraint {'accepted' if acc else 'rejected'} but the union-find oracle says consistent={ov}", rp, layer="L3")
    return acc


# ------------------------------------------------------------------ stream 0: corpus of minimised earlier failures
def load_corpus():
    import glob, os
    root = os.path.join(os.path.dirname(os.path.dirname(os.path.abspath(__file__))), "corpus", "C14")
    cases = []
    for fn in sorted(glob.glob(os.path.join(root, "*.json"))):
        for c in json.load(open(fn)).get("cases", []):
            cases.append((os.path.basename(fn), c))
    return cases


CORPUS = load_corpus()


def stream_corpus(chk, i, rng):
    fn, c = CORPUS[i]
    ml = [tuple(p) for p in c["must_link"]]
    cl = [tuple(p) for p in c["cannot_link"]]
    check_validation(chk, "corpus", ml, cl, rng, {"corpus_file": fn})
    chk.dist["corpus"] += 1
    chk.count(("corpus", tuple(ml), tuple(cl)) if ml and cl else None)


# ------------------------------------------------------------------ stream 1: exhaustive small universe
UNIVERSE = [20, 3, 42, 7, 11]                      # non-contiguous, unordered
UPAIRS = list(itertools.combinations(UNIVERSE, 2))  # 10 unordered pairs
SETS = [s for r in range(4) for s in itertools.combinations(range(len(UPAIRS)), r)]   # 176 sets of <= 3 pairs


UNIVERSE6 = [64, 5, 130, 9, 17, 2]                  # thorough tier: six indices, 15 unordered pairs, 576 sets of <= 3 pairs
UPAIRS6 = list(itertools.combinations(UNIVERSE6, 2))
SETS6 = [s for r in range(4) for s in itertools.combinations(range(len(UPAIRS6)), r)]


def orient(rng, sel, upairs):
    out = []
    for k in sel:
        a, b = upairs[k]
        out.append((b, a) if rng.random() < 0.5 else (a, b))
    rng.shuffle(out)
    return [tuple(p) for p in out]


def exhaustive_case(chk, i, rng, tag, universe, upairs, sets):
    a, b = divmod(i, len(sets))
    ml, cl = orient(rng, sets[a], upairs), orient(rng, sets[b], upairs)
    acc = check_validation(chk, tag, ml, cl, rng, {"universe": universe})
    chk.dist[f"{tag}:|ml|={len(ml)},|cl|={len(cl)}"] += 1
    chk.dist[f"{tag}:accepted" if acc else f"{tag}:rejected"] += 1
    chk.count((tag, sets[a], sets[b]) if ml and cl else None)
    if ml and cl and not acc:
        chk.sample({"stream": tag, "must_link": ml, "cannot_link": cl, "accepted": acc}, limit=2)


def stream_exhaustive(chk, i, rng):
    exhaustive_case(chk, i, rng, "exhaustive", UNIVERSE, UPAIRS, SETS)


def stream_exhaustive6(chk, i, rng):
    exhaustive_case(chk, i, rng, "exhaustive6", UNIVERSE6, UPAIRS6, SETS6)


# ------------------------------------------------------------------ stream 2: random larger sets
def gen_sets(rng, nodes, style):
    """Random (ml, cl) over the given node names; mostly consistent by construction, sometimes one planted contradiction / self pair."""
    nodes = list(nodes)
    m = len(nodes)
    grp = rng.integers(0, max(1, int(rng.integers(1, max(2, m // 2 + 1)))), size=m)
    ml, cl = [], []
    nml, ncl = int(rng.integers(0, 16)), int(rng.integers(0, 11))
    if style == "chain":      # long paths: contradictions only through many hops
        order = list(rng.permutation(m))
        cut = sorted(rng.choice(np.arange(1, m), size=min(m - 1, int(rng.integers(0, 3))), replace=False).tolist()) if m > 1 else []
        for u, v in zip(order, order[1:]):
            if order.index(v) in cut:
                continue
            ml.append((nodes[u], nodes[v]))
        comp, c = {}, 0
        for k, u in enumerate(order):
            if k in cut:
                c += 1
            comp[u] = c
        grp = np.array([comp[u] for u in range(m)])
        rng.shuffle(ml)
    else:
        for _ in range(nml):
            u, v = rng.integers(0, m, size=2)
            if grp[u] == grp[v] and u != v:
                ml.append((nodes[u], nodes[v]))
    for _ in range(ncl):
        u, v = rng.integers(0, m, size=2)
        if grp[u] != grp[v]:
            cl.append((nodes[u], nodes[v]))
    ml = [(b, a) if rng.random() < 0.5 else (a, b) for a, b in ml]
    r = rng.random()
    planted = "none"
    if r < 0.30 and ml:       # contradiction: a cannot-link inside a group that the must-links really connect, or random same-group pair
        u, v = rng.integers(0, m, size=2)
        if u != v and grp[u] == grp[v]:
            cl.insert(int(rng.integers(0, len(cl) + 1)), (nodes[u], nodes[v]))
            planted = "same-group-cl"
    elif r < 0.38:
        u = nodes[int(rng.integers(0, m))]
        (ml if rng.random() < 0.5 else cl).append((u, u))
        planted = "self"
    elif r < 0.46 and ml:     # duplicate / reversed duplicate
        a, b = ml[int(rng.integers(0, len(ml)))]
        ml.append((b, a))
        planted = "dup"
    return [(int(a), int(b)) for a, b in ml], [(int(a), int(b)) for a, b in cl], planted


def stream_random(chk, i, rng):
    big = chk.tier == "thorough"
    m = int(rng.integers(2, 26 if big else 16))
    hi = int(rng.choice([m, 60, 150]))
    nodes = rng.choice(np.arange(0, max(hi, m)), size=m, replace=False)
    style = "chain" if rng.random() < 0.35 else "groups"
    ml, cl, planted = gen_sets(rng, nodes, style)
    acc = check_validation(chk, "random", ml, cl, rng, {"style": style, "planted": planted})
    chk.dist[f"rnd:{style}:{planted}"] += 1
    chk.dist["rnd:accepted" if acc else "rnd:rejected"] += 1
    chk.count(("rnd", tuple(ml), tuple(cl)) if ml and cl else None)
    if planted == "same-group-cl":
        chk.sample({"stream": "random", "must_link": ml, "cannot_link": cl, "accepted": acc}, limit=4)


# ------------------------------------------------------------------ stream 3: malformed inputs
def gen_raw(rng):
    k = int(rng.integers(0, 12))
    nodes = [int(v) for v in rng.choice(np.arange(0, 60), size=6, replace=False)]
    if k == 0:
        return ("none",)
    if k == 1:
        return ("scalar", nodes[0])
    if k == 2:
        return ("flat", [])
    if k == 3:
        return ("flat", nodes[:int(rng.integers(1, 5))])
    if k == 4:   # single column
        return ("rows", [[v] for v in nodes[:int(rng.integers(1, 4))]])
    if k == 5:   # zero columns
        return ("rows", [[] for _ in range(int(rng.integers(1, 3)))])
    if k == 6:   # ragged
        rows = [[nodes[0], nodes[1]], [nodes[2], nodes[3], nodes[4]]] if rng.random() < 0.5 else [[nodes[0], nodes[1]], [nodes[2]]]
        rng.shuffle(rows)
        return ("rows", [list(r) for r in rows])
    if k == 7:   # wide: three or four columns
        w = int(rng.integers(3, 5))
        return ("rows", [[nodes[(a + b) % 6] for b in range(w)] for a in range(int(rng.integers(1, 3)))])
    # well-shaped pairs (possibly with a self pair)
    npairs = int(rng.integers(1, 4))
    rows = []
    for _ in range(npairs):
        a, b = rng.choice(6, size=2, replace=rng.random() < 0.15)
        rows.append([nodes[a], nodes[b]])
    return ("rows", rows)


def raw_class(spec):
    kind = spec[0]
    if kind == "none":
        return "absent"
    if kind == "scalar":
        return "malformed"
    if kind == "flat":
        return "absent" if not spec[1] else "malformed"
    rows = spec[1]
    if not rows:
        return "absent"
    ws = {len(r) for r in rows}
    if min(ws) < 2 or len(ws) > 1:
        return "malformed"
    return "pairs" if ws == {2} else "wide"


def raw_object(rng, spec):
    kind = spec[0]
    if kind == "none":
        return None
    if kind == "scalar":
        return [spec[1], np.int64(spec[1]), np.array(spec[1])][int(rng.integers(0, 3))]
    if kind == "flat":
        v = list(spec[1])
        return [v, tuple(v), np.array(v, dtype=int)][int(rng.integers(0, 3))]
    rows = [list(r) for r in spec[1]]
    rect = len({len(r) for r in rows}) == 1
    k = int(rng.integers(0, 3))
    if k == 0 or not rect:
        return rows
    if k == 1:
        return [tuple(r) for r in rows]
    return np.array(rows, dtype=int).reshape(len(rows), len(rows[0]))


def stream_malformed(chk, i, rng):
    a, b = gen_raw(rng), gen_raw(rng)
    if i % 3 == 0:      # make sure the malformed classes meet a well-formed partner often
        b = ("rows", [[5, 9]]) if rng.random() < 0.5 else ("none",)
        if rng.random() < 0.5:
            a, b = b, a
    st, info = call_add(raw_object(rng, a), raw_object(rng, b))
    mv = chk.ask(f"c14.accept_raw {enc_raw(a)} {enc_raw(b)}").bool()
    ca, cb = raw_class(a), raw_class(b)
    rp = {"must_link": a, "cannot_link": b}
    if st == "other":
        chk.fail(f"malformed:{ca}/{cb}:exception-kind", f"raised {type(info).__name__}: {info}", rp, layer="L3")
    else:
        acc = st == "accept"
        if acc != mv:
            chk.fail(f"malformed:{ca}/{cb}:model-mismatch", f"add_mlcl_constraint {'accepted' if acc else 'rejected'}; raw model says {mv}", rp)
        # L3: the property itself
        if "malformed" in (ca, cb):
            if acc:
                chk.fail(f"malformed:{ca}/{cb}:accepted", "an input that is not a two-dimensional list of index pairs was accepted", rp, layer="L3")
        elif "wide" not in (ca, cb):
            pl = lambda s, c: [] if c == "absent" else [tuple(r) for r in s[1]]
            ov = oracle_valid(pl(a, ca), pl(b, cb))
            if acc != ov:
                chk.fail(f"malformed:{ca}/{cb}:" + ("contradiction-accepted" if acc else "consistent-rejected"),
                         f"{'accepted' if acc else 'rejected'} but the oracle says consistent={ov} (None/[] mean no constraint)", rp, layer="L3")
        else:
            chk.dist["malformed:wide-" + ("accepted" if acc else "rejected")] += 1   # property silent; model as-is only
    chk.dist[f"malformed:{ca}/{cb}"] += 1
    chk.count(("mal", enc_raw(a), enc_raw(b)) if ("malformed" in (ca, cb) or "absent" in (ca, cb)) else None)


def stream_api(chk, i, rng):
    """Arguments of add_mlcl_constraint other than the pair lists: factor must be > 0, the model a DiscriminativeModel."""
    cases = [(0.0, False), (-1.0, False), ("a", False), (None, False), (1e-3, True), (2, True), (float("nan"), False)]
    f, ok = cases[i % len(cases)]
    try:
        impl.add_mlcl_constraint(impl.LinearMMD(), [[3, 7]], None, f)
        acc = True
    except REJECT:
        acc = False
    if acc != ok:
        chk.fail("api:factor", f"factor={f!r} {'accepted' if acc else 'rejected'}", {"factor": repr(f)}, layer="L3")
    if i % len(cases) == 0:
        for bad in (object(), impl.Kauri(), "LinearMMD"):
            try:
                impl.add_mlcl_constraint(bad, [[3, 7]])
                chk.fail("api:model", f"{type(bad).__name__} accepted as gemini_model", {"model": type(bad).__name__}, layer="L3")
            except REJECT:
                pass
    chk.count(None)


# ------------------------------------------------------------------ stream 4: the decorated _compute_grads, called directly
def consistent_pairs(rng, n, extra_hi):
    """Consistent (ml, cl) over sample indices 0..n-1 plus a few indices outside the data (never in a batch)."""
    grp = rng.integers(0, max(2, n // 2), size=n)
    ml, cl = [], []
    for _ in range(int(rng.integers(0, 7))):
        u, v = rng.integers(0, n, size=2)
        if u != v and grp[u] == grp[v]:
            ml.append((int(u), int(v)))
    for _ in range(int(rng.integers(0, 7))):
        u, v = rng.integers(0, n, size=2)
        if grp[u] != grp[v]:
            cl.append((int(u), int(v)))
    if rng.random() < 0.3:      # pairs reaching outside the data set: inert
        o = n + int(rng.integers(0, extra_hi))
        u = int(rng.integers(0, n))
        (ml if rng.random() < 0.5 else cl).append((u, o) if rng.random() < 0.5 else (o, u))
    if n >= 2 and not ml and not cl:
        u, v = rng.choice(n, size=2, replace=False)
        (ml if rng.random() < 0.5 else cl).append((int(u), int(v)))
    return ml, cl


def compare_rows(chk, key, f, idx, Y, ml, cl, G0, got, replay):
    """L2: extracted model (float instance); L3: Laplacian oracle + untouched rows bit-identical."""
    if not (np.all(np.isfinite(G0)) and np.all(np.isfinite(Y))):
        chk.dist["grad:nonfinite-skipped"] += 1
        return True, 0
    exp = model_decorate(chk, f, idx, Y, ml, cl, G0)
    scale = float(max(1.0, np.abs(G0).max(initial=0.0), f * 2 * (len(ml) + len(cl) + 1)))
    rp = dict(replay, indices=[int(v) for v in idx], must_link=ml, cannot_link=cl, factor=float(f))
    ok = True
    if got.shape != exp.shape or not np.all(np.abs(got - exp) <= 1e-9 * (1 + scale)):
        chk.fail(key + ":model-mismatch", f"gradient handed to the wrapped _compute_grads differs from the model (max abs diff {np.abs(got - exp).max() if got.shape == exp.shape else 'shape'})", rp)
        ok = False
    else:
        chk.dist["grad:bit-identical" if np.array_equal(got, exp) else "grad:within-tol"] += 1
    ora, active = oracle_decorate(f, idx, Y, ml, cl, G0)
    if got.shape != ora.shape or not np.all(np.abs(got - ora) <= 1e-9 * (1 + scale)):
        d = got - G0
        rows = sorted(int(idx[p]) for p in np.nonzero(np.abs(got - ora).max(axis=1) > 1e-9 * (1 + scale))[0]) if got.shape == ora.shape else "shape"
        chk.fail(key + ":rows-or-sign", f"injected gradient is not +factor*(y_i-y_j) on cannot-link rows / -factor*(y_i-y_j) on must-link rows of pairs inside the batch; wrong rows (samples) {rows}", rp, layer="L3")
        ok = False
    untouched = [p for p in range(len(idx)) if p not in active]
    if got.shape == G0.shape and not np.array_equal(got[untouched], G0[untouched]):
        chk.fail(key + ":untouched-changed", "a row of a sample outside every active pair was modified", rp, layer="L3")
        ok = False
    return ok, len(active)


def stream_grads(chk, i, rng):
    names = list(impl.GRADIENT_ESTIMATORS)
    name = names[i % len(names)]
    n = int(rng.integers(2, 25))
    K = int(rng.integers(1, 6))
    bs = None if rng.random() < 0.25 else int(rng.integers(1, n + 3))
    f = float(rng.choice([1.0, 0.5, 3.0, float(rng.uniform(1e-3, 10))]))
    ml, cl = consistent_pairs(rng, n, 40)
    est = impl.make(name, batch_size=bs, n_clusters=max(K, 1))
    log = []

    def inner(X, y_pred, gradient):
        log.append((X, y_pred, gradient, np.array(gradient, copy=True)))
        return SENT
    est._compute_grads = inner
    st, info = call_add(as_container(rng, ml), as_container(rng, cl), est=est, factor=f)
    replay = {"estimator": name, "n": n, "K": K, "batch_size": bs}
    if st != "accept":
        chk.fail("grads:consistent-rejected", f"a consistent constraint set was rejected: {info}", dict(replay, must_link=ml, cannot_link=cl), layer="L3")
        chk.count(None)
        return
    X = np.hstack([np.arange(n, dtype=float).reshape(-1, 1), rng.normal(size=(n, 2))])
    Yfull = impl.softmax_rows(rng.normal(size=(n, K)) * rng.choice([0.2, 1.0, 4.0]))
    Gfull = rng.normal(size=(n, K)) * rng.choice([1e-3, 1.0, 50.0])
    nonpar = name in impl.NONPARAMETRIC
    per_sample = {}
    nact = 0
    for epoch in range(2):
        seed = int(rng.integers(0, 2 ** 31 - 1))
        for Xb, _ in est._batchify(X, None, np.random.RandomState(seed)):
            idx = [int(v) for v in est._batchify.indices]
            if [int(v) for v in Xb[:, 0]] != idx:
                chk.fail("grads:indices", "recorded batch indices are not the samples of the batch", dict(replay, recorded=idx), layer="L3")
                break
            y_pred, grad = Yfull[idx].copy(), Gfull[idx].copy()
            y0, g0 = y_pred.copy(), grad.copy()
            ret = est._compute_grads(Xb, y_pred, grad)
            if ret is not SENT or len(log) == 0 or log[-1][0] is not Xb or not np.array_equal(log[-1][1], y0) or not np.array_equal(y_pred, y0):
                chk.fail("grads:passthrough", "the wrapped _compute_grads was not called once with the batch data and unchanged predictions, or its result was not returned", replay, layer="L3")
                break
            got = log[-1][3]
            ok, na = compare_rows(chk, "grads", f, idx, y0, ml, cl, g0, got, dict(replay, seed=seed))
            nact += na
            single = bs is None or bs >= n or nonpar
            if ok and single:        # L3 metamorphic: same samples in another order -> same row per sample
                rows = {s: got[p] for p, s in enumerate(idx)}
                if per_sample and any(not np.allclose(rows[s], per_sample[s], rtol=0, atol=1e-12 * (1 + np.abs(rows[s]).max())) for s in rows):
                    chk.fail("grads:order-dependent", "the row a sample receives depends on the order of the batch", dict(replay, seed=seed), layer="L3")
                per_sample = rows
                chk.dist["grad:order-pairs"] += 1 if epoch == 1 else 0
    chk.dist["grads:" + ("nonparametric" if nonpar else "batched")] += 1
    chk.dist[f"grads:K={K}"] += 1
    chk.count(("grads", name, n, K, bs, tuple(ml), tuple(cl)) if nact > 0 else None)
    chk.sample({"stream": "grads", **replay, "must_link": ml, "cannot_link": cl, "factor": f}, limit=3)


# ------------------------------------------------------------------ stream 5: real decorated fits
class GemProxy:
    """Stands for the estimator's GEMINI; records a copy of every gradient it returns."""

    def __init__(self, g, log):
        self._g, self._log = g, log

    def __call__(self, y_pred, affinity, return_grad=False):
        out = self._g(y_pred, affinity, return_grad=return_grad)
        if return_grad:
            self._log.append(np.array(out[1], dtype=float, copy=True))
        return out

    def __getattr__(self, k):
        return getattr(self._g, k)


def stream_fit(chk, i, rng):
    names = list(impl.GRADIENT_ESTIMATORS)
    name = names[i % len(names)]
    n = int(rng.integers(6, 19))
    d = int(rng.integers(2, 5))
    K = int(rng.integers(2, 4))
    bs = [None, 1, 2, 3, 5, n - 1, n, n + 3][(i // len(names) + i) % 8]
    max_iter = int(rng.integers(1, 4))
    f = float(rng.choice([1.0, 0.25, 5.0]))
    ml, cl = consistent_pairs(rng, n, 30)
    X = rng.normal(size=(n, d))
    X[:, 0] = np.arange(n) / 8.0          # exact binary fractions: the tag survives
    kw = dict(n_clusters=K, max_iter=max_iter, batch_size=bs, solver="sgd" if rng.random() < 0.5 else "adam",
              random_state=int(rng.integers(0, 1000)))
    replay = {"estimator": name, "n": n, "d": d, "K": K, "batch_size": bs, "max_iter": max_iter, "factor": f,
              "must_link": ml, "cannot_link": cl}
    est = impl.make(name, **kw)
    glog, rec = [], []
    orig_cg = est._compute_grads
    orig_gg = est.get_gemini

    def inner(Xb, y_pred, gradient):
        rec.append({"idx": [int(v) for v in est._batchify.indices], "y": np.array(y_pred, copy=True),
                    "g": np.array(gradient, copy=True), "tags": np.asarray(Xb)[:, 0].copy(), "nG0": len(glog)})
        return orig_cg(Xb, y_pred, gradient)
    est._compute_grads = inner
    est.get_gemini = lambda: GemProxy(orig_gg(), glog)
    st, info = call_add(as_container(rng, ml), as_container(rng, cl), est=est, factor=f)
    if st != "accept":
        chk.fail("fit:consistent-rejected", f"a consistent constraint set was rejected: {info}", replay, layer="L3")
        chk.count(None)
        return
    try:
        est.fit(X)
    except Exception as e:  # noqa
        try:
            impl.make(name, **kw).fit(X)
            plain_ok = True
        except Exception:  # noqa
            plain_ok = False
        if plain_ok:
            chk.fail("fit:decorated-fit-raises", f"the decorated fit raised {type(e).__name__}: {e} although the undecorated fit runs", replay, layer="L3")
        else:
            chk.dist["fit:config-unfit-without-constraints"] += 1
        chk.count(None)
        return
    nonpar = name in impl.NONPARAMETRIC
    bs_eff = n if (bs is None or nonpar) else bs
    steps = max_iter * (-(-n // bs_eff))
    if len(rec) != steps or len(glog) != steps:
        chk.fail("fit:steps", f"{len(rec)} decorated gradient calls / {len(glog)} GEMINI gradients for {steps} expected steps", replay, layer="L3")
    nact = 0
    seen_epoch = []
    for t, r in enumerate(rec):
        if r["nG0"] != t + 1:
            chk.fail("fit:interleave", "GEMINI gradient and _compute_grads calls are not one-to-one", replay, layer="L3")
            break
        idx = r["idx"]
        if name != "KernelRIM" and [int(round(v * 8)) for v in r["tags"]] != idx:
            chk.fail("fit:indices", "recorded batch indices are not the samples of the batch handed to _compute_grads", dict(replay, step=t, recorded=idx), layer="L3")
            break
        G0 = glog[t]
        if G0.shape != r["g"].shape:
            chk.fail("fit:shape", "gradient shape changed", replay, layer="L3")
            break
        ok, na = compare_rows(chk, "fit", f, idx, r["y"], ml, cl, G0, r["g"], dict(replay, step=t))
        nact += na
        seen_epoch += idx
        if not ok:
            break
    complete = len(seen_epoch) == sum(len(r["idx"]) for r in rec)     # no early exit above
    if complete and sorted(seen_epoch) != sorted(list(range(n)) * max_iter) and len(rec) == steps:
        chk.fail("fit:coverage", "the recorded indices over the fit are not max_iter copies of all samples", replay, layer="L3")
    chk.traces += 1
    chk.dist["fit:" + name] += 1
    chk.dist[f"fit:bs={'None' if bs is None else ('n-1' if bs == n - 1 else 'n' if bs == n else 'n+3' if bs == n + 3 else bs)}"] += 1
    chk.count(("fit", name, n, bs, max_iter, tuple(ml), tuple(cl)) if nact > 0 else None)


STREAMS = {  # name: (fn, quick, thorough)
    "corpus": (stream_corpus, len(CORPUS), len(CORPUS)),
    "exhaustive": (stream_exhaustive, len(SETS) * len(SETS), len(SETS) * len(SETS)),
    "exhaustive6": (stream_exhaustive6, 0, len(SETS6) * len(SETS6)),
    "random": (stream_random, 2000, 60000),
    "malformed": (stream_malformed, 900, 15000),
    "api": (stream_api, 7, 7),
    "grads": (stream_grads, 850, 25000),
    "fit": (stream_fit, 272, 6800),
}
FIXED = ("corpus", "exhaustive", "exhaustive6", "api")


def main():
    chk = Check("C14")
    chk.build()
    chk.proofs()
    if chk.replay_path:
        rp = json.load(open(chk.replay_path))
        st, case = rp["input"].get("stream"), rp["input"].get("case")
        chk.seed = rp.get("seed", chk.seed)
        if st in STREAMS:
            chk.run_stream(st, STREAMS[st][0], 0, only=case)
    else:
        for name, (fn, q, th) in STREAMS.items():
            cnt = q if chk.tier == "quick" else th
            if chk.l1_broken and name not in FIXED:
                cnt *= 3       # proof obligation broken: widen the failing-input search
            chk.run_stream(name, fn, cnt)
    chk.finish(rule="streams: exhaustive = every (ML, CL) with <=3 unordered pairs each over the universe {20,3,42,7,11} (176x176, random orientation/order/container; thorough adds 576x576 over six indices); "
                    "random = 2..25 non-contiguous indices, grouped or chained must-links with planted contradictions / self pairs / duplicates; malformed = None, [], scalars, "
                    "flat lists, single-column, zero-column, ragged, 3-4 column and well-shaped inputs on both arguments; grads = decorated _batchify then decorated _compute_grads "
                    "of every gradient estimator with a recording inner function (2 epochs, K=1..5, batch_size 1..n+2/None, pairs reaching outside the data); fit = real decorated fits "
                    "with the GEMINI gradient and the gradient at _compute_grads entry recorded at every step (8 batch sizes). non-trivial = validation case with both lists non-empty "
                    "(structural check reached) / malformed or absent argument / gradient case with at least one pair wholly inside a batch; distinct = distinct input signature")


if __name__ == "__main__":
    main()
