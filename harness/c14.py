"""C14 — must-link / cannot-link constraints: exact validation, right samples, right sign."""
import itertools
import json
import numpy as np
from core import Check, enc_list, enc_mat, hx
import impl

REJECT = (ValueError, TypeError)      # InvalidParameterError derives from both
SENT = object()


# ------------------------------------------------------------------ encoders for the model process
def enc_pairs(pairs):
    return " ".join([str(len(pairs))] + [f"{int(a)} {int(b)}" for a, b in pairs])


def enc_raw(spec):
    kind = spec[0]
    if kind == "none":
        return "N"
    if kind == "scalar":
        return f"S {int(spec[1])}"
    if kind == "flat":
        return "F " + enc_list(spec[1])
    return "R " + " ".join([str(len(spec[1]))] + [enc_list(r) for r in spec[1]])


def model_valid(chk, ml, cl):
    return chk.ask(f"c14.valid {enc_pairs(ml)} {enc_pairs(cl)}").bool()


def model_decorate(chk, f, idx, Y, ml, cl, G):
    t = chk.ask(f"c14.decorate {hx(f)} {enc_list(idx)} {enc_mat(Y)} {enc_pairs(ml)} {enc_pairs(cl)} {enc_mat(G)}")
    return np.array(t.list(lambda: t.list(t.float)), dtype=float).reshape(len(idx), -1)


# ------------------------------------------------------------------ L3 oracles (independent of the model)
def oracle_valid(ml, cl):
    """Union-find: accept iff no self pair and no cannot-link pair inside one must-link component."""
    if any(a == b for a, b in ml) or any(a == b for a, b in cl):
        return False
    parent = {}

    def find(x):
        parent.setdefault(x, x)
        while parent[x] != x:
            parent[x] = parent[parent[x]]
            x = parent[x]
        return x
    for a, b in ml:
        ra, rb = find(a), find(b)
        if ra != rb:
            parent[ra] = rb
    return not any(find(a) == find(b) for a, b in cl)


def oracle_decorate(f, idx, Y, ml, cl, G0):
    """Graph-Laplacian form: G0 + f * (L_cl - L_ml) @ Y over the pairs lying wholly inside the batch."""
    m = len(idx)
    pos = {}
    for p, s in enumerate(idx):
        pos.setdefault(s, p)
    L = np.zeros((m, m))
    active = set()
    for pairs, sg in ((cl, 1.0), (ml, -1.0)):
        for a, b in pairs:
            if a in pos and b in pos:
                pa, pb = pos[a], pos[b]
                L[pa, pa] += sg
                L[pb, pb] += sg
                L[pa, pb] -= sg
                L[pb, pa] -= sg
                active.update((pa, pb))
    return G0 + f * (L @ Y), active


def call_add(ml_obj, cl_obj, est=None, factor=None):
    """-> ('accept', est) | ('reject', exc) | ('other', exc)"""
    est = est if est is not None else impl.LinearMMD()
    try:
        if factor is None:
            impl.add_mlcl_constraint(est, ml_obj, cl_obj)
        else:
            impl.add_mlcl_constraint(est, ml_obj, cl_obj, factor)
        return "accept", est
    except REJECT as e:
        return "reject", e
    except Exception as e:  # noqa
        return "other", e


def as_container(rng, pairs, allow_empty_none=True):
    """The same pair list as list of lists / list of tuples / tuple of tuples / int ndarray (or None / [] when empty)."""
    pairs = [(int(a), int(b)) for a, b in pairs]
    if not pairs:
        return (None if rng.random() < 0.5 else []) if allow_empty_none else []
    k = int(rng.integers(0, 4))
    if k == 0:
        return [list(p) for p in pairs]
    if k == 1:
        return [tuple(p) for p in pairs]
    if k == 2:
        return tuple(tuple(p) for p in pairs)
    return np.array(pairs, dtype=[int, np.int32, np.int64][int(rng.integers(0, 3))])


def check_validation(chk, key, ml, cl, rng, replay):
    """One well-shaped (ml, cl): implementation vs model (L2) and vs union-find (L3)."""
    st, info = call_add(as_container(rng, ml), as_container(rng, cl))
    mv = model_valid(chk, ml, cl)
    ov = oracle_valid(ml, cl)
    rp = dict(replay, must_link=[list(map(int, p)) for p in ml], cannot_link=[list(map(int, p)) for p in cl])
    if st == "other":
        chk.fail(key + ":exception-kind", f"add_mlcl_constraint raised {type(info).__name__}: {info} (neither acceptance nor a ValueError/TypeError)", rp, layer="L3")
        return None
    acc = st == "accept"
    if acc != mv:
        chk.fail(key + ":model-mismatch", f"add_mlcl_constraint {'accepted' if acc else 'rejected'} but the model says valid={mv}", rp)
    if acc != ov:
        chk.fail(key + (":contradiction-accepted" if acc else ":consistent-rejected"),
                 f"add_mlcl_constraint {'accepted' if acc else 'rejected'} but the union-find oracle says consistent={ov}", rp, layer="L3")
    return acc


# ------------------------------------------------------------------ stream 0: corpus of minimised earlier failures
def load_corpus():
    import glob, os
    root = os.path.join(os.path.dirname(os.path.dirname(os.path.abspath(__file__))), "corpus", "C14")
    cases = []
    for fn in sorted(glob.glob(os.path.join(root, "*.json"))):
        for c in json.load(open(fn)).get("cases", []):
            cases.append((os.path.basename(fn), c))
    return cases


CORPUS = load_corpus()


def stream_corpus(chk, i, rng):
    fn, c = CORPUS[i]
    ml = [tuple(p) for p in c["must_link"]]
    cl = [tuple(p) for p in c["cannot_link"]]
    check_validation(chk, "corpus", ml, cl, rng, {"corpus_file": fn})
    chk.dist["corpus"] += 1
    chk.count(("corpus", tuple(ml), tuple(cl)) if ml and cl else None)


# ------------------------------------------------------------------ stream 1: exhaustive small universe
UNIVERSE = [20, 3, 42, 7, 11]                      # non-contiguous, unordered
UPAIRS = list(itertools.combinations(UNIVERSE, 2))  # 10 unordered pairs
SETS = [s for r in range(4) for s in itertools.combinations(range(len(UPAIRS)), r)]   # 176 sets of <= 3 pairs


UNIVERSE6 = [64, 5, 130, 9, 17, 2]                  # thorough tier: six indices, 15 unordered pairs, 576 sets of <= 3 pairs
UPAIRS6 = list(itertools.combinations(UNIVERSE6, 2))
SETS6 = [s for r in range(4) for s in itertools.combinations(range(len(UPAIRS6)), r)]


def orient(rng, sel, upairs):
    out = []
    for k in sel:
        a, b = upairs[k]
        out.append((b, a) if rng.random() < 0.5 else (a, b))
    rng.shuffle(out)
    return [tuple(p) for p in out]


def exhaustive_case(chk, i, rng, tag, universe, upairs, sets):
    a, b = divmod(i, len(sets))
    ml, cl = orient(rng, sets[a], upairs), orient(rng, sets[b], upairs)
    acc = check_validation(chk, tag, ml, cl, rng, {"universe": universe})
    chk.dist[f"{tag}:|ml|={len(ml)},|cl|={len(cl)}"] += 1
    chk.dist[f"{tag}:accepted" if acc else f"{tag}:rejected"] += 1
    chk.count((tag, sets[a], sets[b]) if ml and cl else None)
    if ml and cl and not acc:
        chk.sample({"stream": tag, "must_link": ml, "cannot_link": cl, "accepted": acc}, limit=2)


def stream_exhaustive(chk, i, rng):
    exhaustive_case(chk, i, rng, "exhaustive", UNIVERSE, UPAIRS, SETS)


def stream_exhaustive6(chk, i, rng):
    exhaustive_case(chk, i, rng, "exhaustive6", UNIVERSE6, UPAIRS6, SETS6)


# ------------------------------------------------------------------ stream 2: random larger sets
def gen_sets(rng, nodes, style):
    """Random (ml, cl) over the given node names; mostly consistent by construction, sometimes one planted contradiction / self pair."""
    nodes = list(nodes)
    m = len(nodes)
    grp = rng.integers(0, max(1, int(rng.integers(1, max(2, m // 2 + 1)))), size=m)
    ml, cl = [], []
    nml, ncl = int(rng.integers(0, 16)), int(rng.integers(0, 11))
    if style == "chain":      # long paths: contradictions only through many hops
        order = list(rng.permutation(m))
        cut = sorted(rng.choice(np.arange(1, m), size=min(m - 1, int(rng.integers(0, 3))), replace=False).tolist()) if m > 1 else []
        for u, v in zip(order, order[1:]):
            if order.index(v) in cut:
                continue
            ml.append((nodes[u], nodes[v]))
        comp, c = {}, 0
        for k, u in enumerate(order):
            if k in cut:
                c += 1
            comp[u] = c
        grp = np.array([comp[u] for u in range(m)])
        rng.shuffle(ml)
    else:
        for _ in range(nml):
            u, v = rng.integers(0, m, size=2)
            if grp[u] == grp[v] and u != v:
                ml.append((nodes[u], nodes[v]))
    for _ in range(ncl):
        u, v = rng.integers(0, m, size=2)
        if grp[u] != grp[v]:
            cl.append((nodes[u], nodes[v]))
    ml = [(b, a) if rng.random() < 0.5 else (a, b) for a, b in ml]
    r = rng.random()
    planted = "none"
    if r < 0.30 and ml:       # contradiction: a cannot-link inside a group that the must-links really connect, or random same-group pair
        u, v = rng.integers(0, m, size=2)
        if u != v and grp[u] == grp[v]:
            cl.insert(int(rng.integers(0, len(cl) + 1)), (nodes[u], nodes[v]))
            planted = "same-group-cl"
    elif r < 0.38:
        u = nodes[int(rng.integers(0, m))]
        (ml if rng.random() < 0.5 else cl).append((u, u))
        planted = "self"
    elif r < 0.46 and ml:     # duplicate / reversed duplicate
        a, b = ml[int(rng.integers(0, len(ml)))]
        ml.append((b, a))
        planted = "dup"
    return [(int(a), int(b)) for a, b in ml], [(int(a), int(b)) for a, b in cl], planted


def stream_random(chk, i, rng):
    big = chk.tier == "thorough"
    m = int(rng.integers(2, 26 if big else 16))
    hi = int(rng.choice([m, 60, 150]))
    nodes = rng.choice(np.arange(0, max(hi, m)), size=m, replace=False)
    style = "chain" if rng.random() < 0.35 else "groups"
    ml, cl, planted = gen_sets(rng, nodes, style)
    acc = check_validation(chk, "random", ml, cl, rng, {"style": style, "planted": planted})
    chk.dist[f"rnd:{style}:{planted}"] += 1
    chk.dist["rnd:accepted" if acc else "rnd:rejected"] += 1
    chk.count(("rnd", tuple(ml), tuple(cl)) if ml and cl else None)
    if planted == "same-group-cl":
        chk.sample({"stream": "random", "must_link": ml, "cannot_link": cl, "accepted": acc}, limit=4)


# ------------------------------------------------------------------ stream 3: malformed inputs
def gen_raw(rng):
    k = int(rng.integers(0, 12))
    nodes = [int(v) for v in rng.choice(np.arange(0, 60), size=6, replace=False)]
    if k == 0:
        return ("none",)
    if k == 1:
        return ("scalar", nodes[0])
    if k == 2:
        return ("flat", [])
    if k == 3:
        return ("flat", nodes[:int(rng.integers(1, 5))])
    if k == 4:   # single column
        return ("rows", [[v] for v in nodes[:int(rng.integers(1, 4))]])
    if k == 5:   # zero columns
        return ("rows", [[] for _ in range(int(rng.integers(1, 3)))])
    if k == 6:   # ragged
        rows = [[nodes[0], nodes[1]], [nodes[2], nodes[3], nodes[4]]] if rng.random() < 0.5 else [[nodes[0], nodes[1]], [nodes[2]]]
        rng.shuffle(rows)
        return ("rows", [list(r) for r in rows])
    if k == 7:   # wide: three or four columns
        w = int(rng.integers(3, 5))
        return ("rows", [[nodes[(a + b) % 6] for b in range(w)] for a in range(int(rng.integers(1, 3)))])
    # well-shaped pairs (possibly with a self pair)
    npairs = int(rng.integers(1, 4))
    rows = []
    for _ in range(npairs):
        a, b = rng.choice(6, size=2, replace=rng.random() < 0.15)
        rows.append([nodes[a], nodes[b]])
    return ("rows", rows)


def raw_class(spec):
    kind = spec[0]
    if kind == "none":
        return "absent"
    if kind == "scalar":
        return "malformed"
    if kind == "flat":
        return "absent" if not spec[1] else "malformed"
    rows = spec[1]
    if not rows:
        return "absent"
    ws = {len(r) for r in rows}
    if min(ws) < 2 or len(ws) > 1:
        return "malformed"
    return "pairs" if ws == {2} else "wide"


def raw_object(rng, spec):
    kind = spec[0]
    if kind == "none":
        return None
    if kind == "scalar":
        return [spec[1], np.int64(spec[1]), np.array(spec[1])][int(rng.integers(0, 3))]
    if kind == "flat":
        v = list(spec[1])
        return [v, tuple(v), np.array(v, dtype=int)][int(rng.integers(0, 3))]
    rows = [list(r) for r in spec[1]]
    rect = len({len(r) for r in rows}) == 1
    k = int(rng.integers(0, 3))
    if k == 0 or not rect:
        return rows
    if k == 1:
        return [tuple(r) for r in rows]
    return np.array(rows, dtype=int).reshape(len(rows), len(rows[0]))


def stream_malformed(chk, i, rng):
    a, b = gen_raw(rng), gen_raw(rng)
    if i % 3 == 0:      # make sure the malformed classes meet a well-formed partner often
        b = ("rows", [[5, 9]]) if rng.random() < 0.5 else ("none",)
        if rng.random() < 0.5:
            a, b = b, a
    st, info = call_add(raw_object(rng, a), raw_object(rng, b))
    mv = chk.ask(f"c14.accept_raw {enc_raw(a)} {enc_raw(b)}").bool()
    ca, cb = raw_class(a), raw_class(b)
    rp = {"must_link": a, "cannot_link": b}
    if st == "other":
        chk.fail(f"malformed:{ca}/{cb}:exception-kind", f"raised {type(info).__name__}: {info}", rp, layer="L3")
    else:
        acc = st == "accept"
        if acc != mv:
            chk.fail(f"malformed:{ca}/{cb}:model-mismatch", f"add_mlcl_constraint {'accepted' if acc else 'rejected'}; raw model says {mv}", rp)
        # L3: the property itself
        if "malformed" in (ca, cb):
            if acc:
                chk.fail(f"malformed:{ca}/{cb}:accepted", "an input that is not a two-dimensional list of index pairs was accepted", rp, layer="L3")
        elif "wide" not in (ca, cb):
            pl = lambda s, c: [] if c == "absent" else [tuple(r) for r in s[1]]
            ov = oracle_valid(pl(a, ca), pl(b, cb))
            if acc != ov:
                chk.fail(f"malformed:{ca}/{cb}:" + ("contradiction-accepted" if acc else "consistent-rejected"),
                         f"{'accepted' if acc else 'rejected'} but the oracle says consistent={ov} (None/[] mean no constraint)", rp, layer="L3")
        else:
            chk.dist["malformed:wide-" + ("accepted" if acc else "rejected")] += 1   # property silent; model as-is only
    chk.dist[f"malformed:{ca}/{cb}"] += 1
    chk.count(("mal", enc_raw(a), enc_raw(b)) if ("malformed" in (ca, cb) or "absent" in (ca, cb)) else None)


def stream_api(chk, i, rng):
    """Arguments of add_mlcl_constraint other than the pair lists: factor must be > 0, the model a DiscriminativeModel."""
    cases = [(0.0, False), (-1.0, False), ("a", False), (None, False), (1e-3, True), (2, True), (float("nan"), False)]
    f, ok = cases[i % len(cases)]
    try:
        impl.add_mlcl_constraint(impl.LinearMMD(), [[3, 7]], None, f)
        acc = True
    except REJECT:
        acc = False
    if acc != ok:
        chk.fail("api:factor", f"factor={f!r} {'accepted' if acc else 'rejected'}", {"factor": repr(f)}, layer="L3")
    if i % len(cases) == 0:
        for bad in (object(), impl.Kauri(), "LinearMMD"):
            try:
                impl.add_mlcl_constraint(bad, [[3, 7]])
                chk.fail("api:model", f"{type(bad).__name__} accepted as gemini_model", {"model": type(bad).__name__}, layer="L3")
            except REJECT:
                pass
    chk.count(None)


# ------------------------------------------------------------------ stream 4: the decorated _compute_grads, called directly
def consistent_pairs(rng, n, extra_hi):
    """Consistent (ml, cl) over sample indices 0..n-1 plus a few indices outside the data (never in a batch)."""
    grp = rng.integers(0, max(2, n // 2), size=n)
    ml, cl = [], []
    for _ in range(int(rng.integers(0, 7))):
        u, v = rng.integers(0, n, size=2)
        if u != v and grp[u] == grp[v]:
            ml.append((int(u), int(v)))
    for _ in range(int(rng.integers(0, 7))):
        u, v = rng.integers(0, n, size=2)
        if grp[u] != grp[v]:
            cl.append((int(u), int(v)))
    if rng.random() < 0.3:      # pairs reaching outside the data set: inert
        o = n + int(rng.integers(0, extra_hi))
        u = int(rng.integers(0, n))
        (ml if rng.random() < 0.5 else cl).append((u, o) if rng.random() < 0.5 else (o, u))
    if n >= 2 and not ml and not cl:
        u, v = rng.choice(n, size=2, replace=False)
        (ml if rng.random() < 0.5 else cl).append((int(u), int(v)))
    return ml, cl


def compare_rows(chk, key, f, idx, Y, ml, cl, G0, got, replay):
    """L2: extracted model (float instance); L3: Laplacian oracle + untouched rows bit-identical."""
    if not (np.all(np.isfinite(G0)) and np.all(np.isfinite(Y))):
        chk.dist["grad:nonfinite-skipped"] += 1
        return True, 0
    exp = model_decorate(chk, f, idx, Y, ml, cl, G0)
    scale = float(max(1.0, np.abs(G0).max(initial=0.0), f * 2 * (len(ml) + len(cl) + 1)))
    rp = dict(replay, indices=[int(v) for v in idx], must_link=ml, cannot_link=cl, factor=float(f))
    ok = True
    if got.shape != exp.shape or not np.all(np.abs(got - exp) <= 1e-9 * (1 + scale)):
        chk.fail(key + ":model-mismatch", f"gradient handed to the wrapped _compute_grads differs from the model (max abs diff {np.abs(got - exp).max() if got.shape == exp.shape else 'shape'})", rp)
        ok = False
    else:
        chk.dist["grad:bit-identical" if np.array_equal(got, exp) else "grad:within-tol"] += 1
    ora, active = oracle_decorate(f, idx, Y, ml, cl, G0)
    if got.shape != ora.shape or not np.all(np.abs(got - ora) <= 1e-9 * (1 + scale)):
        d = got - G0
        rows = sorted(int(idx[p]) for p in np.nonzero(np.abs(got - ora).max(axis=1) > 1e-9 * (1 + scale))[0]) if got.shape == ora.shape else "shape"
        chk.fail(key + ":rows-or-sign", f"injected gradient is not +factor*(y_i-y_j) on cannot-link rows / -factor*(y_i-y_j) on must-link rows of pairs inside the batch; wrong rows (samples) {rows}", rp, layer="L3")
        ok = False
    untouched = [p for p in range(len(idx)) if p not in active]
    if got.shape == G0.shape and not np.array_equal(got[untouched], G0[untouched]):
        chk.fail(key + ":untouched-changed", "a row of a sample outside every active pair was modified", rp, layer="L3")
        ok = False
    return ok, len(active)


def stream_grads(chk, i, rng):
    names = list(impl.GRADIENT_ESTIMATORS)
    name = names[i % len(names)]
    n = int(rng.integers(2, 25))
    K = int(rng.integers(1, 6))
    bs = None if rng.random() < 0.25 else int(rng.integers(1, n + 3))
    f = float(rng.choice([1.0, 0.5, 3.0, float(rng.uniform(1e-3, 10))]))
    ml, cl = consistent_pairs(rng, n, 40)
    est = impl.make(name, batch_size=bs, n_clusters=max(K, 1))
    log = []

    def inner(X, y_pred, gradient):
        log.append((X, y_pred, gradient, np.array(gradient, copy=True)))
        return SENT
    est._compute_grads = inner
    st, info = call_add(as_container(rng, ml), as_container(rng, cl), est=est, factor=f)
    replay = {"estimator": name, "n": n, "K": K, "batch_size": bs}
    if st != "accept":
        chk.fail("grads:consistent-rejected", f"a consistent constraint set was rejected: {info}", dict(replay, must_link=ml, cannot_link=cl), layer="L3")
        chk.count(None)
        return
    X = np.hstack([np.arange(n, dtype=float).reshape(-1, 1), rng.normal(size=(n, 2))])
    Yfull = impl.softmax_rows(rng.normal(size=(n, K)) * rng.choice([0.2, 1.0, 4.0]))
    Gfull = rng.normal(size=(n, K)) * rng.choice([1e-3, 1.0, 50.0])
    nonpar = name in impl.NONPARAMETRIC
    per_sample = {}
    nact = 0
    for epoch in range(2):
        seed = int(rng.integers(0, 2 ** 31 - 1))
        for Xb, _ in est._batchify(X, None, np.random.RandomState(seed)):
            idx = [int(v) for v in est._batchify.indices]
            if [int(v) for v in Xb[:, 0]] != idx:
                chk.fail("grads:indices", "recorded batch indices are not the samples of the batch", dict(replay, recorded=idx), layer="L3")
                break
            y_pred, grad = Yfull[idx].copy(), Gfull[idx].copy()
            y0, g0 = y_pred.copy(), grad.copy()
            ret = est._compute_grads(Xb, y_pred, grad)
            if ret is not SENT or len(log) == 0 or log[-1][0] is not Xb or not np.array_equal(log[-1][1], y0) or not np.array_equal(y_pred, y0):
                chk.fail("grads:passthrough", "the wrapped _compute_grads was not called once with the batch data and unchanged predictions, or its result was not returned", replay, layer="L3")
                break
            got = log[-1][3]
            ok, na = compare_rows(chk, "grads", f, idx, y0, ml, cl, g0, got, dict(replay, seed=seed))
            nact += na
            single = bs is None or bs >= n or nonpar
            if ok and single:        # L3 metamorphic: same samples in another order -> same row per sample
                rows = {s: got[p] for p, s in enumerate(idx)}
                if per_sample and any(not np.allclose(rows[s], per_sample[s], rtol=0, atol=1e-12 * (1 + np.abs(rows[s]).max())) for s in rows):
                    chk.fail("grads:order-dependent", "the row a sample receives depends on the order of the batch", dict(replay, seed=seed), layer="L3")
                per_sample = rows
                chk.dist["grad:order-pairs"] += 1 if epoch == 1 else 0
    chk.dist["grads:" + ("nonparametric" if nonpar else "batched")] += 1
    chk.dist[f"grads:K={K}"] += 1
    chk.count(("grads", name, n, K, bs, tuple(ml), tuple(cl)) if nact > 0 else None)
    chk.sample({"stream": "grads", **replay, "must_link": ml, "cannot_link": cl, "factor": f}, limit=3)


# ------------------------------------------------------------------ stream 5: real decorated fits
class GemProxy:
    """Stands for the estimator's GEMINI; records a copy of every gradient it returns."""

    def __init__(self, g, log):
        self._g, self._log = g, log

    def __call__(self, y_pred, affinity, return_grad=False):
        out = self._g(y_pred, affinity, return_grad=return_grad)
        if return_grad:
            self._log.append(np.array(out[1], dtype=float, copy=True))
        return out

    def __getattr__(self, k):
        return getattr(self._g, k)


def stream_fit(chk, i, rng):
    names = list(impl.GRADIENT_ESTIMATORS)
    name = names[i % len(names)]
    n = int(rng.integers(6, 19))
    d = int(rng.integers(2, 5))
    K = int(rng.integers(2, 4))
    bs = [None, 1, 2, 3, 5, n - 1, n, n + 3][(i // len(names) + i) % 8]
    max_iter = int(rng.integers(1, 4))
    f = float(rng.choice([1.0, 0.25, 5.0]))
    ml, cl = consistent_pairs(rng, n, 30)
    X = rng.normal(size=(n, d))
    X[:, 0] = np.arange(n) / 8.0          # exact binary fractions: the tag survives
    kw = dict(n_clusters=K, max_iter=max_iter, batch_size=bs, solver="sgd" if rng.random() < 0.5 else "adam",
              random_state=int(rng.integers(0, 1000)))
    replay = {"estimator": name, "n": n, "d": d, "K": K, "batch_size": bs, "max_iter": max_iter, "factor": f,
              "must_link": ml, "cannot_link": cl}
    est = impl.make(name, **kw)
    glog, rec = [], []
    orig_cg = est._compute_grads
    orig_gg = est.get_gemini

    def inner(Xb, y_pred, gradient):
        rec.append({"idx": [int(v) for v in est._batchify.indices], "y": np.array(y_pred, copy=True),
                    "g": np.array(gradient, copy=True), "tags": np.asarray(Xb)[:, 0].copy(), "nG0": len(glog)})
        return orig_cg(Xb, y_pred, gradient)
    est._compute_grads = inner
    est.get_gemini = lambda: GemProxy(orig_gg(), glog)
    st, info = call_add(as_container(rng, ml), as_container(rng, cl), est=est, factor=f)
    if st != "accept":
        chk.fail("fit:consistent-rejected", f"a consistent constraint set was rejected: {info}", replay, layer="L3")
        chk.count(None)
        return
    try:
        est.fit(X)
    except Exception as e:  # noqa
        try:
            impl.make(name, **kw).fit(X)
            plain_ok = True
        except Exception:  # noqa
            plain_ok = False
        if plain_ok:
            chk.fail("fit:decorated-fit-raises", f"the decorated fit raised {type(e).__name__}: {e} although the undecorated fit runs", replay, layer="L3")
        else:
            chk.dist["fit:config-unfit-without-constraints"] += 1
        chk.count(None)
        return
    nonpar = name in impl.NONPARAMETRIC
    bs_eff = n if (bs is None or nonpar) else bs
    steps = max_iter * (-(-n // bs_eff))
    if len(rec) != steps or len(glog) != steps:
        chk.fail("fit:steps", f"{len(rec)} decorated gradient calls / {len(glog)} GEMINI gradients for {steps} expected steps", replay, layer="L3")
    nact = 0
    seen_epoch = []
    for t, r in enumerate(rec):
        if r["nG0"] != t + 1:
            chk.fail("fit:interleave", "GEMINI gradient and _compute_grads calls are not one-to-one", replay, layer="L3")
            break
        idx = r["idx"]
        if name != "KernelRIM" and [int(round(v * 8)) for v in r["tags"]] != idx:
            chk.fail("fit:indices", "recorded batch indices are not the samples of the batch handed to _compute_grads", dict(replay, step=t, recorded=idx), layer="L3")
            break
        G0 = glog[t]
        if G0.shape != r["g"].shape:
            chk.fail("fit:shape", "gradient shape changed", replay, layer="L3")
            break
        ok, na = compare_rows(chk, "fit", f, idx, r["y"], ml, cl, G0, r["g"], dict(replay, step=t))
        nact += na
        seen_epoch += idx
        if not ok:
            break
    complete = len(seen_epoch) == sum(len(r["idx"]) for r in rec)     # no early exit above
    if complete and sorted(seen_epoch) != sorted(list(range(n)) * max_iter) and len(rec) == steps:
        chk.fail("fit:coverage", "the recorded indices over the fit are not max_iter copies of all samples", replay, layer="L3")
    chk.traces += 1
    chk.dist["fit:" + name] += 1
    chk.dist[f"fit:bs={'None' if bs is None else ('n-1' if bs == n - 1 else 'n' if bs == n else 'n+3' if bs == n + 3 else bs)}"] += 1
    chk.count(("fit", name, n, bs, max_iter, tuple(ml), tuple(cl)) if nact > 0 else None)


# ------------------------------------------------------------------ round-3 streams: representations, degenerate sizes, other entry points
def close(a, b, tol):
    """elementwise closeness that treats equal infinities and NaN/NaN as equal"""
    a, b = np.asarray(a, dtype=float), np.asarray(b, dtype=float)
    if a.shape != b.shape:
        return False
    with np.errstate(all="ignore"):
        return bool(np.all((a == b) | (np.abs(a - b) <= tol) | (np.isnan(a) & np.isnan(b))))


REPRS = ["lists", "tuples", "tuple_of_tuples", "int64", "int32", "uint16", "float64", "float32", "fortran", "rows_view", "cols_view",
         "transposed", "readonly", "readonly_fortran_int32", "bool"]


def pairs_repr(kind, pairs):
    """The same index pairs in another representation (None when the representation cannot hold the values)."""
    pairs = [(int(a), int(b)) for a, b in pairs]
    base = np.array(pairs, dtype=np.int64).reshape(-1, 2)
    if kind == "lists":
        return [list(p) for p in pairs]
    if kind == "tuples":
        return [tuple(p) for p in pairs]
    if kind == "tuple_of_tuples":
        return tuple(tuple(p) for p in pairs)
    if kind in ("int64", "int32", "uint16", "float64", "float32"):
        return base.astype(kind)
    if kind == "fortran":
        return np.asfortranarray(base)
    if kind == "rows_view":
        big = np.full((2 * len(pairs), 2), -7, dtype=np.int64)
        big[::2] = base
        return big[::2]
    if kind == "cols_view":
        return np.ascontiguousarray(base[:, ::-1])[:, ::-1]
    if kind == "transposed":
        return np.ascontiguousarray(base.T).T
    if kind == "readonly":
        a = base.copy()
        a.setflags(write=False)
        return a
    if kind == "readonly_fortran_int32":
        a = np.asfortranarray(base.astype(np.int32))
        a.setflags(write=False)
        return a
    if kind == "bool":
        return base.astype(bool) if base.size and base.max() <= 1 else None
    raise ValueError(kind)


def snapshot(obj):
    """bit-for-bit image of a caller-owned argument"""
    if isinstance(obj, np.ndarray):
        return ("nd", obj.dtype.str, obj.shape, obj.strides, obj.tobytes())
    return ("py", repr(obj))


def direct_epoch(est, X, Yfull, Gfull, seed, yrep="c", grep="c"):
    """Decorated _batchify then decorated _compute_grads (recording inner function already installed as est._rec)."""
    out = []
    for Xb, _ in est._batchify(X, None, np.random.RandomState(seed)):
        idx = [int(v) for v in est._batchify.indices]
        y_pred, grad = Yfull[idx].copy(), Gfull[idx].copy()
        if yrep == "fortran_readonly":
            y_pred = np.asfortranarray(y_pred)
            y_pred.setflags(write=False)
        if grep == "fortran":
            grad = np.asfortranarray(grad)
        elif grep == "view":
            big = np.zeros((grad.shape[0], 2 * grad.shape[1]))
            big[:, ::2] = grad
            grad = big[:, ::2]
        y0 = np.array(y_pred, copy=True)
        est._compute_grads(Xb, y_pred, grad)
        out.append((idx, [int(v) for v in Xb[:, 0]], y0, np.array(y_pred, copy=True), np.array(est._rec[-1], copy=True)))
    return out


def decorated_recorder(name, bs, K, ml_obj, cl_obj, f):
    est = impl.make(name, batch_size=bs, n_clusters=max(K, 1))
    est._rec = []

    def inner(X, y_pred, gradient):
        est._rec.append(np.array(gradient, copy=True))
        return SENT
    est._compute_grads = inner
    st, info = call_add(ml_obj, cl_obj, est=est, factor=f)
    return st, info, est


def stream_repr(chk, i, rng):
    """Same constraint values in another representation -> same verdict, same injected gradient, arguments untouched."""
    names = list(impl.GRADIENT_ESTIMATORS)
    name = names[i % len(names)]
    n = int(rng.integers(3, 14))
    K = int(rng.integers(1, 4))
    bs = [None, n, n + 2, max(1, n // 2), 1][i % 5]
    f = float(rng.choice([1.0, 0.75, 2.5]))
    ml, cl = consistent_pairs(rng, n, 20)
    if i % 4 == 3:          # 0/1 indices so that the bool representation applies
        ml, cl = ([(1, 0)], []) if rng.random() < 0.5 else ([], [(0, 1)])
    kinds = [REPRS[(i + k * 4) % len(REPRS)] for k in range(4)]
    replay = {"estimator": name, "n": n, "K": K, "batch_size": bs, "must_link": ml, "cannot_link": cl, "factor": f}
    X = np.hstack([np.arange(n, dtype=float).reshape(-1, 1), rng.normal(size=(n, 2))])
    X.setflags(write=False)
    Yfull = impl.softmax_rows(rng.normal(size=(n, K)))
    Gfull = rng.normal(size=(n, K))
    seed = int(rng.integers(0, 2 ** 31 - 1))
    st, info, est = decorated_recorder(name, bs, K, pairs_repr("lists", ml) or None, pairs_repr("lists", cl) or None, f)
    if st != "accept":
        chk.fail("repr:consistent-rejected", f"reference representation rejected: {info}", replay, layer="L3")
        chk.count(None)
        return
    ref = direct_epoch(est, X, Yfull, Gfull, seed)
    # the reference itself against the model / oracle (so that a slip common to all representations is seen here too)
    for idx, tags, y0, y1, got in ref:
        if tags != idx:
            chk.fail("repr:indices", "recorded batch indices are not the samples of the batch", dict(replay, recorded=idx), layer="L3")
        compare_rows(chk, "repr", f, idx, y0, ml, cl, Gfull[idx], got, dict(replay, seed=seed))
    # a contradictory variant: every representation must reject it as well
    bad_ml = ml + [(0, 1)] if (0, 1) not in ml and (1, 0) not in ml else ml
    bad_cl = cl + [(1, 0)]
    for kind in kinds:
        a, b = (pairs_repr(kind, ml) if ml else None), (pairs_repr(kind, cl) if cl else None)
        if (ml and a is None) or (cl and b is None):
            continue
        sa, sb = snapshot(a), snapshot(b)
        st, info, est2 = decorated_recorder(name, bs, K, a, b, f)
        rp = dict(replay, representation=kind)
        chk.dist["repr:" + kind] += 1
        if st != "accept":
            chk.fail(f"repr:{kind}:verdict", f"accepted as lists of ints but as {kind}: {type(info).__name__}: {info}", rp, layer="L3")
            continue
        yrep, grep = ("fortran_readonly", ["fortran", "view"][i % 2]) if kind in ("fortran", "readonly", "cols_view") else ("c", "c")
        try:
            got = direct_epoch(est2, X, Yfull, Gfull, seed, yrep, grep)
        except Exception as e:  # noqa
            chk.fail(f"repr:{kind}:raises", f"the decorated gradient raised {type(e).__name__}: {e} although the reference representation runs", rp, layer="L3")
            continue
        same = len(got) == len(ref) and all(g[0] == r[0] and close(g[4], r[4], 1e-12 * (1 + np.abs(r[4]).max(initial=0.0))) for g, r in zip(got, ref))
        if not same:
            chk.fail(f"repr:{kind}:result", "the injected gradient depends on the representation of the constraint lists / prediction and gradient arrays", rp, layer="L3")
        if any(not np.array_equal(g[2], g[3]) for g in got):
            chk.fail(f"repr:{kind}:y_pred-modified", "the prediction array was modified", rp, layer="L3")
        if snapshot(a) != sa or snapshot(b) != sb:
            chk.fail(f"repr:{kind}:argument-modified", "add_mlcl_constraint / the decorated methods modified the caller's constraint arrays", rp, layer="L3")
        sbm, sbc = pairs_repr(kind, bad_ml), pairs_repr(kind, bad_cl)
        if sbm is not None and sbc is not None:
            st2, info2 = call_add(sbm, sbc)
            if st2 != "reject":
                chk.fail(f"repr:{kind}:contradiction-accepted", f"a contradictory set given as {kind} was not rejected ({st2}: {info2})",
                         dict(rp, must_link=bad_ml, cannot_link=bad_cl), layer="L3")
    if i % 3 == 0:          # end to end: the fitted model does not depend on the representation
        e2e = ["LinearMMD", "LinearModel", "MLPMMD", "CategoricalMMD", "SparseLinearMMD", "RIM"][(i // 3) % 6]
        Xf = rng.normal(size=(n, 3))
        res = []
        for kind in ["lists"] + kinds[:2]:
            a, b = (pairs_repr(kind, ml) if ml else None), (pairs_repr(kind, cl) if cl else None)
            if (ml and a is None) or (cl and b is None):
                continue
            m = impl.make(e2e, n_clusters=2, max_iter=3, batch_size=bs, random_state=7)
            st, info = call_add(a, b, est=m, factor=f)
            if st != "accept":
                continue
            try:
                m.fit(Xf.copy())
                res.append((kind, [np.array(w, copy=True) for w in m._get_weights()], m.labels_.copy()))
            except Exception as e:  # noqa
                res.append((kind, e, None))
        for kind, w, lab in res[1:]:
            r0 = res[0]
            if isinstance(r0[1], Exception) or isinstance(w, Exception):
                if isinstance(r0[1], Exception) != isinstance(w, Exception):
                    chk.fail(f"repr:{kind}:fit-raises", f"decorated fit: {r0[0]} -> {type(r0[1]).__name__}, {kind} -> {type(w).__name__}: {w if isinstance(w, Exception) else r0[1]}",
                             dict(replay, representation=kind, e2e=e2e), layer="L3")
                continue
            if not (np.array_equal(lab, r0[2]) and all(close(x, y, 1e-12 * (1 + np.abs(y).max(initial=0.0))) for x, y in zip(w, r0[1]))):
                chk.fail(f"repr:{kind}:fit-differs", "the decorated fit depends on the representation of the constraint lists", dict(replay, representation=kind, e2e=e2e), layer="L3")
        chk.dist["repr:e2e-fit"] += 1
        chk.traces += 1
    chk.count(("repr", name, n, K, bs, tuple(ml), tuple(cl), tuple(kinds)))


def stream_single(chk, i, rng):
    """One single must-link pair that is itself in cannot_link (either order) must be rejected through the public path;
    one pair next to it must be accepted.  Index values: 0/1, non-contiguous, huge (the huge ones are judged by the oracle only)."""
    a, b = [(0, 1), (1, 0), (3, 42), (250, 7), (10 ** 6, 5), (2 ** 40, 2 ** 31 + 1)][i % 6]
    huge = max(a, b) > 300
    others = [(a + 2, b + 5), (b, a + 9), (b + 11, a)]
    variant = (i // 6) % 6
    ml = [(a, b)]
    cl = [[(a, b)], [(b, a)], [others[0], (b, a)], [(a, b), others[1]], [others[0], others[1]], [others[2]]][variant]
    expect = variant >= 4      # accept only when the pair itself is not forbidden
    kind = REPRS[(i * 5) % len(REPRS)]
    if kind in ("uint16", "bool", "float32") and huge or kind == "bool":
        kind = "tuples"
    if kind == "int32" and max(a, b) >= 2 ** 31 - 10:
        kind = "int64"
    A, B = pairs_repr(kind, ml), pairs_repr(kind, cl)
    est = impl.make(list(impl.GRADIENT_ESTIMATORS)[i % len(impl.GRADIENT_ESTIMATORS)])
    st, info = call_add(A, B, est=est, factor=[1.0, 1e-300, 1e300, 5e-324][i % 4])
    rp = {"must_link": ml, "cannot_link": cl, "representation": kind}
    if st == "other":
        chk.fail("single:exception-kind", f"raised {type(info).__name__}: {info}", rp, layer="L3")
    elif (st == "accept") != expect:
        chk.fail("single:" + ("contradiction-accepted" if st == "accept" else "consistent-rejected"),
                 f"single must-link pair {ml[0]} with cannot-link {cl}: {'accepted' if st == 'accept' else 'rejected'}", rp, layer="L3")
    if oracle_valid(ml, cl) != expect:
        chk.fail("single:harness", "harness expectation disagrees with the union-find oracle", rp, layer="L3")
    if not huge:
        mv = model_valid(chk, ml, cl)
        if (st == "accept") != mv and st != "other":
            chk.fail("single:model-mismatch", f"model says valid={mv}", rp)
    chk.dist[f"single:{'huge' if huge else 'small'}:{'accept' if expect else 'reject'}"] += 1
    chk.count(("single", a, b, variant, kind))


def stream_adversarial(chk, i, rng):
    """One pair, adversarial floats in factor / predictions / gradient: the two rows of the pair must be exactly
    g (+/-) factor*(y_i - y_j) computed in binary64 (same operations), all other rows untouched."""
    n, K = int(rng.integers(2, 7)), int(rng.integers(1, 4))
    f = [1.0, 5e-324, 1e-300, 1e300, float(np.nextafter(1.0, 2.0)), 0.1 + 0.2, 1.7976931348623157e308][i % 7]
    specials = np.array([0.0, -0.0, 0.3, 0.1 + 0.2, 1e300, -1e300, 5e-324, 2.2250738585072014e-308, 1.0, float(np.nextafter(1.0, 0.0)), 0.5, 1e-17])
    Y = rng.choice(specials, size=(n, K))
    G = rng.choice(specials, size=(n, K))
    u, v = (int(x) for x in rng.choice(n, size=2, replace=False))
    if i % 3 == 0:
        Y[v] = Y[u]            # exact tie: the difference is +0.0 everywhere
    is_ml = i % 2 == 0
    ml, cl = ([(u, v)], []) if is_ml else ([], [(u, v)])
    bs = [None, n, n + 1][i % 3]
    st, info, est = decorated_recorder(list(impl.GRADIENT_ESTIMATORS)[i % len(impl.GRADIENT_ESTIMATORS)], bs, K, ml or None, cl or None, f)
    rp = {"n": n, "K": K, "factor": f.hex(), "must_link": ml, "cannot_link": cl, "Y": [[x.hex() for x in r] for r in Y.tolist()], "G": [[x.hex() for x in r] for r in G.tolist()]}
    if st != "accept":
        chk.fail("adversarial:rejected", f"valid call rejected: {type(info).__name__}: {info}", rp, layer="L3")
        chk.count(None)
        return
    X = np.arange(n, dtype=float).reshape(-1, 1)
    with np.errstate(all="ignore"):
        out = direct_epoch(est, X, Y, G, int(rng.integers(0, 2 ** 31 - 1)))
        for idx, tags, y0, y1, got in out:
            pu, pv = idx.index(u), idx.index(v)
            exp = G[idx].copy()
            if is_ml:
                exp[pu] = exp[pu] - f * (y0[pu] - y0[pv])
                exp[pv] = exp[pv] - f * (y0[pv] - y0[pu])
            else:
                exp[pu] = exp[pu] + f * (y0[pu] - y0[pv])
                exp[pv] = exp[pv] + f * (y0[pv] - y0[pu])
            if not close(got, exp, 0.0):
                chk.fail("adversarial:rows-or-sign", "the two rows of the pair are not g -/+ factor*(y_i - y_j) in binary64", dict(rp, indices=idx), layer="L3")
            rest = [p for p in range(len(idx)) if p not in (pu, pv)]
            if got[rest].tobytes() != G[idx][rest].tobytes():
                chk.fail("adversarial:untouched-changed", "a row outside the pair changed (bit-wise)", dict(rp, indices=idx), layer="L3")
            if np.all(np.isfinite(exp)) and np.all(np.isfinite(Y)):
                m = model_decorate(chk, f, idx, y0, ml, cl, G[idx])
                if not close(got, m, 1e-9 * (1 + float(np.abs(exp).max(initial=0.0)))):
                    chk.fail("adversarial:model-mismatch", "differs from the extracted model", dict(rp, indices=idx))
            else:
                chk.dist["adversarial:nonfinite"] += 1
    chk.dist[f"adversarial:f={f:.3g}"] += 1
    chk.count(("adv", i, n, K))


def traced_run(chk, key, name, kw, X, y, ml, cl, f, entry, entry_kw, replay, kinds=("lists", "lists"), readonly=False, steps=None):
    """A real decorated fit / fit_predict / path with the GEMINI gradient and the gradient at _compute_grads entry
    recorded at every step; every argument compared with a copy taken before the call."""
    n = len(X)
    est = impl.make(name, **kw)
    glog, rec = [], []
    orig_cg, orig_gg = est._compute_grads, est.get_gemini

    def inner(Xb, y_pred, gradient):
        rec.append({"idx": [int(v) for v in est._batchify.indices], "y": np.array(y_pred, copy=True),
                    "g": np.array(gradient, copy=True), "tags": np.asarray(Xb)[:, 0].copy(), "nG0": len(glog)})
        return orig_cg(Xb, y_pred, gradient)
    est._compute_grads = inner
    est.get_gemini = lambda: GemProxy(orig_gg(), glog)
    A = pairs_repr(kinds[0], ml) if ml else None
    B = pairs_repr(kinds[1], cl) if cl else None
    Xa = X.copy()
    ya = None if y is None else y.copy()
    if readonly:
        Xa.setflags(write=False)
        if ya is not None:
            ya.setflags(write=False)
    snaps = [snapshot(o) for o in (A, B, Xa, ya)]
    st, info = call_add(A, B, est=est, factor=f)
    if st != "accept":
        chk.fail(key + ":consistent-rejected", f"a consistent constraint set was rejected: {info}", replay, layer="L3")
        return 0
    try:
        out = getattr(est, entry)(Xa, ya, **entry_kw)
    except Exception as e:  # noqa
        try:
            getattr(impl.make(name, **kw), entry)(X.copy(), None if y is None else y.copy(), **entry_kw)
            plain_ok = True
        except Exception:  # noqa
            plain_ok = False
        if plain_ok:
            chk.fail(key + ":decorated-raises", f"the decorated {entry} raised {type(e).__name__}: {e} although the undecorated {entry} runs", replay, layer="L3")
        else:
            chk.dist[key + ":config-fails-without-constraints"] += 1
        return 0
    if [snapshot(o) for o in (A, B, Xa, ya)] != snaps:
        chk.fail(key + ":argument-modified", f"{entry} on a decorated model modified one of its arguments (constraints, X, y)", replay, layer="L3")
    if entry == "fit_predict" and not np.array_equal(out, est.labels_):
        chk.fail(key + ":fit_predict", "fit_predict does not return labels_", replay, layer="L3")
    if steps is not None and (len(rec) != steps or len(glog) != steps):
        chk.fail(key + ":steps", f"{len(rec)} decorated gradient calls / {len(glog)} GEMINI gradients for {steps} expected steps", replay, layer="L3")
    nact, seen = 0, []
    for t, r in enumerate(rec):
        if r["nG0"] != t + 1:
            chk.fail(key + ":interleave", "GEMINI gradient and _compute_grads calls are not one-to-one", replay, layer="L3")
            return nact
        idx = r["idx"]
        if name != "KernelRIM" and [int(round(v * 8)) for v in r["tags"]] != idx:
            chk.fail(key + ":indices", "recorded batch indices are not the samples of the batch handed to _compute_grads", dict(replay, step=t, recorded=idx), layer="L3")
            return nact
        if glog[t].shape != r["g"].shape:
            chk.fail(key + ":shape", "gradient shape changed", replay, layer="L3")
            return nact
        ok, na = compare_rows(chk, key, f, idx, r["y"], ml, cl, glog[t], r["g"], dict(replay, step=t))
        nact += na
        seen += idx
        if not ok:
            return nact
    if len(seen) % n != 0 or sorted(seen) != sorted(list(range(n)) * (len(seen) // n)):
        chk.fail(key + ":coverage", "the recorded indices over the run are not whole epochs over all samples", replay, layer="L3")
    if not rec:
        chk.fail(key + ":no-steps", f"{entry} performed no decorated gradient step", replay, layer="L3")
    chk.traces += 1
    return nact


def bs_label(bs, n):
    return "None" if bs is None else "=n" if bs == n else ">n" if bs > n else "<n"


def stream_entry(chk, i, rng):
    """path() and fit_predict() on decorated models (their own copies of the training loop / route to the affinity),
    batch_size None / = n / > n / < n, precomputed affinities, read-only arguments."""
    n = int(rng.integers(6, 13))
    d = int(rng.integers(3, 6))
    bs = [None, n, n + 3, max(2, n // 2), 1][i % 5]
    f = float(rng.choice([1.0, 0.25, 4.0]))
    ml, cl = consistent_pairs(rng, n, 10)
    X = rng.normal(size=(n, d))
    X[:, 0] = np.arange(n) / 8.0
    readonly = i % 2 == 0
    kinds = (REPRS[(i * 3) % 14], REPRS[(i * 7 + 2) % 14])       # never "bool"
    if i % 3 != 2:
        name = impl.SPARSE[(i // 3) % len(impl.SPARSE)]
        entry = "path"
        bsp = bs if bs != 1 else 2
        kw = dict(n_clusters=2, max_iter=2, batch_size=bsp, alpha=0.5, random_state=int(rng.integers(0, 1000)))
        ekw = dict(alpha_multiplier=3.0, min_features=d - 1, max_patience=1)
        pre = name.endswith("MMD") and (i // 3) % 2 == 0
        bs = bsp
    else:
        names = list(impl.GRADIENT_ESTIMATORS)
        name = names[(i // 3) % len(names)]
        entry = "fit_predict"
        kw = dict(n_clusters=2, max_iter=2, batch_size=bs, random_state=int(rng.integers(0, 1000)))
        ekw = {}
        pre = name.endswith("MMD") and (i // 3) % 2 == 1
    y = None
    if pre:
        kw["kernel"] = "precomputed"
        y = X @ X.T - 0.3            # symmetric, negative entries
    replay = {"estimator": name, "entry": entry, "n": n, "d": d, "batch_size": bs, "factor": f, "must_link": ml, "cannot_link": cl,
              "precomputed": pre, "readonly": readonly, "representations": kinds}
    steps = None
    if entry == "fit_predict":
        bs_eff = n if (bs is None or name in impl.NONPARAMETRIC) else bs
        steps = 2 * (-(-n // bs_eff))
    nact = traced_run(chk, "entry:" + entry, name, kw, X, y, ml, cl, f, entry, ekw, replay, kinds, readonly, steps)
    chk.dist[f"entry:{entry}:bs{bs_label(bs, n)}"] += 1
    chk.dist[f"entry:{entry}:{name}"] += 1
    if pre:
        chk.dist["entry:precomputed"] += 1
    chk.count(("entry", entry, name, n, bs, pre, tuple(ml), tuple(cl)) if nact > 0 else None)


def stream_degenerate(chk, i, rng):
    """Sizes 1 through the public path: one cluster, one sample per cluster, one feature, two samples, one pair;
    batch_size = n, n + 1 and 1."""
    names = list(impl.GRADIENT_ESTIMATORS)
    name = names[i % len(names)]
    shape = ["K=1", "n=K", "d=1", "n=2"][(i // len(names) + i) % 4]
    n, d, K = {"K=1": (5, 2, 1), "n=K": (3, 2, 3), "d=1": (6, 1, 2), "n=2": (2, 2, 2)}[shape]
    bs = [n, n + 1, 1, None][(i // 4) % 4]
    u, v = (int(x) for x in rng.choice(n, size=2, replace=False))
    ml, cl = ([(u, v)], []) if i % 2 == 0 else ([], [(v, u)])
    X = rng.normal(size=(n, d))
    X[:, 0] = np.arange(n) / 8.0
    kw = dict(n_clusters=K, max_iter=2, batch_size=bs, random_state=int(rng.integers(0, 1000)))
    replay = {"estimator": name, "entry": "fit", "shape": shape, "n": n, "d": d, "K": K, "batch_size": bs, "must_link": ml, "cannot_link": cl, "factor": 1.5}
    bs_eff = n if (bs is None or name in impl.NONPARAMETRIC) else bs
    nact = traced_run(chk, "degenerate", name, kw, X, None, ml, cl, 1.5, "fit", {}, replay, ("tuples", "int32"), False, 2 * (-(-n // bs_eff)))
    chk.dist[f"degenerate:{shape}:bs{bs_label(bs, n)}"] += 1
    chk.count(("degenerate", name, shape, bs) if nact > 0 else None)


STREAMS = {  # name: (fn, quick, thorough)
    "corpus": (stream_corpus, len(CORPUS), len(CORPUS)),
    "exhaustive": (stream_exhaustive, len(SETS) * len(SETS), len(SETS) * len(SETS)),
    "exhaustive6": (stream_exhaustive6, 0, len(SETS6) * len(SETS6)),
    "random": (stream_random, 2000, 60000),
    "malformed": (stream_malformed, 900, 15000),
    "api": (stream_api, 7, 7),
    "grads": (stream_grads, 850, 25000),
    "fit": (stream_fit, 272, 6800),
    "repr": (stream_repr, 60, 1500),
    "single": (stream_single, 36, 360),
    "adversarial": (stream_adversarial, 42, 1050),
    "entry": (stream_entry, 45, 900),
    "degenerate": (stream_degenerate, 68, 680),
}
FIXED = ("corpus", "exhaustive", "exhaustive6", "api")


def main():
    chk = Check("C14")
    chk.build()
    chk.proofs()
    if chk.replay_path:
        rp = json.load(open(chk.replay_path))
        st, case = rp["input"].get("stream"), rp["input"].get("case")
        chk.seed = rp.get("seed", chk.seed)
        if st in STREAMS:
            chk.run_stream(st, STREAMS[st][0], 0, only=case)
    else:
        for name, (fn, q, th) in STREAMS.items():
            cnt = q if chk.tier == "quick" else th
            if chk.l1_broken and name not in FIXED:
                cnt *= 3       # proof obligation broken: widen the failing-input search
            chk.run_stream(name, fn, cnt)
    chk.finish(rule="streams: exhaustive = every (ML, CL) with <=3 unordered pairs each over the universe {20,3,42,7,11} (176x176, random orientation/order/container; thorough adds 576x576 over six indices); "
                    "random = 2..25 non-contiguous indices, grouped or chained must-links with planted contradictions / self pairs / duplicates; malformed = None, [], scalars, "
                    "flat lists, single-column, zero-column, ragged, 3-4 column and well-shaped inputs on both arguments; grads = decorated _batchify then decorated _compute_grads "
                    "of every gradient estimator with a recording inner function (2 epochs, K=1..5, batch_size 1..n+2/None, pairs reaching outside the data); fit = real decorated fits "
                    "with the GEMINI gradient and the gradient at _compute_grads entry recorded at every step (8 batch sizes). non-trivial = validation case with both lists non-empty "
                    "(structural check reached) / malformed or absent argument / gradient case with at least one pair wholly inside a batch; distinct = distinct input signature. "
                    "round 3: repr = the same constraints as lists/tuples/int64/int32/uint16/float64/float32/bool/Fortran/views/read-only arrays (and Fortran/read-only/strided prediction and gradient arrays) "
                    "give the same verdict, the same injected gradient, the same fitted model, arguments bit-identical; single = one must-link pair itself in cannot_link (either order, huge indices too); "
                    "adversarial = one pair with denormal/huge/adjacent-double factor and entries, exact ties, -0.0; entry = decorated path() and fit_predict() with batch_size None/=n/>n/<n, precomputed affinity, "
                    "read-only arguments; degenerate = K=1, n=K, d=1, n=2 with batch_size n/n+1/1 through fit")


if __name__ == "__main__":
    main()
