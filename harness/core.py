"""Core of the verification harness (see DESIGN.md §1, §2).

A check = L1 (compile the property's theorems, collect Print Assumptions) + L2 (run the extracted
executable model and the implementation on the same generated inputs) + L3 (independent oracle /
failing-input search).  This module provides the plumbing shared by all property scripts:
build, proof compilation, the OCaml model process, deterministic per-case RNG, failure
collection, known-findings protocol, replay files and the evidence file.
"""
import os, sys, json, time, re, subprocess, hashlib, traceback, warnings, collections

VERIF = os.path.dirname(os.path.dirname(os.path.abspath(__file__)))
REPO = os.environ.get("VERIF_REPO", "/repo")   # checks registered in MANIFEST always use /repo; the override is for mutation experiments on scratch copies
COQ = f"{VERIF}/coq"
FORBIDDEN = re.compile(r"\b(Admitted|admit|Axiom|Parameter|Conjecture|Abort All|bypass_check|type-in-type|impredicative-set)\b|Unset\s+Guard|Unset\s+Positivity|Unset\s+Universe|Admit\s+Obligations")

os.environ.setdefault("PYTHONHASHSEED", "0")
os.environ["GEMCLUS_VERIF"] = "1"
if REPO not in sys.path:
    sys.path.insert(0, REPO)
warnings.filterwarnings("ignore")


def _sh(cmd, cwd=None, timeout=3600):
    p = subprocess.run(cmd, shell=True, cwd=cwd, capture_output=True, text=True, timeout=timeout)
    return p.returncode, p.stdout, p.stderr


# ------------------------------------------------------------------ token protocol (mirrors ocaml/common.ml)
def hx(x):
    x = float(x)
    if x != x:
        return "nan"
    if x in (float("inf"), float("-inf")):
        return "inf" if x > 0 else "-inf"
    return x.hex()


def enc_list(xs, f=str):
    xs = list(xs)
    return " ".join([str(len(xs))] + [f(x) for x in xs])


def enc_vec(v):
    return enc_list([float(x) for x in v], hx)


def enc_mat(a):
    import numpy as np
    a = np.asarray(a, dtype=float)
    r, c = a.shape
    return f"{r} {c} " + " ".join(hx(x) for x in a.ravel())


def enc_opt(x, f=str):
    return "N" if x is None else "S " + f(x)


class Toks:
    def __init__(self, line):
        self.t = line.split()
        self.i = 0

    def next(self):
        v = self.t[self.i]
        self.i += 1
        return v

    def int(self):
        return int(self.next())

    def float(self):
        return float.fromhex(self.next()) if self.t[self.i].startswith(("0x", "-0x")) else float(self.next())

    def bool(self):
        return self.next() == "1"

    def list(self, f):
        n = self.int()
        return [f() for _ in range(n)]

    def opt(self, f):
        return None if self.next() == "N" else f()

    def floats(self, n):
        return [self.float() for _ in range(n)]

    def done(self):
        return self.i >= len(self.t)


class ModelProc:
    """Persistent process running the extracted Coq model (ocaml/main)."""

    def __init__(self):
        self.p = subprocess.Popen([f"{VERIF}/ocaml/main"], stdin=subprocess.PIPE, stdout=subprocess.PIPE, text=True, bufsize=1)
        self.calls = 0

    def ask(self, line):
        self.p.stdin.write(line + "\n")
        self.p.stdin.flush()
        out = self.p.stdout.readline()
        self.calls += 1
        if not out:
            raise RuntimeError("model process died on: " + line[:200])
        if out.startswith("ERR"):
            raise RuntimeError("model error: " + out.strip() + " on: " + line[:200])
        return Toks(out)

    def close(self):
        try:
            self.p.stdin.close()
            self.p.wait(timeout=5)
        except Exception:
            self.p.kill()


class Failure:
    def __init__(self, key, what, replay, layer):
        self.key, self.what, self.replay, self.layer = key, what, replay, layer


class Check:
    def __init__(self, pid, argv=None, props_files=None):
        argv = sys.argv[1:] if argv is None else argv
        self.pid = pid
        self.tier = os.environ.get("VERIF_TIER", "quick")
        self.replay_path = None
        for i, a in enumerate(argv):
            if a in ("quick", "thorough"):
                self.tier = a
            if a == "--replay":
                self.replay_path = argv[i + 1]
        self.seed = int(os.environ.get("VERIF_SEED", "0"))
        self.t0 = time.time()
        self.failures = []
        self.l1_broken = []          # (theorem-or-file, message)
        self.known_seen = collections.OrderedDict()
        self.dist = collections.Counter()
        self.samples = []
        self.evaluations = 0
        self.nontrivial = set()
        self.traces = 0
        self.obligations = 0
        self.discharged = 0
        self.axioms = set()
        self.theorems = []
        self.partial = []
        self.regenerated = {}
        self.notes = []
        self._model = None
        self.props_files = props_files or [f"Props/{pid}.v"]
        self.cur = None
        self.build_out = ""

    # -------------------------------------------------------------- build + L1
    def build(self):
        rc, out, err = _sh(f"{VERIF}/tools/build.sh", cwd=VERIF, timeout=3500)
        self.build_out = out
        if rc != 0 or "DRIVER-FAIL" in out:
            self.l1_broken.append(("executable-model", "the extracted model / driver does not build: " + out.strip()[-400:]))
        users = {"tr_pathrules": ["C07"], "tr_constraints": ["C16"], "tr_validation": ["C16"], "tr_forwarding": ["C11"],
                 "tr_attrflow": ["C12"], "tr_kauriformulas": ["C08"], "tr_dataconstants": ["C20"], "tr_datagen": ["C20"],
                 "tr_fdiv": ["C01", "C02", "C13", "C17"], "tr_geom": ["C01", "C02", "C13", "C17"],
                 "tr_models": ["C03", "C18", "C04", "C06"], "tr_mlcl": ["C14"], "tr_prox": ["C05"], "tr_batch": ["C10"],
                 "tr_kauriprint": ["C19"], "tr_douglas": ["C15"], "tr_coherence": ["C04"], "tr_kaurifit": ["C09", "C04"],
                 "tr_selection": ["C06"]}
        for m in re.finditer(r"TRANSLATOR-FAIL (\S+)", out):
            name = os.path.basename(m.group(1))[:-3]
            if self.pid in users.get(name, [self.pid]):
                self.tie_lost = True
                self.notes.append(f"regenerated tie unavailable: {m.group(1)} failed closed on the current sources; relying on the correspondence "
                                  f"with 3x the stream sizes (the previously generated Gen file stays in place)")
        return out

    def build_failed(self, relpath):
        return f"BUILD-FAIL {relpath}" in self.build_out

    def _enclosing(self, path, line):
        name = None
        try:
            for k, l in enumerate(open(path), 1):
                m = re.match(r"\s*(Theorem|Lemma|Example|Definition|Fixpoint|Corollary|Fact)\s+(\w+)", l)
                if m and k <= line:
                    name = m.group(2)
        except OSError:
            pass
        return name

    def _dep_closure(self):
        """Files (relative .v paths) the property's statement files depend on, from coq_makefile's .Makefile.d."""
        deps = {}
        try:
            txt = open(f"{COQ}/.Makefile.d").read().replace("\\\n", " ")
        except OSError:
            return None
        for line in txt.split("\n"):
            if ":" not in line:
                continue
            lhs, rhs = line.split(":", 1)
            tg = [t[:-1] for t in lhs.split() if t.endswith(".vo")]
            ds = [d[:-1] for d in rhs.split() if d.endswith(".vo") and not d.startswith("/")]
            for t in tg:
                deps.setdefault(t, set()).update(ds)
        todo, seen = list(self.props_files), set()
        while todo:
            f = todo.pop()
            if f in seen:
                continue
            seen.add(f)
            todo.extend(deps.get(f, ()))
        return seen

    def _explain_make_failure(self):
        """Which files/lemmas failed in the last make (from build/make.log), restricted to this property's dependencies."""
        res = []
        closure = self._dep_closure()
        try:
            log = open(f"{VERIF}/build/make.log").read()
        except OSError:
            return res
        for m in re.finditer(r'File "\./([^"]+)", line (\d+), characters [^\n]*\n(Error:[^\n]*(?:\n[^\n]+){0,6})', log):
            f, ln, msg = m.group(1), int(m.group(2)), m.group(3)
            if closure is not None and f not in closure:
                continue
            res.append((f, self._enclosing(f"{COQ}/{f}", ln), msg.replace("\n", " ")[:300]))
        return res

    def hygiene(self):
        bad = []
        for root, _, files in os.walk(COQ):
            for fn in files:
                if fn.endswith(".v"):
                    src = open(os.path.join(root, fn)).read()
                    src_nc = re.sub(r"\(\*.*?\*\)", "", src, flags=re.S)
                    for m in FORBIDDEN.finditer(src_nc):
                        bad.append(f"{os.path.relpath(os.path.join(root, fn), COQ)}: {m.group(0)}")
        if bad:
            self.l1_broken.append(("hygiene", "forbidden construct in the development: " + "; ".join(bad[:5])))
        return bad

    def proofs(self):
        """Compile the property's statement files, count obligations, collect axioms."""
        self.hygiene()
        os.makedirs(f"{VERIF}/build/props", exist_ok=True)
        for rel in self.props_files:
            src = open(f"{COQ}/{rel}").read()
            src_nc = re.sub(r"\(\*.*?\*\)", "", src, flags=re.S)
            thms = re.findall(r"^\s*(?:Theorem|Corollary)\s+(\w+)", src_nc, flags=re.M)
            self.obligations += len(thms)
            out_vo = f"{VERIF}/build/props/{os.path.basename(rel)}o"
            for attempt in range(3):
                rc, out, err = _sh(f"timeout 900 coqc -w -all -Q . GV -o {out_vo} {rel}", cwd=COQ, timeout=1000)
                # killed by the kernel (memory pressure from other jobs) or by the time limit without a Coq error: not a
                # verdict about the proof - wait and try again (a genuine failure prints 'Error:')
                if rc in (0, 1) or "Error:" in err or attempt == 2:
                    break
                self.notes.append(f"coqc on {rel} was killed (rc={rc}); retried")
                time.sleep(30)
            if rc != 0:
                m = re.search(r'line (\d+), characters', err)
                ln = int(m.group(1)) if m else 0
                enc = self._enclosing(f"{COQ}/{rel}", ln) if ln else None
                msg = (err.strip().split("Error:")[-1]).strip().replace("\n", " ")[:400]
                failed_deps = self._explain_make_failure()
                if failed_deps and ("Cannot find" in err or "Unable to locate" in err or "not found" in err.lower() or enc is None):
                    for f, lem, emsg in failed_deps:
                        self.l1_broken.append((f"{f}::{lem}", emsg))
                else:
                    self.l1_broken.append((f"{rel}::{enc}", msg))
                # theorems fully before the error line still count as discharged
                done = 0
                if ln:
                    for k, l in enumerate(src.split("\n"), 1):
                        if k < ln and re.match(r"\s*(Qed|Defined)\.", l.strip() and l):
                            pass
                    pos = 0
                    for t in thms:
                        mm = re.search(r"(Theorem|Corollary)\s+" + t + r"\b", src)
                        end = src.find("Qed.", mm.end()) if mm else -1
                        if end >= 0 and src.count("\n", 0, end) + 1 < ln:
                            done += 1
                self.discharged += done
                continue
            self.discharged += len(thms)
            self.theorems += thms
            # Print Assumptions output: "Closed under the global context" or "Axioms:\n name : type ..."
            for blk in re.split(r"(?=Closed under the global context|Axioms:)", out):
                if blk.startswith("Axioms:"):
                    for m in re.finditer(r"^([A-Za-z_][\w.']*)\s*:", blk, flags=re.M):
                        if m.group(1) != "Axioms":
                            self.axioms.add(m.group(1))
            if self.tier == "thorough" and not self.replay_path:
                # independent re-check of the compiled property file and everything it depends on
                mod = "GV." + rel[:-2].replace("/", ".")
                rc2, out2, err2 = _sh(f"timeout 1500 coqchk -silent -o -Q . GV {mod}", cwd=COQ, timeout=1600)
                txt = out2 + err2
                self.coqchk = getattr(self, "coqchk", {})
                if rc2 != 0:
                    self.l1_broken.append((f"coqchk:{mod}", "coqchk rejected the compiled library: " + txt.strip()[-300:]))
                else:
                    m2 = re.search(r"\* Axioms:(.*?)\n\s*\n\* Constants/Inductives relying on type-in-type:(.*?)\n", txt, flags=re.S)
                    self.coqchk[mod] = {"axioms": [a.strip() for a in (m2.group(1) if m2 else "").split("\n") if a.strip()],
                                        "type_in_type": (m2.group(2).strip() if m2 else "?")}
            self.partial += [t for t in thms if t.endswith("_partial")]
            self.partial += re.findall(r"^\s*(?:Theorem|Corollary)\s+(\w+_refuted)", src_nc, flags=re.M)
        return not self.l1_broken

    # -------------------------------------------------------------- L2 plumbing
    @property
    def model(self):
        if self._model is None:
            self._model = ModelProc()
        return self._model

    def ask(self, line):
        return self.model.ask(line)

    def rng(self, *keys):
        import numpy as np
        h = hashlib.sha256(("|".join(map(str, (self.pid, self.seed) + keys))).encode()).digest()
        return np.random.default_rng(int.from_bytes(h[:8], "little"))

    def count(self, nontrivial_sig=None, n=1):
        """One more evaluated case; nontrivial_sig is a hashable describing the case when it is
        non-trivial by the property's rule (None = trivial)."""
        self.evaluations += n
        if nontrivial_sig is not None:
            self.nontrivial.add(nontrivial_sig if isinstance(nontrivial_sig, (str, int, tuple)) else repr(nontrivial_sig))

    def sample(self, obj, limit=4):
        if len(self.samples) < limit:
            self.samples.append(obj)

    def fail(self, key, what, replay=None, layer="L2"):
        """Record a failure.  key identifies the call site / input class (matched against
        KNOWN_FINDINGS.txt); replay is a JSON-able description of the concrete failing input."""
        rp = dict(replay or {})
        if self.cur is not None:
            rp.setdefault("stream", self.cur[0])
            rp.setdefault("case", self.cur[1])
            if len(self.cur) > 2 and self.cur[2] != self.cur[1]:
                rp.setdefault("rng_case", self.cur[2])
        self.failures.append(Failure(key, what, rp, layer))

    def run_stream(self, name, fn, count, only=None):
        """fn(chk, i, rng) runs case i of the stream.  Harness/implementation exceptions that the case
        does not handle itself are failures of the correspondence."""
        orig = max(count, 1)
        if getattr(self, "tie_lost", False) and self.tier == "quick":
            count *= 3   # the regenerated tie is gone: search the correspondence three times as deep
        idxs = range(count) if only is None else [only]
        rng_only = None
        if only is not None and self.replay_path:
            try:
                rng_only = json.load(open(self.replay_path))["input"].get("rng_case")
            except Exception:  # noqa
                rng_only = None
        for i in idxs:
            # extra rounds re-use the case numbers (finite corpora stay in range) with fresh random draws
            eff = i if (i < orig or only is not None) else i % orig
            ri = rng_only if (only is not None and rng_only is not None) else i
            self.cur = (name, eff, ri)
            try:
                fn(self, eff, self.rng(name, ri))
            except Exception as e:  # noqa
                tb = traceback.format_exc(limit=6)
                self.fail(f"{name}:exception:{type(e).__name__}", f"unhandled {type(e).__name__}: {e}", {"traceback": tb}, layer="L2")
        self.cur = None

    # -------------------------------------------------------------- verdict
    def known_entries(self):
        ents = []
        try:
            for l in open(f"{VERIF}/KNOWN_FINDINGS.txt"):
                l = l.strip()
                m = re.match(r"known:\s+property=(\S+)\s+id=(\S+)\s+key=(\S+)\s+(.*)$", l)
                if m and m.group(1) == self.pid:
                    ents.append({"id": m.group(2), "key": m.group(3), "desc": m.group(4)})
        except OSError:
            pass
        return ents

    def finish(self, rule, extra=None, level="proof"):
        if self._model is not None:
            self._model.close()
        known = self.known_entries()
        os.makedirs(f"{VERIF}/replays/{self.pid}", exist_ok=True)
        if not self.replay_path:
            for fn in os.listdir(f"{VERIF}/replays/{self.pid}"):
                os.remove(f"{VERIF}/replays/{self.pid}/{fn}")
        os.makedirs(f"{VERIF}/evidence", exist_ok=True)
        lines, nviol = [], 0
        seen_known, seen_keys = {}, {}
        for f in self.failures:
            k = next((e for e in known if e["key"] == f.key), None)
            if k is not None:
                seen_known.setdefault(k["id"], (k, f))
                continue
            seen_keys.setdefault(f.key, []).append(f)
        for kid, (k, f) in seen_known.items():
            lines.append(f"KNOWN-FINDING: property={self.pid} {kid} {k['desc']}")
        for key, fs in seen_keys.items():
            f = fs[0]
            path = f"{VERIF}/replays/{self.pid}/{re.sub(r'[^A-Za-z0-9_.-]+', '_', key)[:80]}.json"
            json.dump({"property": self.pid, "tier": self.tier, "seed": self.seed, "key": key, "layer": f.layer,
                       "what": f.what, "occurrences": len(fs), "input": f.replay,
                       "broken_obligations": [list(x) for x in self.l1_broken]}, open(path, "w"), indent=1, default=str)
            # a harness-error key means the correspondence itself could not be run on the current code (a wrapper or
            # recorder no longer fits): the property is no longer shown to hold, but no failing input was exhibited
            lines.append(f"VIOLATION property={self.pid} replay={path}" + (" no-failing-input-found" if "harness-error" in key else ""))
            nviol += 1
        if self.l1_broken and nviol == 0:
            path = f"{VERIF}/replays/{self.pid}/broken_obligation.json"
            json.dump({"property": self.pid, "tier": self.tier, "seed": self.seed,
                       "no_longer_checks": [{"theorem_or_file": a, "message": b} for a, b in self.l1_broken],
                       "searched": {"evaluations": self.evaluations, "distinct_nontrivial": len(self.nontrivial)},
                       "note": "a proof obligation or the model build no longer checks; the failing-input search found no concrete input"},
                      open(path, "w"), indent=1)
            lines.append(f"VIOLATION property={self.pid} replay={path} no-failing-input-found")
            nviol += 1
        cov = {
            "obligations": self.obligations, "discharged": self.discharged,
            "checker_cmd": "coqc -Q . GV " + " ".join(self.props_files) + " (after tools/build.sh: coq_makefile + make, full .vo)",
            "trusted_base": sorted(self.axioms) + [
                "Coq 8.16.1 kernel (vm_compute used in some table proofs; no native_compute)",
                "extraction with ExtrOcamlBasic only; OCaml 4.13 float driver ocaml/*.ml",
                "python harness /verif/harness, numpy/scikit-learn/scipy/POT as external oracles",
                "fail-closed translators /verif/translator (regenerated Gen/*.v)"],
            "theorems": self.theorems,
            "partial_or_refuted_statements": self.partial,
            "broken_obligations": [list(x) for x in self.l1_broken],
            "evaluations": self.evaluations, "distinct_nontrivial": len(self.nontrivial),
            "traces_validated_against_impl": self.traces,
            "rule": rule, "samples": self.samples or ["(none)"],
            "input_distribution": dict(self.dist),
            "model_calls": self._model.calls if self._model else 0,
            "known_findings": [k for k in seen_known], "notes": self.notes,
        }
        if getattr(self, "coqchk", None):
            cov["coqchk"] = self.coqchk
        cov.update(extra or {})
        ev = {"property_id": self.pid, "tier": self.tier, "seed": self.seed, "level": level,
              "coverage": cov, "wall_s": round(time.time() - self.t0, 2), "violations": nviol,
              "assumptions": ["theorems are about the Gallina model over R / nat / Z; the tie to /repo is the correspondence and the regenerated Gen/*.v",
                              "floating-point rounding is bounded empirically (tolerances), not proved"]}
        json.dump(ev, open(f"{VERIF}/evidence/{self.pid}.json", "w"), indent=1, default=str)
        for l in lines:
            print(l)
        print(f"[{self.pid}] tier={self.tier} seed={self.seed} obligations={self.obligations} discharged={self.discharged} "
              f"evaluations={self.evaluations} nontrivial={len(self.nontrivial)} failures={len(self.failures)} "
              f"violations={nviol} wall={ev['wall_s']}s")
        sys.exit(1 if nviol else 0)


def load_replay(path):
    return json.load(open(path))
