"""C06 — unselected features are inert; selection reads exact zeros; groups stay whole.

L1  Props/C06.v and Props/C06gen.v (the C06_regenerated_* theorems about Gen/SelectionRules.v, which translator/tr_selection.py rewrites from
    the current _update_weights / get_selection / _n_selected_features / _group_lasso_penalty / fit sources on every build).
L2  extracted Model/Selection.v against the implementation: _update_weights (operator chosen, threshold, matrices handed
    over, result, selection), the thresholds of a whole fit (Adam's current rate), get_selection / _n_selected_features
    on every snapshot of fits and paths, check_groups / groups_.
L3  the property itself on the implementation: result of _update_weights == library operator at alpha x optimiser rate,
    selection == rows with a non-zero entry, unselected columns replaced by random / 1e6 values leave predict_proba
    bit-for-bit unchanged, zero skip row => zero first-layer row (and the hierarchy bound), declared groups whole,
    groups_ a partition.
"""
import signal
import warnings
import numpy as np
from core import Check, enc_list, enc_opt, enc_mat, enc_vec, hx
import impl
import gemclus.sparse._linear_sparse as LS
import gemclus.sparse._mlp_sparse as MS
import gemclus.sparse._prox_grad as PG
import gemclus.sparse._base_sparse as BS

LINEAR = ["SparseLinearModel", "SparseLinearMMD", "SparseLinearMI"]
MLP = ["SparseMLPModel", "SparseMLPMMD"]
GENERIC = ["SparseLinearModel", "SparseMLPModel"]
ORIG = {k: getattr(PG, k) for k in ("linear_prox_grad", "group_linear_prox_grad", "mlp_prox_grad", "group_mlp_prox_grad")}


class Wall(Exception):
    pass


INSTR = {"on": True, "errors": []}      # instrumentation switch (off when a case is re-run to classify an exception)


def bound_values(orig, args, kwargs):
    """the call's arguments in the order of the original's parameters, however they were passed (positionally / by keyword)"""
    import inspect
    ba = inspect.signature(orig).bind(*args, **kwargs)
    ba.apply_defaults()
    return list(ba.arguments.values())


def recording(fn):
    """run harness-side recording code; an exception in it is a harness error, never a property violation, and never disturbs
    the implementation's own call"""
    try:
        fn()
    except Wall:
        raise
    except Exception as e:  # noqa
        import traceback
        INSTR["errors"].append(f"{type(e).__name__}: {e} | " + traceback.format_exc(limit=3).replace("\n", " / ")[-300:])


def _alarm(signum, frame):
    raise Wall()


# ------------------------------------------------------------------ encoding helpers
def enc_groups(gs):
    return enc_list(gs, lambda g: enc_list([int(i) for i in g]))


def enc_ogroups(gs):
    return "N" if gs is None else "S " + enc_groups(gs)


def jgroups(gs):
    return None if gs is None else [[int(i) for i in g] for g in gs]


def skip_of(est):
    return est.W_skip_ if hasattr(est, "W_skip_") else est.W_


def close(a, b, tol=1e-10):
    return abs(a - b) <= tol * (1 + abs(a) + abs(b))


# ------------------------------------------------------------------ recording the calls to the proximal operators
class Spy:
    """Wrap the operator names the estimator modules call; each call is logged with the attributes the code reads."""

    def __init__(self, est):
        self.est, self.log, self.saved = est, [], []

    def _wrap(self, mod, name, kind, grouped):
        if not INSTR["on"] or not hasattr(mod, name):
            return
        orig = getattr(mod, name)
        spy = self
        ntail = 1 if kind == "lin" else 2

        def w(*args, **kwargs):
            def rec():
                a = bound_values(orig, args, kwargs)
                gs, mats, rest = (a[0], a[1:-ntail], a[-ntail:]) if grouped else (None, a[:-ntail], a[-ntail:])
                e = spy.est
                spy.log.append({"grouped": grouped, "groups": jgroups(gs), "thr": float(rest[0]), "M": float(rest[1]) if len(rest) > 1 else None,
                                "mats": [np.array(m, copy=True) for m in mats], "alpha": float(e.alpha),
                                "lr": float(e.optimiser_.learning_rate), "t": getattr(e.optimiser_, "t", None)})
            recording(rec)
            return orig(*args, **kwargs)
        self.saved.append((mod, name, orig))
        setattr(mod, name, w)

    def __enter__(self):
        self._wrap(LS, "linear_prox_grad", "lin", False)
        self._wrap(LS, "group_linear_prox_grad", "lin", True)
        self._wrap(MS, "mlp_prox_grad", "mlp", False)
        self._wrap(MS, "group_mlp_prox_grad", "mlp", True)
        return self

    def __exit__(self, *exc):
        for mod, name, orig in self.saved:
            setattr(mod, name, orig)
        return False


# ------------------------------------------------------------------ case generation
def gen_groups(rng, d, allow_none=True):
    """None, a full random partition, or a partial list (completed with singletons by check_groups)."""
    r = rng.random()
    if allow_none and r < 0.3:
        return None, "none"
    perm = rng.permutation(d).tolist()
    if r < 0.6:
        kind = "partition"
        pool = perm
    else:
        kind = "partial"
        pool = perm[:int(rng.integers(0, d + 1))]
    gs, i = [], 0
    while i < len(pool):
        s = int(rng.integers(1, 4))
        gs.append(pool[i:i + s])
        i += s
    if kind == "partial" and rng.random() < 0.2:
        gs.append([])
    return gs, kind


def gen_gemini(rng, name, n):
    """gemini argument (generic estimators), or kernel/ovo keywords (MMD estimators); y = precomputed affinity or None."""
    kw, y, label = {}, None, ""
    if name in GENERIC:
        if rng.random() < 0.2:
            kw["gemini"] = impl.G.MMDGEMINI(kernel="precomputed", ovo=bool(rng.integers(0, 2)))
            Z = rng.normal(size=(n, 3))
            y = Z @ Z.T
            label = "mmd-precomputed"
        else:
            g = impl.GEMINI_NAMES[int(rng.integers(0, len(impl.GEMINI_NAMES)))]
            kw["gemini"] = g
            label = g
    elif name.endswith("MMD"):
        kw["ovo"] = bool(rng.integers(0, 2))
        kw["kernel"] = str(rng.choice(["linear", "rbf"]))
        label = f"mmd-{kw['kernel']}-{'ovo' if kw['ovo'] else 'ova'}"
    else:
        label = "mi"
    return kw, y, label


def gen_case(rng, i, names=None, small=False):
    names = names or impl.SPARSE
    name = names[i % len(names)]
    n = int(rng.integers(4, 13 if small else 25))
    d = int(rng.integers(1, 7 if small else 9))
    K = int(rng.integers(2, 5))
    K = min(K, n)
    gs, gkind = gen_groups(rng, d)
    gem_kw, y, glabel = gen_gemini(rng, name, n)
    case = {"estimator": name, "n": n, "d": d, "K": K, "h": int(rng.integers(1, 7)), "groups": gs, "gkind": gkind,
            "alpha": float(rng.choice([0.0, 0.05, 1.0, 5.0, 20.0, 50.0, 200.0])), "M": float(rng.choice([0.0, 0.3, 2.0, 10.0])),
            "lr": float(rng.choice([1e-3, 1e-2, 5e-2])), "solver": str(rng.choice(["adam", "sgd"])),
            "batch_size": None if rng.random() < 0.4 else int(rng.integers(1, n + 1)),
            "dynamic": bool(rng.integers(0, 2)), "max_iter": int(rng.integers(1, 13)), "seed": int(rng.integers(0, 10 ** 6)),
            "gemini": glabel, "data_seed": int(rng.integers(0, 2 ** 31 - 1))}
    if rng.random() < 0.5:
        # aim at a total shrinkage (alpha x rate x number of steps) comparable to the initial row norms: some rows die, some survive
        case["max_iter"] = int(rng.integers(5, 31))
        steps = case["max_iter"] * -(-n // (case["batch_size"] or n))
        case["alpha"] = float(np.round(rng.uniform(0.1, 1.0) / (case["lr"] * steps), 3))
    return case, gem_kw, y


def data_of(case):
    """Blobs; in two thirds of the cases only the first half of the features carries the clusters and the others are
    low-variance noise, so that a fit with a moderate alpha keeps some features and drops others."""
    r = np.random.default_rng(case["data_seed"])
    X = impl.blobs(r, case["n"], case["d"], k=case["K"], scale=float(r.choice([0.5, 1.0, 3.0])))
    if r.random() < 0.67 and case["d"] >= 2:
        m = (case["d"] + 1) // 2
        X[:, m:] = r.normal(size=(case["n"], case["d"] - m)) * 0.2
    return X


def build(case, gem_kw):
    return impl.make(case["estimator"], n_clusters=case["K"], groups=case["groups"], max_iter=case["max_iter"],
                     learning_rate=case["lr"], alpha=case["alpha"], M=case["M"], n_hidden_dim=case["h"], solver=case["solver"],
                     batch_size=case["batch_size"], dynamic=case["dynamic"], random_state=case["seed"], **gem_kw)


# ------------------------------------------------------------------ L2: selection of a weight snapshot against the model
def check_selection(chk, key, est, replay, injected_tiny=False):
    """get_selection / _n_selected_features / _group_lasso_penalty vs the extracted model on the current weights,
    and (L3) selection == rows holding a non-zero entry."""
    W = np.array(skip_of(est), copy=True)
    sel = [int(j) for j in est.get_selection()]
    nsel = int(est._n_selected_features())
    pen = float(est._group_lasso_penalty())
    t = chk.ask("c06.selection " + enc_mat(W))
    msel = t.list(t.int)
    mn = t.int()
    mpen = t.float()
    ok = True
    if np.isnan(W).any():
        chk.dist["nan-weights"] += 1
        return sel, False
    if sel != msel or nsel != mn:
        chk.fail(key + ":selection-model", f"get_selection={sel} n_selected={nsel}, model selection={msel} n={mn}", dict(replay, W=W.tolist()))
        ok = False
    if not close(pen, mpen):
        chk.fail(key + ":penalty-model", f"_group_lasso_penalty={pen}, model {mpen}", dict(replay, W=W.tolist()))
        ok = False
    nz = [j for j in range(W.shape[0]) if np.any(W[j] != 0)]
    if injected_tiny and sel != nz:
        # the float gap of `norm = 0 <-> row = 0` (squares of entries below 1e-162 underflow): only on rows the harness
        # injected itself; the float model must agree with the implementation (checked above), the gap is counted
        gap = [j for j in nz if j not in sel and np.abs(W[j]).max() < 1e-150]
        chk.dist["float-gap:non-zero row with zero norm"] += len(gap)
        nz = [j for j in nz if j not in gap]
    if sel != nz or nsel != len(nz):
        chk.fail(key + ":selection-nonzero-rows", f"get_selection={sel} (n={nsel}) but the rows with a non-zero entry are {nz}", dict(replay, W=W.tolist()), layer="L3")
        ok = False
    return sel, ok


# ------------------------------------------------------------------ L3 oracles on a fitted state
def check_hierarchy(chk, key, est, replay):
    """sparse MLP: zero skip row (group) => zero first-layer rows; |W1[j,c]| <= M * ||W_skip[group of j]||."""
    if not hasattr(est, "W_skip_"):
        return
    V, U, M = est.W_skip_, est.W1_, float(est.M)
    if np.isnan(V).any() or np.isnan(U).any():
        return
    groups = est.groups_ if est.groups_ is not None else [[j] for j in range(V.shape[0])]
    for g in groups:
        g = [int(j) for j in g]
        if not g:
            continue
        nv = float(np.linalg.norm(V[g]))
        mu = float(np.abs(U[g]).max()) if U[g].size else 0.0
        if nv == 0 and mu != 0:
            chk.fail(key + ":hierarchy-zero", f"skip rows of group {g} are zero but first-layer rows are not (max |W1|={mu})",
                     dict(replay, group=g), layer="L3")
        elif mu > M * nv * (1 + 1e-9) + 1e-300:
            chk.fail(key + ":hierarchy-bound", f"group {g}: max |W1|={mu} exceeds M*||W_skip||={M * nv}", dict(replay, group=g), layer="L3")


def check_groups_whole(chk, key, est, replay, X=None):
    """every declared group is selected as a whole or discarded as a whole; returns True when some group of >= 2 features exists.
    A split whose discarded members are all all-zero columns of the training data is the known guarded-out case of
    C06_group_whole (their rows have gradient exactly 0 and never regrow after the group was zeroed): stable key
    fit:group-split:zero-column.  Any other split is reported under <key>:group-split."""
    if est.groups_ is None:
        return False
    sel = set(int(j) for j in est.get_selection())
    multi = False
    for g in est.groups_:
        g = [int(j) for j in g]
        if len(g) >= 2:
            multi = True
        ins = [j in sel for j in g]
        if any(ins) and not all(ins):
            dropped = [j for j in g if j not in sel]
            if X is not None and all(not np.any(X[:, j]) for j in dropped):
                chk.fail("fit:group-split:zero-column", f"group {g} is split: selected {[j for j in g if j in sel]}, discarded {dropped} (all-zero columns of X)",
                         dict(replay, group=g), layer="L3")
            else:
                chk.fail(key + ":group-split", f"group {g} is split: selected {[j for j in g if j in sel]}", dict(replay, group=g), layer="L3")
    return multi


def check_inert(chk, key, est, X, rng, replay):
    """replace each unselected column by random and by huge values: predict_proba must not change by one bit.
    Returns (#unselected, #selected features whose perturbation changed the prediction)."""
    n, d = X.shape
    sel = set(int(j) for j in est.get_selection())
    base = est.predict_proba(X)
    if np.isnan(base).any():
        chk.dist["nan-prediction"] += 1
        return 0, 0
    unsel = [j for j in range(d) if j not in sel]
    for j in unsel:
        for mode in ("random", "huge"):
            X2 = X.copy()
            X2[:, j] = rng.normal(size=n) * 3 if mode == "random" else 1e6 * rng.choice([-1.0, 1.0], size=n) * rng.uniform(0.5, 1.0, size=n)
            p = est.predict_proba(X2)
            if not np.array_equal(p, base):
                chk.fail(key + ":not-inert", f"feature {j} is not in get_selection()={sorted(sel)} but replacing its column ({mode}) changes predict_proba by {float(np.abs(p - base).max())}",
                         dict(replay, feature=j, mode=mode), layer="L3")
                break
    if len(unsel) >= 2:       # all unselected columns at once
        X2 = X.copy()
        X2[:, unsel] = 1e6 * rng.normal(size=(n, len(unsel)))
        if not np.array_equal(est.predict_proba(X2), base):
            chk.fail(key + ":not-inert", f"replacing all unselected columns {unsel} at once changes predict_proba", dict(replay, features=unsel), layer="L3")
    moved = 0
    for j in sorted(sel):
        X2 = X.copy()
        X2[:, j] = 1e6 * rng.choice([-1.0, 1.0], size=n) * rng.uniform(0.5, 1.0, size=n)
        if not np.array_equal(est.predict_proba(X2), base):
            moved += 1
    return len(unsel), moved


def check_groups_attr(chk, key, est, case, replay):
    """groups_ vs the model's fit_groups, and (L3) groups_ is the declared list followed by singletons, a partition of [0,d)."""
    d = case["d"]
    t = chk.ask(f"c06.fit_groups {d} {enc_ogroups(case['groups'])}")
    exp = "ValueError" if t.next() == "N" else t.opt(lambda: t.list(lambda: t.list(t.int)))
    got = jgroups(est.groups_)
    if exp != got:
        chk.fail(key + ":groups-model", f"groups_={got}, model {exp}", replay)
    if case["groups"] is None:
        if got is not None:
            chk.fail(key + ":groups-none", "groups=None but groups_ is not None", replay, layer="L3")
        return
    flat = [j for g in got for j in g]
    decl = jgroups(case["groups"])
    tail = got[len(decl):]
    if got[:len(decl)] != decl or sorted(flat) != list(range(d)) or any(len(g) != 1 for g in tail) or [g[0] for g in tail] != sorted(g[0] for g in tail):
        chk.fail(key + ":groups-partition", f"groups_={got} is not the declared list {decl} completed with increasing singletons into a partition of range({d})", replay, layer="L3")


def state_checks(chk, key, est, X, case, rng, replay, inert=True):
    """all the checks that apply to any state of a fit / path history after at least one update."""
    sel, ok = check_selection(chk, key, est, replay)
    check_hierarchy(chk, key, est, replay)
    multi = check_groups_whole(chk, key, est, replay, X)
    nun, moved = (0, 0)
    if inert:
        nun, moved = check_inert(chk, key, est, X, rng, replay)
    return sel, nun, moved, multi


# ------------------------------------------------------------------ stream 1: _update_weights
def stream_update(chk, i, rng):
    case, gem_kw, y = gen_case(rng, i, small=True)
    case["max_iter"] = int(rng.integers(1, 4))
    mode = ["identity", "real"][(i // len(impl.SPARSE)) % 2]
    X = data_of(case)
    est = build(case, gem_kw)
    est.set_params(alpha=0.0 if rng.random() < 0.5 else case["alpha"])
    est.fit(X, y)                      # initialises weights, optimiser_ (with some steps made), groups_
    alpha = float(rng.choice([0.0, 0.5, 3.0, 20.0, 100.0, 1000.0]))
    if alpha == 0 and hasattr(est, "W_skip_") and len(est.get_selection()) < case["d"]:
        alpha = 0.5     # sparse MLP, alpha = 0 on an already zero skip row computes 0/0 (C05/C17's guarded-out case; not reachable by fit/path)
    est.alpha = alpha
    replay = dict(case, mode=mode, update_alpha=alpha)
    weights = est._get_weights()
    grads = [rng.normal(size=w.shape) * float(rng.choice([0.1, 1.0, 10.0])) for w in weights]
    edge = None
    is_mlp0 = hasattr(est, "W_skip_")
    if rng.random() < 0.15 and case["d"] >= 2 and mode == "identity" and not (is_mlp0 and alpha == 0):
        # a skip row that is already exactly zero (stays zero: common factor), or (linear) one whose squares underflow.
        # (sparse MLP with alpha = 0 and a zero skip row computes 0/0: C05/C17's guarded-out case, not generated here)
        edge = "zero-row" if (is_mlp0 or rng.random() < 0.6) else "tiny-row"
        j0 = int(rng.integers(0, case["d"]))
        skip_of(est)[j0] = 0.0 if edge == "zero-row" else 1e-170
        if is_mlp0:
            est.W1_[j0] = 0.0
        replay["edge"] = (edge, j0)
    stepped = {}
    opt = est.optimiser_
    orig_up = opt.update_params

    def patched(*args, **kwargs):
        if mode == "real":
            orig_up(*args, **kwargs)

        def rec():
            # `weights` (closure) are the arrays the estimator trains in place, whatever names the call used
            stepped["w"] = [np.array(p, copy=True) for p in weights]
            stepped["lr"] = float(opt.learning_rate)
        recording(rec)
    if not INSTR["on"]:
        est._update_weights(weights, grads)       # classification re-run: only whether the implementation itself raises
        return
    opt.update_params = patched
    try:
        with Spy(est) as spy:
            est._update_weights(weights, grads)
    finally:
        del opt.update_params
    chk.dist[f"update:{mode}"] += 1
    chk.dist["update:groups=" + case["gkind"]] += 1
    if edge:
        chk.dist["update:" + edge] += 1
    if "w" not in stepped and INSTR["errors"]:
        return                          # the recording itself failed: reported as a harness error by the case guard
    if "w" not in stepped:
        chk.fail("update:no-step", "_update_weights did not call optimiser_.update_params", replay, layer="L3")
        return
    lr_post = float(est.optimiser_.learning_rate)
    thr = alpha * lr_post
    is_mlp = hasattr(est, "W_skip_")
    gs = est.groups_
    # ---- L3 / oracle: the result is the library operator applied to the stepped matrices at alpha x current rate
    if is_mlp:
        sW1, sW2, sV, sb1, sb2 = stepped["w"]
        eV, eU = (ORIG["mlp_prox_grad"](sV, sW1, thr, est.M) if gs is None else ORIG["group_mlp_prox_grad"](gs, sV, sW1, thr, est.M))
        same = np.array_equal(est.W_skip_, eV, equal_nan=True) and np.array_equal(est.W1_, eU, equal_nan=True)
        untouched = np.array_equal(est.W2_, sW2) and np.array_equal(est.b1_, sb1) and np.array_equal(est.b2_, sb2)
    else:
        sW, sb = stepped["w"]
        eW = ORIG["linear_prox_grad"](sW, thr) if gs is None else ORIG["group_linear_prox_grad"](gs, sW, thr)
        same = np.array_equal(est.W_, eW, equal_nan=True)
        untouched = np.array_equal(est.b_, sb)
    if not same:
        chk.fail("update:not-prox-of-step", f"_update_weights result differs from the library operator applied to the stepped weights with threshold alpha*optimiser.learning_rate={thr}",
                 dict(replay, lr=lr_post), layer="L3")
    if not untouched:
        chk.fail("update:other-weights", "_update_weights changed parameters other than the penalised matrices after the optimiser step", replay, layer="L3")
    # ---- L3: what the threshold means, independently of the library operator: a group whose stepped norm (plus, for the
    # sparse MLP, M x the l1 mass of its first-layer rows) is below alpha x rate is zeroed exactly; one whose stepped skip
    # norm is above it survives
    for g in (gs if gs is not None else [[j] for j in range(case["d"])]):
        g = [int(j) for j in g]
        if not g:
            continue
        if is_mlp:
            nv, slack, res = float(np.linalg.norm(sV[g])), float(est.M) * float(np.abs(sW1[g]).sum()), est.W_skip_[g]
        else:
            nv, slack, res = float(np.linalg.norm(sW[g])), 0.0, est.W_[g]
        if not np.isfinite(nv + slack) or np.isnan(res).any():
            continue
        if nv + slack < thr * (1 - 1e-9) and np.any(res != 0):
            chk.fail("update:threshold-semantics", f"group {g}: stepped norm {nv} (+{slack}) is below alpha*rate={thr} but the group was not zeroed", dict(replay, group=g, lr=lr_post), layer="L3")
        if nv > thr * (1 + 1e-9) and nv > 1e-100 and not np.any(res != 0):
            chk.fail("update:threshold-semantics", f"group {g}: stepped norm {nv} is above alpha*rate={thr} but the group was zeroed", dict(replay, group=g, lr=lr_post), layer="L3")
    # ---- L2: the model's composition (operator chosen, threshold, matrices handed over, result, selection)
    if is_mlp:
        t = chk.ask(f"c06.update_mlp {hx(alpha)} {hx(est.M)} {hx(lr_post)} {enc_ogroups(jgroups(gs))} {enc_mat(sV)} {enc_mat(sW1)} {enc_mat(eV)} {enc_mat(eU)}")
        kind, mg, mthr, mM = t.int(), t.list(lambda: t.list(t.int)), t.float(), t.float()
        d, K, h = sV.shape[0], sV.shape[1], sW1.shape[1]
        t.floats(d * K + d * h + d * K + d * h)
        msel = t.list(t.int)
        if not t.bool():
            chk.fail("update:model-passthrough", "model changed W2/b1/b2", replay)
    else:
        t = chk.ask(f"c06.update_linear {hx(alpha)} {hx(lr_post)} {enc_ogroups(jgroups(gs))} {enc_mat(sW)} {enc_vec(sb.ravel())} {enc_mat(eW)}")
        kind, mg, mthr = t.int(), t.list(lambda: t.list(t.int)), t.float()
        mM = None
        d, K = sW.shape
        t.floats(d * K + d * K + K)
        msel = t.list(t.int)
    if len(spy.saved) == 4:            # the operator names are still module attributes: compare the recorded call
        if len(spy.log) != 1:
            chk.fail("update:operator-calls", f"_update_weights called {len(spy.log)} proximal operators, model 1", replay)
        else:
            c = spy.log[0]
            handed = [sV, sW1] if is_mlp else [sW]
            if int(c["grouped"]) != kind or (c["groups"] or []) != mg:
                chk.fail("update:operator-choice", f"implementation called the {'group' if c['grouped'] else 'plain'} operator with groups {c['groups']}, model kind={kind} groups={mg}", replay)
            if not close(c["thr"], mthr, 1e-12) or (is_mlp and c["M"] != mM):
                chk.fail("update:threshold", f"threshold handed to the operator: implementation {c['thr']} (alpha={alpha}, optimiser rate {lr_post}), model {mthr}", dict(replay, lr=lr_post))
            if not all(np.array_equal(a, b) for a, b in zip(c["mats"], handed)):
                chk.fail("update:operator-input", "the operator was not applied to the weights produced by the optimiser step", replay)
    else:
        chk.dist["update:operator-names-gone"] += 1
    if mode == "real" and case["solver"] == "adam":
        tt = int(est.optimiser_.t)
        t2 = chk.ask(f"c06.lr adam {hx(est.optimiser_.learning_rate_init)} {hx(est.optimiser_.beta_1)} {hx(est.optimiser_.beta_2)} {tt}")
        mlr = t2.float()
        if not close(mlr, lr_post):
            chk.fail("update:adam-rate", f"optimiser.learning_rate={lr_post} after {tt} steps, model {mlr}", replay)
    sel, ok = check_selection(chk, "update", est, replay, injected_tiny=(edge == "tiny-row"))
    if ok and sel != msel:
        chk.fail("update:selection-model", f"get_selection={sel}, model selection of the updated weights {msel}", replay)
    # ---- L3: hierarchy and wholeness after the update (rows handed over were non-zero unless the edge says otherwise)
    check_hierarchy(chk, "update", est, replay)
    if edge is None:
        check_groups_whole(chk, "update", est, replay, X)
    nun, _ = check_inert(chk, "update", est, X, rng, replay)
    if edge == "zero-row" and replay["edge"][1] in sel:
        chk.fail("update:zero-row-revived", "a row that was exactly zero before the proximal step is non-zero after it", replay, layer="L3")
    chk.dist[f"update:unselected={min(nun, 3)}{'+' if nun > 3 else ''}"] += 1
    chk.count(("update", case["estimator"], mode, case["gkind"], alpha, case["d"], nun) if (nun > 0 or gs is not None) else None)
    chk.sample({"stream": "update", "estimator": case["estimator"], "mode": mode, "alpha": alpha, "lr": lr_post, "threshold": thr,
                "groups_": jgroups(gs), "selection": sel, "d": case["d"]})


# ------------------------------------------------------------------ stream 2: whole fits
def stream_fit(chk, i, rng):
    case, gem_kw, y = gen_case(rng, i)
    X = data_of(case)
    est = build(case, gem_kw)
    replay = dict(case)
    with Spy(est) as spy:
        est.fit(X, y)
    key = "fit"
    check_groups_attr(chk, key, est, case, replay)
    check_calls_use_current_groups(chk, key, est, spy, replay)
    # thresholds of the whole history: alpha x the optimiser's rate after each step
    steps = len(spy.log)
    if len(spy.saved) == 4 and steps:
        o = est.optimiser_
        t = chk.ask(f"c06.thresholds {case['solver']} {hx(case['alpha'])} {hx(o.learning_rate_init)} {hx(getattr(o, 'beta_1', 0.0))} {hx(getattr(o, 'beta_2', 0.0))} {steps}")
        mth = t.list(t.float)
        got = [c["thr"] for c in spy.log]
        bad = [k for k in range(steps) if not close(got[k], mth[k])]
        if bad:
            k = bad[0]
            chk.fail("fit:threshold-trace", f"step {k + 1}: threshold {got[k]} handed to the operator, model alpha*rate={mth[k]} ({case['solver']})", replay)
        for k, c in enumerate(spy.log):
            if c["thr"] != c["alpha"] * c["lr"]:
                chk.fail("fit:threshold-attr", f"step {k + 1}: threshold {c['thr']} is not alpha*optimiser_.learning_rate={c['alpha'] * c['lr']}", replay, layer="L3")
                break
        per_epoch = -(-case["n"] // (case["batch_size"] or case["n"]))
        if steps != case["max_iter"] * per_epoch:
            chk.fail("fit:update-count", f"{steps} proximal steps for max_iter={case['max_iter']} x {per_epoch} batches", replay, layer="L3")
    sel, nun, moved, multi = state_checks(chk, key, est, X, case, rng, replay)
    chk.traces += 1
    chk.dist["fit:" + case["estimator"]] += 1
    chk.dist["fit:gemini=" + case["gemini"].split("_")[0]] += 1
    chk.dist[f"fit:unselected={'0' if nun == 0 else ('all' if nun == case['d'] else 'some')}"] += 1
    chk.dist["fit:groups=" + case["gkind"]] += 1
    if nun:
        chk.dist["fit:selected-features-moved-prediction"] += moved
    chk.count(("fit", case["estimator"], case["gemini"], case["solver"], case["gkind"], case["d"], case["alpha"], nun) if nun > 0 else None)
    chk.sample({"stream": "fit", "estimator": case["estimator"], "gemini": case["gemini"], "alpha": case["alpha"], "M": case["M"], "d": case["d"],
                "groups_": jgroups(est.groups_), "selection": sel, "unselected": nun})


# ------------------------------------------------------------------ stream 3: paths
WALL = {"hits": 0}


def stream_path(chk, i, rng):
    if WALL["hits"] >= 3:
        # three path() runs on tiny data did not finish within the wall limit (never on the unchanged tree): termination is
        # C07's subject; do not spend the whole budget here, the other streams decide
        chk.dist["path:skipped-after-wall-limits"] += 1
        chk.count(None)
        return
    case, gem_kw, y = gen_case(rng, i, small=True)
    case["alpha"] = float(rng.choice([0.3, 1.0, 5.0]))
    case["max_iter"] = int(rng.integers(2, 9))
    case["lr"] = float(rng.choice([1e-2, 5e-2]))
    case["M"] = float(rng.choice([0.3, 2.0, 10.0]))
    X = data_of(case)
    est = build(case, gem_kw)
    pkw = {"alpha_multiplier": float(rng.choice([1.5, 2.0, 3.0])), "min_features": int(rng.integers(0, max(1, case["d"]))) or 1,
           "max_patience": int(rng.integers(1, 4)), "restore_best_weights": bool(rng.random() < 0.7),
           "keep_threshold": float(rng.choice([0.5, 0.9]))}
    replay = dict(case, path=pkw)
    snaps = {"k": 0, "nontrivial": 0, "nun_max": 0}
    orig_cvs = BS.compute_val_score
    prng = np.random.default_rng(case["data_seed"] + 1)

    def rec_cvs(*args, **kwargs):
        # called after the initial fit, at the start of every outer step and after every epoch: a snapshot point.
        # The estimator is the one of the closure (path is running on it), whatever way the arguments are passed.
        def rec():
            snaps["k"] += 1
            if snaps["k"] <= 40 or snaps["k"] % 7 == 0:
                _, nun, _, _ = state_checks(chk, "path:step", est, X, case, prng, dict(replay, snapshot=snaps["k"]), inert=(snaps["k"] <= 25))
                snaps["nun_max"] = max(snaps["nun_max"], nun)
                if 0 < nun:
                    snaps["nontrivial"] += 1
        recording(rec)
        return orig_cvs(*args, **kwargs)
    if INSTR["on"]:
        BS.compute_val_score = rec_cvs
    signal.signal(signal.SIGALRM, _alarm)
    signal.alarm(10)
    timed_out = False
    try:
        with Spy(est) as spy, warnings.catch_warnings():
            warnings.simplefilter("ignore")
            res = est.path(X, y, **pkw)
    except Wall:
        timed_out = True
    finally:
        signal.alarm(0)
        BS.compute_val_score = orig_cvs
    if timed_out:
        WALL["hits"] += 1
        chk.dist["path:wall-limit"] += 1
        chk.count(None)
        return
    best_weights, geminis, pens, alphas, nfeat = res
    for k, c in enumerate(spy.log):
        if c["thr"] != c["alpha"] * c["lr"]:
            chk.fail("path:threshold-attr", f"proximal call {k + 1}: threshold {c['thr']} is not alpha*optimiser_.learning_rate={c['alpha'] * c['lr']}", replay, layer="L3")
            break
    check_groups_attr(chk, "path", est, case, replay)
    # after the path (weights restored or not): same checks
    sel, nun, moved, multi = state_checks(chk, "path:end", est, X, case, rng, replay)
    # the returned best weights, loaded into the estimator, are a state of the history too
    if pkw["restore_best_weights"] and not case["dynamic"]:
        cur = est._get_weights()
        if not all(np.array_equal(a, b) for a, b in zip(cur, best_weights)):
            chk.fail("path:restored", "after restore_best_weights the estimator's weights are not the returned best weights", replay, layer="L3")
    else:
        for a, b in zip(est._get_weights(), best_weights):
            np.copyto(a, b)
        s2, n2, _, _ = state_checks(chk, "path:best", est, X, case, rng, replay)
        nun = max(nun, n2)
    if nfeat and nfeat[-1] != nfeat[-1]:
        pass
    chk.traces += 1
    chk.dist["path:" + case["estimator"]] += 1
    chk.dist["path:dynamic" if case["dynamic"] else "path:static"] += 1
    chk.dist["path:precomputed" if y is not None else "path:computed-affinity"] += 1
    chk.dist["path:snapshots"] += snaps["k"]
    chk.dist["path:snapshots-with-unselected"] += snaps["nontrivial"]
    chk.count(("path", case["estimator"], case["gemini"], case["gkind"], case["d"], case["dynamic"], y is not None, len(alphas))
              if (snaps["nontrivial"] or nun) else None)
    chk.sample({"stream": "path", "estimator": case["estimator"], "gemini": case["gemini"], "dynamic": case["dynamic"], "groups_": jgroups(est.groups_),
                "n_features_history": [int(v) for v in nfeat], "final_selection": sel})


# ------------------------------------------------------------------ stream 4: check_groups
def stream_groups(chk, i, rng):
    d = int(rng.integers(0, 7))
    r = rng.random()
    if r < 0.5:
        gs, kind = gen_groups(rng, max(d, 1), allow_none=False)
        gs = [[j for j in g if j < d] for g in gs] if d else []
    elif r < 0.75:     # duplicates / out-of-range indices
        kind = "malformed"
        m = int(rng.integers(1, 8))
        flat = rng.integers(0, d + 2, size=m).tolist()
        gs, k = [], 0
        while k < m:
            s = int(rng.integers(1, 4))
            gs.append(flat[k:k + s])
            k += s
    else:
        kind = "edge"
        gs = [[], [[]], [list(range(d))], [[j] for j in range(d)], [list(range(d))[::-1]], [[0], [0]], [[d]], [list(range(d)), []]][int(rng.integers(0, 8))]
    as_array = rng.random() < 0.3 and all(len(g) > 0 for g in gs)
    arg = [np.array(g, dtype=int) for g in gs] if as_array else [list(g) for g in gs]
    replay = {"d": d, "groups": gs, "arrays": as_array}
    try:
        got = BS.check_groups(arg, d)
        got = jgroups(got)
    except ValueError:
        got = "ValueError"
    t = chk.ask(f"c06.check_groups {d} {enc_groups(gs)}")
    exp = t.opt(lambda: t.list(lambda: t.list(t.int)))
    exp = "ValueError" if exp is None else exp
    if got != exp:
        chk.fail("check_groups:model-mismatch", f"check_groups({gs}, {d}) = {got}, model {exp}", replay)
    flat = [j for g in gs for j in g]
    valid = all(0 <= j < d for j in flat) and len(set(flat)) == len(flat)
    if valid:
        want = [list(g) for g in gs] + [[j] for j in range(d) if j not in flat]
        if got != want:
            chk.fail("check_groups:completion", f"valid list {gs} (d={d}) -> {got}, expected completion with singletons {want}", replay, layer="L3")
        elif sorted(j for g in got for j in g) != list(range(d)):
            chk.fail("check_groups:partition", f"result {got} is not a partition of range({d})", replay, layer="L3")
    elif got != "ValueError":
        chk.fail("check_groups:accepted-invalid", f"list {gs} with a duplicate or out-of-range index (d={d}) was accepted: {got}", replay, layer="L3")
    chk.dist["groups:" + kind] += 1
    chk.dist["groups:" + ("accepted" if got != "ValueError" else "rejected")] += 1
    chk.count(("groups", d, tuple(tuple(g) for g in gs)) if (valid and len(flat) < d) or not valid else None)


# ------------------------------------------------------------------ stream 6: one estimator object, refitted with other groups
def check_calls_use_current_groups(chk, key, est, spy, replay):
    """every recorded proximal call of the fit/path just made must be the operator of the CURRENT groups_ (plain when it is
    None, the group operator on exactly that partition otherwise) with threshold alpha x current optimiser rate."""
    if len(spy.saved) != 4:
        return
    cur = jgroups(est.groups_)
    for k, c in enumerate(spy.log):
        if (cur is None) != (not c["grouped"]) or (cur is not None and c["groups"] != cur):
            chk.fail(key + ":operator-groups", f"proximal call {k + 1} used {'the plain operator' if not c['grouped'] else 'the groups ' + str(c['groups'])} "
                     f"but groups_ of this fit is {cur} (the model hands groups_ to the operator)", replay)
            break
    for k, c in enumerate(spy.log):
        if c["thr"] != c["alpha"] * c["lr"]:
            chk.fail(key + ":threshold-attr", f"proximal call {k + 1}: threshold {c['thr']} is not alpha*optimiser_.learning_rate={c['alpha'] * c['lr']}", replay, layer="L3")
            break


def stream_refit(chk, i, rng):
    """fit/path with groups G1, set_params(groups=G2) (another partition, None <-> groups, possibly data with another number of
    features), fit/path again on the SAME object: the second history must satisfy everything with respect to the current groups_,
    and end in the weights a fresh estimator reaches."""
    case, gem_kw, y = gen_case(rng, i, small=True)
    if y is not None:                 # keep the affinity computed: the data may change between the two fits
        gem_kw, y, case["gemini"] = {"gemini": "mmd_ova"}, None, "mmd_ova"
    case["d"] = max(case["d"], 2)
    case["max_iter"] = int(rng.integers(3, 13))
    mode1, mode2 = str(rng.choice(["fit", "path"], p=[0.7, 0.3])), str(rng.choice(["fit", "path"], p=[0.7, 0.3]))
    kinds = ["groups->groups", "groups->groups", "groups->groups", "none->groups", "groups->none"]
    kind = kinds[i % len(kinds)]
    d1 = case["d"]
    d2 = d1 if rng.random() < 0.7 else int(rng.integers(2, 8))
    g1 = None if kind == "none->groups" else gen_groups(rng, d1, allow_none=False)[0]
    g2 = None if kind == "groups->none" else gen_groups(rng, d2, allow_none=False)[0]
    case1 = dict(case, groups=g1)
    case2 = dict(case, groups=g2, d=d2, data_seed=case["data_seed"] + (0 if d2 == d1 else 7))
    X1, X2 = data_of(case1), data_of(case2)
    pkw = {"alpha_multiplier": 2.0, "min_features": 1, "max_patience": 2, "restore_best_weights": bool(rng.random() < 0.5)}
    if mode1 == "path" or mode2 == "path":
        case1["alpha"] = case2["alpha"] = float(rng.choice([0.3, 1.0, 5.0]))
    replay = {"first": dict(case1, mode=mode1), "second": dict(case2, mode=mode2), "path": pkw, "kind": kind}
    est = build(case1, gem_kw)

    def run(mode, X):
        signal.signal(signal.SIGALRM, _alarm)
        signal.alarm(10)
        try:
            with warnings.catch_warnings():
                warnings.simplefilter("ignore")
                if mode == "fit":
                    est.fit(X)
                else:
                    est.path(X, **pkw)
            return True
        except Wall:
            return False
        finally:
            signal.alarm(0)
    if not run(mode1, X1):
        chk.dist["refit:wall-limit"] += 1
        chk.count(None)
        return
    gv = group_variants(g2, rng)
    g2lab, g2v = gv[int(rng.integers(0, len(gv)))]       # tuples / int32 / int64 / read-only arrays: same partition as the list spelling
    g2before, X2before = snapshot(g2v), snapshot(X2)
    est.set_params(groups=g2v)
    with Spy(est) as spy:
        ok = run(mode2, X2)
    if not (same_bits(g2before, g2v) and same_bits(X2before, X2)):
        chk.fail("refit:argument-modified", f"{mode2} modified the caller's groups object (given as {g2lab}) or X", replay, layer="L3")
    chk.dist["refit:groups-as=" + g2lab] += 1
    if not ok:
        chk.dist["refit:wall-limit"] += 1
        chk.count(None)
        return
    check_groups_attr(chk, "refit", est, case2, replay)
    check_calls_use_current_groups(chk, "refit", est, spy, replay)
    sel, nun, moved, multi = state_checks(chk, "refit", est, X2, case2, rng, replay)
    # history independence of the shrinkage: a fresh estimator with the same hyper-parameters reaches the same weights
    fresh = build(case2, gem_kw)
    fresh.set_params(**{k: v for k, v in est.get_params().items() if k not in ("gemini", "groups")})       # groups: the list spelling of build()
    signal.signal(signal.SIGALRM, _alarm)
    signal.alarm(10)
    try:
        with warnings.catch_warnings():
            warnings.simplefilter("ignore")
            fresh.fit(X2) if mode2 == "fit" else fresh.path(X2, **pkw)
        if not all(np.array_equal(a, b, equal_nan=True) for a, b in zip(est._get_weights(), fresh._get_weights())) \
                or jgroups(fresh.groups_) != jgroups(est.groups_):
            chk.fail("refit:differs-from-fresh", f"after {mode1} with groups {g1} and set_params(groups={g2}), {mode2} ends in other weights / groups_ than a fresh "
                     f"estimator (selection {sel} vs {[int(j) for j in fresh.get_selection()]})", replay, layer="L3")
    except Wall:
        chk.dist["refit:wall-limit"] += 1
    finally:
        signal.alarm(0)
    chk.traces += 1
    chk.dist["refit:" + kind] += 1
    chk.dist[f"refit:{mode1}->{mode2}"] += 1
    chk.dist["refit:same-d" if d1 == d2 else "refit:other-d"] += 1
    chk.count(("refit", case["estimator"], kind, mode1, mode2, d1, d2, nun) if (g1 is not None and g2 is not None and jgroups(g1) != jgroups(g2)) or nun else None)


# ------------------------------------------------------------------ stream 5: an all-zero column inside a declared group
def load_corpus():
    import os, json, glob
    return [json.load(open(f)) for f in sorted(glob.glob(os.path.join(os.path.dirname(os.path.dirname(os.path.abspath(__file__))), "corpus", "C06", "*.json")))]


def stream_zerocol(chk, i, rng):
    """Training data with an all-zero column (an unused one-hot level) inside a declared group: the guarded-out case of
    C06_group_whole.  Everything else (selection, inertness, hierarchy, groups_) must hold as usual; a split of that group
    is the known finding, any other split is not."""
    corpus = load_corpus()
    if i < len(corpus):
        c = corpus[i]
        X = np.array(c["X"], dtype=float)
        name, kw = c["estimator"], dict(c["params"])
        case = {"estimator": name, "d": X.shape[1], "groups": kw["groups"], "corpus": True}
    else:
        n, d, K = 30, int(rng.integers(3, 6)), 3
        cen = rng.normal(size=(K, d)) * 3
        X = cen[rng.integers(0, K, size=n)] + rng.normal(size=(n, d))
        X[:, 0] = 0.0
        mate = list(range(1, int(rng.integers(2, 4))))
        name = ["SparseLinearMI", "SparseLinearMMD", "SparseLinearModel", "SparseMLPMMD", "SparseMLPModel"][int(rng.integers(0, 5))]
        kw = dict(n_clusters=K, groups=[[0] + mate], alpha=float(rng.choice([1.0, 2.0, 5.0])), max_iter=int(rng.choice([40, 60])),
                  learning_rate=1e-2, solver=str(rng.choice(["sgd", "sgd", "adam"])), random_state=int(rng.integers(0, 100)),
                  n_hidden_dim=4, M=float(rng.choice([0.3, 2.0])))
        case = {"estimator": name, "d": d, "groups": kw["groups"], "corpus": False}
    est = impl.make(name, **kw)
    est.fit(X)
    replay = dict(case, params={k: v for k, v in kw.items()}, X=X.tolist())
    nfail = len(chk.failures)
    check_groups_attr(chk, "zerocol", est, case, replay)
    sel, nun, moved, multi = state_checks(chk, "zerocol", est, X, case, rng, replay)
    split = any(f.key == "fit:group-split:zero-column" for f in chk.failures[nfail:])
    chk.dist["zerocol:" + ("group split" if split else "group whole")] += 1
    chk.count(("zerocol", name, kw["alpha"], kw["solver"], tuple(sel)) if nun > 0 else None)


# ------------------------------------------------------------------ streams 7-9 (round-3 lessons): representations, corners, routes
import copy


def snapshot(obj):
    """deep copy of an argument, to compare bit for bit after the call"""
    if isinstance(obj, np.ndarray):
        return np.array(obj, copy=True, order="K")
    return copy.deepcopy(obj)


def same_bits(a, b):
    if isinstance(a, np.ndarray) or isinstance(b, np.ndarray):
        return isinstance(a, np.ndarray) and isinstance(b, np.ndarray) and a.dtype == b.dtype and a.shape == b.shape \
            and a.tobytes() == b.tobytes()
    if isinstance(a, (list, tuple)):
        return type(a) is type(b) and len(a) == len(b) and all(same_bits(x, y) for x, y in zip(a, b))
    return a == b


def array_variants(A, rng, integral, binary=False):
    """the same values as A (float64, C-contiguous) in other representations; every value is exactly representable"""
    A = np.ascontiguousarray(A, dtype=np.float64)
    big = np.zeros((2 * A.shape[0], A.shape[1]))
    big[::2] = A
    ro = A.copy()
    ro.setflags(write=False)
    rof = np.asfortranarray(A)
    rof.setflags(write=False)
    out = [("float32", A.astype(np.float32)), ("fortran", np.asfortranarray(A)), ("strided-rows", big[::2]),
           ("reversed-twice", A[:, ::-1].copy()[:, ::-1]), ("transposed-view", A.T.copy().T), ("read-only", ro),
           ("read-only-fortran", rof), ("list", A.tolist()), ("tuple", tuple(map(tuple, A.tolist())))]
    if integral:
        out += [("int64", A.astype(np.int64)), ("int32", A.astype(np.int32))]
    if binary:
        out += [("bool", A.astype(bool))]
    return out


def group_variants(gs, rng):
    if gs is None:
        return [("none", None)]
    def ro(g):
        a = np.array(g, dtype=np.int64)
        a.setflags(write=False)
        return a
    return [("lists", [list(g) for g in gs]), ("int32-arrays", [np.array(g, dtype=np.int32) for g in gs]),
            ("int64-arrays", [np.array(g, dtype=np.int64) for g in gs]), ("tuples", [tuple(g) for g in gs]),
            ("read-only-arrays", [ro(g) for g in gs])]


def close_arrays(a, b, tol=1e-9):
    a, b = np.asarray(a, dtype=float), np.asarray(b, dtype=float)
    return a.shape == b.shape and bool(np.all(np.abs(a - b) <= tol * (1 + np.abs(a) + np.abs(b)) + 0 * a) or np.array_equal(a, b, equal_nan=True))


def labels_agree(p_ref, lab_ref, lab):
    """labels equal wherever the reference's best two probabilities are clearly apart"""
    lab_ref, lab = np.asarray(lab_ref), np.asarray(lab)
    if lab_ref.shape != lab.shape:
        return False
    if p_ref.shape[1] == 1:
        return bool(np.array_equal(lab_ref, lab))
    srt = np.sort(p_ref, axis=1)
    clear = (srt[:, -1] - srt[:, -2]) > 1e-6
    return bool(np.array_equal(lab_ref[clear], lab[clear]))


def exact_grid(rng, n, d, K, integral, binary=False):
    X = impl.blobs(rng, n, d, k=K, scale=1.0)
    if binary:
        return (X > np.median(X, axis=0)).astype(float)
    return np.round(X) if integral else np.round(X * 8) / 8


def run_alarmed(fn, limit=10):
    signal.signal(signal.SIGALRM, _alarm)
    signal.alarm(limit)
    try:
        with warnings.catch_warnings():
            warnings.simplefilter("ignore")
            return True, fn()
    except Wall:
        return False, None
    finally:
        signal.alarm(0)


OBSERVED = {}


def observe(chk, tag, text):
    """a corner where the UNCHANGED tree deviates: reported to the coordinator, recorded (not failed) until a disposition exists"""
    chk.dist["observation:" + tag] += 1
    if tag not in OBSERVED:
        OBSERVED[tag] = text
        chk.notes.append(f"observation [{tag}]: {text}")


def stream_repr(chk, i, rng):
    """metamorphic: the same values in another representation (dtype, memory order, view, read-only, list/tuple; groups as
    arrays / tuples; precomputed affinity likewise) give the same fit / path / predictions, raise nothing new, and leave the
    caller's objects unchanged bit for bit."""
    name = impl.SPARSE[i % len(impl.SPARSE)]
    n, d, K = int(rng.integers(6, 15)), int(rng.integers(2, 6)), int(rng.integers(2, 4))
    integral = bool(rng.random() < 0.5)
    binary = integral and rng.random() < 0.25
    X = exact_grid(rng, n, d, K, integral, binary)
    gs, gkind = gen_groups(rng, d)
    mode = "path" if rng.random() < 0.35 else "fit"
    gem_kw, y = {}, None
    if name in GENERIC:
        if rng.random() < 0.35:
            Z = np.round(rng.normal(size=(n, 2)) * 4) / 4
            y = Z @ Z.T
            gem_kw["gemini"] = impl.G.MMDGEMINI(kernel="precomputed")
        else:
            gem_kw["gemini"] = str(rng.choice(["mmd_ova", "kl_ova", "tv_ovo", "wasserstein_ova", "mi", "hellinger_ova"]))
    params = dict(n_clusters=K, max_iter=int(rng.integers(2, 7)), learning_rate=float(rng.choice([1e-2, 5e-2])),
                  alpha=float(rng.choice([0.5, 2.0, 8.0])), M=float(rng.choice([0.3, 2.0])), n_hidden_dim=int(rng.integers(1, 5)),
                  solver=str(rng.choice(["adam", "sgd"])), batch_size=None if rng.random() < 0.5 else int(rng.integers(1, n + 3)),
                  dynamic=bool(rng.integers(0, 2)), random_state=int(rng.integers(0, 1000)))
    pkw = {"alpha_multiplier": 2.0, "min_features": 1, "max_patience": 2}
    replay = {"estimator": name, "n": n, "d": d, "K": K, "mode": mode, "groups": gs, "params": {k: v for k, v in params.items()},
              "gemini": str(gem_kw.get("gemini", "")), "precomputed": y is not None, "X": X.tolist()}

    def train(Xv, yv, gv):
        est = impl.make(name, groups=gv, **params, **gem_kw)
        res = est.fit(Xv, yv) if mode == "fit" else est.path(Xv, yv, **pkw)
        return est, res
    ok, out = run_alarmed(lambda: train(X, y, None if gs is None else [list(g) for g in gs]))
    if not ok:
        chk.dist["repr:wall-limit"] += 1
        chk.count(None)
        return
    ref, ref_res = out
    ref_w = [np.array(w, copy=True) for w in ref._get_weights()]
    ref_sel = [int(j) for j in ref.get_selection()]
    ref_p = ref.predict_proba(X)
    xv = array_variants(X, rng, integral, binary)
    yvs = [("same", y)] if y is None else [("same", y)] + array_variants(y, rng, False)
    gvs = group_variants(gs, rng)
    picks = [xv[int(k)] for k in rng.choice(len(xv), size=min(4, len(xv)), replace=False)]
    for lab, Xv in picks:
        ylab, yv = yvs[int(rng.integers(0, len(yvs)))]
        glab, gv = gvs[int(rng.integers(0, len(gvs)))]
        key = f"repr:{mode}"
        rp = dict(replay, X_as=lab, y_as=ylab, groups_as=glab)
        # corners where the unchanged tree deviates (reported; observations until a disposition exists)
        obs_tuple = False       # groups as tuples: fixed in /repo 1a7c87e (check_groups returns lists) -> a hard expectation like the arrays
        obs_afflist = ylab in ("list", "tuple") and mode == "path"        # compute_val_score slices y[j:j+bs][:, j:j+bs]
        # float32 X / affinity: path() keeps single precision (affinity, forward pass) and training amplifies the 1e-8 differences:
        # no comparison with the float64 reference, only the model's own state checks.  Exact integer dtypes through path
        # (no conversion to float64 there): 1e-6 relative.  Layout-only representations: tight.
        single = lab == "float32" or ylab == "float32"
        tol = 1e-6 if (lab in ("int64", "int32", "bool") and mode == "path") else 1e-9
        before = (snapshot(Xv), snapshot(yv), snapshot(gv))
        try:
            ok, out = run_alarmed(lambda: train(Xv, yv, gv))
        except Exception as e:  # noqa
            if obs_tuple:
                observe(chk, "groups-as-tuples", f"groups given as a list of tuples, e.g. {name}(groups=[(0, 1)]), are accepted (groups_ keeps the tuples) but "
                        f"W[g] then indexes multi-dimensionally: wrong rows are shrunk, other rows stay np.empty garbage; here {mode} raised {type(e).__name__}")
            elif obs_afflist and isinstance(e, TypeError):
                observe(chk, "path-affinity-as-list", f"{name}.path(X, y=<precomputed affinity as list/tuple of rows>) raises TypeError ({str(e)[:80]}) "
                        f"in compute_val_score while fit(X, y=<the same list>) succeeds")
            else:
                chk.fail(key + ":new-exception", f"{mode} on X as {lab}, affinity as {ylab}, groups as {glab} raises {type(e).__name__}: {str(e)[:150]} "
                         f"while the float64 C-contiguous call succeeds", rp, layer="L3")
            continue
        if not ok:
            if obs_tuple:
                observe(chk, "groups-as-tuples", f"groups given as a list of tuples, e.g. {name}(groups=[(0, 1)]): path did not terminate within the wall limit")
            chk.dist["repr:wall-limit"] += 1
            continue
        est, res = out
        if not (same_bits(before[0], Xv) and same_bits(before[1], yv) and same_bits(before[2], gv)):
            chk.fail(key + ":argument-modified", f"{mode} modified its arguments (X as {lab}, affinity as {ylab}, groups as {glab})", rp, layer="L3")
        if obs_tuple:
            if not all(close_arrays(a, b, tol) for a, b in zip(est._get_weights(), ref_w)):
                observe(chk, "groups-as-tuples", f"groups given as a list of tuples, e.g. {name}(groups=[(0, 1)]), are accepted (groups_ keeps the tuples) but W[g] then "
                        f"indexes multi-dimensionally: {mode} silently ends in other weights than with groups=[[0, 1]]")
            chk.dist["repr:groups=tuples"] += 1
            continue
        if single:
            ws = est._get_weights()
            if [np.shape(a) for a in ws] != [b.shape for b in ref_w] or not all(np.all(np.isfinite(a)) for a in ws):
                chk.fail(key + ":single-precision", f"{mode} on X as {lab} / affinity as {ylab}: weights of another shape than the reference's or not finite", rp, layer="L3")
            if jgroups(est.groups_) != jgroups(ref.groups_):
                chk.fail(key + ":groups_", f"groups_ {jgroups(est.groups_)} differs from the reference's {jgroups(ref.groups_)} (groups as {glab})", rp, layer="L3")
            check_selection(chk, key, est, rp)
            check_hierarchy(chk, key, est, rp)
            check_groups_whole(chk, key, est, rp, X)
            check_inert(chk, key, est, X, rng, rp)
            chk.dist["repr:X=" + lab] += 1
            chk.dist["repr:single-precision (state checks only)"] += 1
            continue
        if not all(close_arrays(a, b, tol) for a, b in zip(est._get_weights(), ref_w)):
            chk.fail(key + ":weights", f"{mode} on X as {lab} / affinity as {ylab} / groups as {glab} ends in other weights than on the float64 C-contiguous "
                     f"reference (max diff {max(float(np.abs(np.asarray(a) - b).max()) for a, b in zip(est._get_weights(), ref_w))})", rp, layer="L3")
        elif [int(j) for j in est.get_selection()] != ref_sel:
            diff = set(ref_sel) ^ set(int(j) for j in est.get_selection())
            if any(max(np.linalg.norm(skip_of(est)[j]), np.linalg.norm(skip_of(ref)[j])) > 1e3 * tol for j in diff):
                chk.fail(key + ":selection", f"get_selection differs: {[int(j) for j in est.get_selection()]} vs reference {ref_sel}", rp, layer="L3")
        if jgroups(est.groups_) != jgroups(ref.groups_):
            chk.fail(key + ":groups_", f"groups_ {jgroups(est.groups_)} differs from the reference's {jgroups(ref.groups_)} (groups as {glab})", rp, layer="L3")
        if mode == "path" and ([int(v) for v in res[4]] != [int(v) for v in ref_res[4]] or not close_arrays(res[3], ref_res[3], tol)):
            chk.fail(key + ":history", f"path history differs: n_features {res[4]} vs {ref_res[4]}", rp, layer="L3")
        if not labels_agree(ref_p, ref.labels_, est.labels_):
            chk.fail(key + ":labels", "labels_ differ from the reference's on clearly separated samples", rp, layer="L3")
        check_selection(chk, key, est, rp)
        check_groups_whole(chk, key, est, rp, X)
        chk.dist["repr:X=" + lab] += 1
        if glab not in ("none", "lists"):
            chk.dist["repr:groups=" + glab] += 1
        if ylab != "same":
            chk.dist["repr:affinity=" + ylab] += 1
    # predict-type calls of the reference model on the query in other representations
    yq = y
    sc_ref = float(ref.score(X, yq))
    for lab, Xv in xv:
        rp = dict(replay, X_as=lab, call="predict")
        before = snapshot(Xv)
        try:
            p = ref.predict_proba(Xv)
            lb = ref.predict(Xv)
            sc = float(ref.score(Xv, yq))
        except Exception as e:  # noqa
            chk.fail("repr:predict:new-exception", f"predict_proba/predict/score on X as {lab} raises {type(e).__name__}: {str(e)[:150]}", rp, layer="L3")
            continue
        if not same_bits(before, Xv):
            chk.fail("repr:predict:argument-modified", f"a predict-type call modified X (as {lab})", rp, layer="L3")
        ptol = 1e-12 if lab not in ("float32", "int64", "int32", "bool") else 1e-6
        if lab == "float32":           # score computes its kernel in single precision: finite only
            bad_score = not np.isfinite(sc) and np.isfinite(sc_ref)
        else:
            bad_score = not close(sc, sc_ref, 1e-6 if ptol == 1e-6 else 1e-9)
        if not close_arrays(p, ref_p, ptol) or not labels_agree(ref_p, ref.predict(X), lb) or bad_score:
            chk.fail("repr:predict:value", f"predict_proba / predict / score on X as {lab} differ from the float64 reference "
                     f"(max diff {float(np.abs(np.asarray(p) - ref_p).max())}, score {sc} vs {sc_ref})", rp, layer="L3")
    chk.traces += 1
    chk.dist[f"repr:{mode}"] += 1
    chk.count(("repr", name, mode, gkind, integral, y is not None, n, d))


CORNERS = ["K=1", "d=1", "n=K", "bs=n", "bs>n", "bs=1", "one-group", "alpha=0", "minf=d", "minf=d-1", "keep=1", "keep=0", "M=0",
           "tie-threshold", "neg-zero-row", "adversarial-columns"]


def stream_corner(chk, i, rng):
    """degenerate sizes, inclusive interval ends and adversarial floats through the public call path"""
    kind = CORNERS[i % len(CORNERS)]
    name = impl.SPARSE[(i // len(CORNERS) + i) % len(impl.SPARSE)]
    n, d, K = int(rng.integers(6, 13)), int(rng.integers(2, 6)), int(rng.integers(2, 4))
    gs, gkind = gen_groups(rng, d)
    kw = dict(max_iter=int(rng.integers(2, 8)), learning_rate=5e-2, alpha=float(rng.choice([1.0, 5.0, 20.0])), M=float(rng.choice([0.3, 2.0])),
              n_hidden_dim=int(rng.integers(1, 4)), solver=str(rng.choice(["adam", "sgd"])), batch_size=None, random_state=int(rng.integers(0, 1000)))
    pkw = {"alpha_multiplier": 2.0, "min_features": 1, "max_patience": 2, "keep_threshold": 0.9}
    if kind == "K=1":
        K = 1
    elif kind == "d=1":
        d, gs, gkind = 1, ([[0]] if rng.random() < 0.5 else None), "d=1"
    elif kind == "n=K":
        n = K
    elif kind == "bs=n":
        kw["batch_size"] = n
    elif kind == "bs>n":
        kw["batch_size"] = n + int(rng.integers(1, 5))
    elif kind == "bs=1":
        kw["batch_size"] = 1
    elif kind == "one-group":
        gs, gkind = [rng.permutation(d).tolist()], "one-group"
    elif kind == "alpha=0":
        kw["alpha"] = 0.0
    elif kind == "minf=d":
        pkw["min_features"] = d
    elif kind == "minf=d-1":
        pkw["min_features"] = max(d - 1, 1)
    elif kind == "keep=1":
        pkw["keep_threshold"] = 1.0
    elif kind == "keep=0":
        pkw["keep_threshold"] = 0.0
    elif kind == "M=0":
        kw["M"] = 0.0
    case = {"estimator": name, "n": n, "d": d, "K": K, "groups": gs, "gkind": gkind, "data_seed": int(rng.integers(0, 2 ** 31 - 1)), "corner": kind}
    X = data_of(case)
    replay = dict(case, params=dict(kw), path=pkw)
    chk.dist["corner:" + kind] += 1
    if kind in ("tie-threshold", "neg-zero-row"):
        # exact comparisons inside the shrinkage, reached through _update_weights with the identity optimiser step
        K = max(K, 2)
        est = impl.make(name, n_clusters=K, groups=gs, **dict(kw, max_iter=1, solver="sgd"))
        est.fit(X)
        V = skip_of(est)
        V[:] = np.round(rng.uniform(-1, 1, size=V.shape) * 8) / 8 + 2.0      # exactly representable, far from the threshold
        g0 = [int(j) for j in (est.groups_[0] if est.groups_ is not None and len(est.groups_[0]) else [0])]
        if kind == "tie-threshold":
            # the group's flattened skip rows are (3, 4, 0, ...)/8: norm exactly 0.625
            V[g0] = 0.0
            V[g0[0], 0] = 0.375
            V[g0[-1], 1] = 0.5
            if hasattr(est, "W1_"):
                est.W1_[g0] = 0.0
            thr = [0.625, float(np.nextafter(0.625, 1.0)), float(np.nextafter(0.625, 0.0)), 0.62, 0.63][int(rng.integers(0, 5))]
            expect_zero = thr >= 0.625
        else:
            V[g0] = -0.0
            if hasattr(est, "W1_"):
                est.W1_[g0] = -0.0
            thr, expect_zero = 0.25, True
        est.alpha = thr
        est.optimiser_.learning_rate = 1.0
        opt = est.optimiser_
        opt.update_params = lambda *a, **k: None
        try:
            est._update_weights(est._get_weights(), [np.zeros_like(w) for w in est._get_weights()])
        finally:
            del opt.update_params
        rp = dict(replay, threshold=thr, group=g0)
        zero = not np.any(skip_of(est)[g0] != 0)
        if zero != expect_zero:
            chk.fail("corner:" + kind, f"group {g0} of exact norm {0.625 if kind == 'tie-threshold' else 0.0} with threshold {thr!r}: "
                     f"{'not ' if expect_zero else ''}zeroed (a row is dropped exactly when its norm is <= alpha*rate)", rp, layer="L3")
        sel, ok = check_selection(chk, "corner:" + kind, est, rp)
        if expect_zero and any(j in sel for j in g0):
            chk.fail("corner:" + kind + ":selected", f"zeroed group {g0} is reported by get_selection()={sel}", rp, layer="L3")
        check_hierarchy(chk, "corner:" + kind, est, rp)
        check_inert(chk, "corner:" + kind, est, X, rng, rp)
        chk.count(("corner", kind, name, thr, gkind))
        return
    est = impl.make(name, n_clusters=K, groups=gs, **kw)
    # path() started at alpha = 0 never leaves alpha = 0 (0 * multiplier): C07's known finding F12, not re-run here
    for mode in (("fit",) if kind == "alpha=0" else ("fit", "path")):
        key = f"corner:{kind}:{mode}"
        rp = dict(replay, mode=mode)
        before = (snapshot(X), snapshot(gs))
        with Spy(est) as spy:
            ok, res = run_alarmed(lambda: est.fit(X) if mode == "fit" else est.path(X, **pkw))
        if not ok:
            chk.dist[f"corner:wall-limit:{kind}:{mode}:{name}"] += 1
            continue
        if not (same_bits(before[0], X) and same_bits(before[1], gs)):
            chk.fail(key + ":argument-modified", f"{mode} modified X or groups", rp, layer="L3")
        check_groups_attr(chk, key, est, case, rp)
        check_calls_use_current_groups(chk, key, est, spy, rp)
        sel, nun, moved, multi = state_checks(chk, key, est, X, case, rng, rp)
        p = est.predict_proba(X)
        if K == 1 and not np.array_equal(p, np.ones((n, 1))):
            chk.fail(key + ":one-cluster", "with one cluster predict_proba is not identically 1", rp, layer="L3")
        if kind == "alpha=0" and mode == "fit" and sel != list(range(d)):
            chk.fail(key + ":alpha-zero-drops", f"fit with alpha=0 (threshold 0) dropped features: selection {sel}", rp, layer="L3")
        if kind == "minf=d" and mode == "path" and (len(res[3]) != 0 or sel != list(range(d))):
            chk.fail(key + ":no-path", f"min_features=d: {len(res[3])} path steps, selection {sel} (expected none and all features)", rp, layer="L3")
        if kind == "adversarial-columns" and nun:
            base = est.predict_proba(X)
            unsel = [j for j in range(d) if j not in sel]
            for what, col in (("1e300", np.full(n, 1e300)), ("-1e300", np.full(n, -1e300)), ("denormal", np.full(n, 5e-324)),
                              ("-0.0", np.full(n, -0.0)), ("next-double", np.nextafter(X[:, unsel[0]], np.inf))):
                X2 = X.copy()
                X2[:, unsel] = col[:, None]
                if not np.array_equal(est.predict_proba(X2), base):
                    chk.fail(key + ":not-inert", f"unselected features {unsel} replaced by {what} change predict_proba", dict(rp, what=what), layer="L3")
        chk.traces += 1
    chk.count(("corner", kind, name, gkind, n, d, K))


def stream_routes(chk, i, rng):
    """the public methods that have their own route (fit_predict, path, score, predict) with the same options as fit:
    precomputed / asymmetric affinities, batch sizes around n, must-link / cannot-link decoration, read-only arguments; all
    C06 state checks after each, arguments compared with copies taken before each call."""
    name = impl.SPARSE[i % len(impl.SPARSE)]
    n, d, K = int(rng.integers(6, 14)), int(rng.integers(2, 6)), int(rng.integers(2, 4))
    gs, gkind = gen_groups(rng, d)
    case = {"estimator": name, "n": n, "d": d, "K": K, "groups": gs, "gkind": gkind, "data_seed": int(rng.integers(0, 2 ** 31 - 1))}
    X = data_of(case)
    gem_kw, y, aff = {}, None, "computed"
    if name in GENERIC and rng.random() < 0.5:
        Z = rng.normal(size=(n, 3))
        y = Z @ Z.T
        aff = "precomputed"
        if rng.random() < 0.5:
            y = y + rng.normal(size=(n, n)) * 0.3 - 0.5           # asymmetric, with negative entries
            aff = "precomputed-asymmetric"
        gem_kw["gemini"] = impl.G.MMDGEMINI(kernel="precomputed", ovo=bool(rng.integers(0, 2)))
    bs = [None, n, n + 3, max(1, n // 2), 1][int(rng.integers(0, 5))]
    kw = dict(n_clusters=K, groups=gs, max_iter=int(rng.integers(2, 7)), learning_rate=5e-2, alpha=float(rng.choice([0.5, 3.0, 10.0])),
              M=float(rng.choice([0.3, 2.0])), n_hidden_dim=int(rng.integers(1, 4)), solver=str(rng.choice(["adam", "sgd"])), batch_size=bs,
              dynamic=bool(rng.integers(0, 2)), random_state=int(rng.integers(0, 1000)))
    mlcl = None
    if rng.random() < 0.4 and n >= 4:
        idx = rng.permutation(n)[:4].tolist()
        mlcl = ([[idx[0], idx[1]]], [[idx[2], idx[3]]])
    readonly = bool(rng.random() < 0.5)
    if readonly:
        X.setflags(write=False)
        if y is not None:
            y.setflags(write=False)
    replay = dict(case, params={k: v for k, v in kw.items()}, affinity=aff, mlcl=mlcl, readonly=readonly)
    pkw = {"alpha_multiplier": 2.0, "min_features": 1, "max_patience": 2, "restore_best_weights": bool(rng.integers(0, 2))}

    def mk():
        e = impl.make(name, **kw, **gem_kw)
        if mlcl is not None:
            impl.add_mlcl_constraint(e, mlcl[0], mlcl[1])
        return e
    est, twin = mk(), mk()
    calls = [("fit_predict", lambda: est.fit_predict(X, y)), ("predict_proba", lambda: est.predict_proba(X)), ("predict", lambda: est.predict(X)),
             ("score", lambda: est.score(X, y)), ("get_selection", lambda: est.get_selection()),
             ("path", lambda: est.path(X, y, **pkw)), ("predict_proba", lambda: est.predict_proba(X)), ("score", lambda: est.score(X, y))]
    results = {}
    for what, fn in calls:
        key = f"routes:{what}"
        rp = dict(replay, call=what)
        before = (snapshot(X), snapshot(y), snapshot(gs), snapshot(kw["groups"]))
        try:
            with Spy(est) as spy:
                ok, res = run_alarmed(fn)
        except Exception as e:  # noqa
            raise
        if not ok:
            chk.dist["routes:wall-limit"] += 1
            chk.count(None)
            return
        results[what] = res
        if not (same_bits(before[0], X) and same_bits(before[1], y) and same_bits(before[2], gs) and same_bits(before[3], kw["groups"])):
            chk.fail(key + ":argument-modified", f"{what} modified X, the affinity or the groups", rp, layer="L3")
        if what in ("fit_predict", "path"):
            check_groups_attr(chk, key, est, case, rp)
            check_calls_use_current_groups(chk, key, est, spy, rp)
            state_checks(chk, key, est, X, case, rng, rp)
        if what == "fit_predict":
            ok2, _ = run_alarmed(lambda: twin.fit(X, y))
            if ok2 and (not np.array_equal(res, twin.labels_) or not all(np.array_equal(a, b, equal_nan=True) for a, b in zip(est._get_weights(), twin._get_weights()))):
                chk.fail(key + ":differs-from-fit", "fit_predict does not end in the weights / labels of fit", rp, layer="L3")
        if what == "predict":
            p = results["predict_proba"]
            if not labels_agree(p, p.argmax(1), res):
                chk.fail(key + ":not-argmax", "predict is not the arg-max of predict_proba", rp, layer="L3")
        if what == "score":
            g = est.get_gemini()
            want = float(g(est.predict_proba(X), g.compute_affinity(X, y)))
            if not (close(float(res), want, 1e-9) or (np.isnan(want) and np.isnan(res))):
                chk.fail(key + ":value", f"score={res} but the GEMINI of predict_proba on the same affinity is {want}", rp, layer="L3")
    chk.traces += 1
    chk.dist["routes:affinity=" + aff] += 1
    chk.dist["routes:batch=" + ("None" if bs is None else "n" if bs == n else ">n" if bs > n else "<n")] += 1
    chk.dist["routes:mlcl" if mlcl else "routes:plain"] += 1
    chk.dist["routes:read-only" if readonly else "routes:writable"] += 1
    chk.count(("routes", name, aff, bs, mlcl is not None, gkind, n, d))


def guarded(name, fn):
    """An exception escaping a case is the implementation's only if the same case, re-run WITHOUT any instrumentation, raises
    too; otherwise it is reported under a harness-error key (a defect of this harness, not of the property).  Exceptions caught
    inside recording code are reported the same way."""
    def run(chk, i, rng):
        INSTR["errors"] = []
        ev = chk.evaluations
        try:
            fn(chk, i, rng)
        except Exception as e:  # noqa
            first = f"{type(e).__name__}: {e}"
            INSTR["on"] = False
            try:
                nf = len(chk.failures)
                fn(chk, i, chk.rng(name, i))
                del chk.failures[nf:]
            except Exception:
                raise                      # the implementation itself raises: core reports <stream>:exception:<type>
            finally:
                INSTR["on"] = True
                chk.evaluations = max(ev, chk.evaluations - 1)
            chk.fail(f"harness-error:{name}:{type(e).__name__}", f"the harness (not the implementation) raised {first}; the same case without instrumentation runs", {}, layer="harness")
            return
        if INSTR["errors"]:
            chk.fail(f"harness-error:{name}:recording", "recording code of the harness raised: " + INSTR["errors"][0], {}, layer="harness")
    return run


STREAMS = {"zerocol": (stream_zerocol, 100, 1500), "groups": (stream_groups, 600, 6000), "update": (stream_update, 700, 12000),
           "fit": (stream_fit, 500, 9000), "path": (stream_path, 80, 1000),
           "refit": (stream_refit, 120, 3000), "repr": (stream_repr, 40, 600), "corner": (stream_corner, 64, 960),
           "routes": (stream_routes, 30, 450)}


def main():
    chk = Check("C06", props_files=["Props/C06.v", "Props/C06gen.v"])
    out = chk.build()
    if "TRANSLATOR-FAIL translator/tr_selection.py" in out:
        chk.regenerated["Gen/SelectionRules.v"] = "translator failed closed on the current sources (last generated copy used; the correspondence decides)"
    else:
        chk.regenerated["Gen/SelectionRules.v"] = "regenerated from gemclus/sparse/_linear_sparse.py and _mlp_sparse.py on this run"
    chk.proofs()
    if chk.replay_path:
        rp = __import__("json").load(open(chk.replay_path))
        st, case = rp["input"].get("stream"), rp["input"].get("case")
        chk.seed = rp.get("seed", chk.seed)
        if st in STREAMS:
            chk.run_stream(st, guarded(st, STREAMS[st][0]), 0, only=case)
    else:
        for name, (fn, q, th) in STREAMS.items():
            cnt = q if chk.tier == "quick" else th
            if chk.l1_broken:
                cnt *= 3
            t0 = __import__("time").time()
            chk.run_stream(name, guarded(name, fn), cnt)
            chk.dist[f"wall_s:{name}"] = round(__import__("time").time() - t0, 1)
    unsel = sum(v for k, v in chk.dist.items() if k in ("fit:unselected=some", "fit:unselected=all"))
    chk.notes.append(f"fits with at least one unselected feature: {unsel}; path snapshots with unselected features: {chk.dist.get('path:snapshots-with-unselected', 0)} of {chk.dist.get('path:snapshots', 0)}")
    chk.notes.append("proximal operators are oracles here (library functions of gemclus.sparse._prox_grad, C05's subject); the theorems take "
                     "their common-factor and hierarchy-feasibility facts as premises")
    chk.finish(rule="streams: check_groups on random/malformed/edge group lists (d<=6); _update_weights of all 5 sparse estimators with the optimiser stubbed to "
                    "the identity or recorded real step (alpha 0..1000, groups none/partition/partial, zero and underflowing rows); representation metamorphics (dtype / order / views / read-only / lists, groups as arrays, affinity likewise), degenerate sizes and inclusive interval ends and exact threshold ties, every public route (fit_predict / path / score / predict) with precomputed or asymmetric affinities, batch sizes around n, mlcl decoration and argument snapshots; refits of one estimator object after set_params(groups=...) / other data (second history checked against the current groups_, the recorded operator calls and a fresh estimator); whole fits (all GEMINI names, "
                    "precomputed MMD, adam/sgd, batch sizes, alpha 0..200, M 0..10) with every threshold recorded; path() runs snapshotted at every "
                    "compute_val_score call, at the end and on the returned best weights (dynamic on/off, precomputed affinity). non-trivial = the state has at "
                    "least one unselected feature (update stream: or declared groups; groups stream: a partial or invalid list); distinct = distinct "
                    "(estimator, gemini, solver, groups kind, d, alpha, #unselected, ...) signature",
               extra={"regenerated_ties": chk.regenerated})


if __name__ == "__main__":
    main()
