"""C13 — GEMINI scores obey their invariances and bounds."""
import numpy as np
import gemlib
import c01


def _case(chk, i, rng, nmax=10):
    gl = gemlib.gemini_list()
    label, fac = gl[i % len(gl)]
    g = fac()
    obj, ovo = gemlib.obj_of(g)
    n = int(rng.integers(2, (8 if (obj in ("mmd", "ws") and ovo) else nmax) + 1))
    K = int(rng.integers(2, 6)) if rng.integers(0, 8) else 1   # one case in eight has a single cluster
    mode = rng.choice(["soft", "mid", "sharp", "saturated", "onehot"])
    P = gemlib.gen_P(rng, n, K, mode)
    A, akind = None, "none"
    if obj == "mmd":
        A, akind = gemlib.gen_affinity(rng, n, "kernel")
    if obj == "ws":
        A, akind = gemlib.gen_affinity(rng, n, "dist")
    return label, g, obj, ovo, n, K, mode, P, A, akind


def stream_perm(chk, i, rng):
    """Consistent reordering of samples (with affinity rows/columns) and of clusters: same score, gradient permuted;
    also checked on the extracted model (L2)."""
    label, g, obj, ovo, n, K, mode, P, A, akind = _case(chk, i, rng)
    replay = {"gemini": label, "n": n, "K": K, "mode": mode, "affinity": akind, "P": P.tolist(), "A": None if A is None else A.tolist()}
    s, gr, _ = gemlib.run_impl(g, P, A)
    ps, pk = rng.permutation(n), rng.permutation(K)
    P2 = P[ps][:, pk]
    A2 = None if A is None else A[np.ix_(ps, ps)]
    s2, gr2, calls2 = gemlib.run_impl(g, P2, A2)
    scale = max(abs(s), 1.0)
    # optimal-transport duals are not unique at degenerate optima: compare W gradients only through the score
    tol = (1e-7 if obj == "ws" else 1e-9)
    big = 1e3 if (obj == "chi" and mode in ("saturated", "onehot")) else 1.0
    extra, ill = gemlib.widen(obj, ovo, P, A, g.epsilon)
    if ill:
        # the implementation's own result moves by more than 1e-3 relative under rounding-level reordering: no value comparison
        chk.dist["ill-conditioned (values not compared)"] += 1
        chk.count(None)
        return
    mmd_abs = 2e-7 * np.sqrt(max(1.0, float(np.abs(A).max()))) if obj == "mmd" else 0.0
    if abs(s - s2) > (tol + extra) * scale * big * max(1.0, abs(s)) + mmd_abs:
        chk.fail(f"perm:score:{obj}:{'ovo' if ovo else 'ova'}", f"{label}: score {s!r} changes to {s2!r} under a consistent permutation of samples and clusters", dict(replay, ps=ps.tolist(), pk=pk.tolist()), layer="L3")
    if obj != "ws":
        gscale = max(1.0, float(np.abs(gr).max()))
        if not np.allclose(gr2, gr[ps][:, pk], rtol=1e-6 + extra, atol=(1e-8 + extra) * gscale):
            chk.fail(f"perm:grad:{obj}:{'ovo' if ovo else 'ova'}", f"{label}: gradient is not permuted accordingly", dict(replay, ps=ps.tolist(), pk=pk.tolist()), layer="L3")
    ms2, _ = gemlib.run_model(chk, obj, ovo, g.epsilon, P2, A2, calls2)
    if not c01.close(ms2, s2, s2, tol=1e-8 + extra) and abs(ms2 - s2) > mmd_abs:
        chk.fail(f"perm:model-mismatch:{obj}", f"{label}: model {ms2!r} vs implementation {s2!r} on the permuted input", replay)
    chk.sample({"stream": "perm", "gemini": label, "n": n, "K": K, "mode": mode, "affinity": akind, "ps": ps.tolist(), "pk": pk.tolist(), "score": s})
    chk.dist[f"perm:{obj}:{'ovo' if ovo else 'ova'}"] += 1
    nontriv = not (np.array_equal(ps, np.arange(n)) and np.array_equal(pk, np.arange(K)))
    chk.count(("perm", label, n, K, mode, akind) if nontriv else None)


def stream_empty(chk, i, rng):
    """Adding an empty cluster: score unchanged (up to the clip constant), zero gradient for the new column."""
    label, g, obj, ovo, n, K, mode, P, A, akind = _case(chk, i, rng)
    if mode == "onehot":
        mode = "sharp"
        P = gemlib.gen_P(rng, n, K, mode)
    replay = {"gemini": label, "n": n, "K": K, "mode": mode, "affinity": akind, "P": P.tolist(), "A": None if A is None else A.tolist()}
    s, gr, _ = gemlib.run_impl(g, P, A)
    P2 = np.hstack([P, np.zeros((n, 1))])
    s2, gr2, _ = gemlib.run_impl(g, P2, A)
    if np.any(gr2[:, K] != 0):
        chk.fail(f"empty:grad-nonzero:{obj}", f"{label}: an empty cluster received a non-zero gradient", replay, layer="L3")
    # the code scores the clipped matrix: an empty column contributes terms of order K*eps*|ln eps| at most
    # the MMD is the square root of a difference that may cancel to rounding level (one cluster, sample-independent rows)
    mmd_abs = 2e-7 * np.sqrt(max(1.0, float(np.abs(A).max()))) if obj == "mmd" else 0.0
    if abs(s - s2) > 1e-8 * max(1.0, abs(s)) + mmd_abs:
        chk.fail(f"empty:score:{obj}:{'ovo' if ovo else 'ova'}", f"{label}: score {s!r} becomes {s2!r} after adding an empty cluster", replay, layer="L3")
    if not np.isfinite(s2) or not np.isfinite(gr2).all():
        chk.fail(f"empty:nonfinite:{obj}", f"{label}: non-finite result with an empty cluster", replay, layer="L3")
    chk.sample({"stream": "empty", "gemini": label, "n": n, "K": K, "mode": mode, "score": s, "score_with_empty_cluster": s2}, limit=6)
    chk.dist[f"empty:{obj}:{'ovo' if ovo else 'ova'}"] += 1
    chk.count(("empty", label, n, K, mode, akind))


def stream_bounds(chk, i, rng):
    """Non-negativity, zero at independence (chi-square: 1/2), TV/Hellinger <= 1, MI of a balanced hard partition = log K,
    finite on the closed simplex (one-hot rows)."""
    label, g, obj, ovo, n, K, mode, P, A, akind = _case(chk, i, rng, nmax=12)
    replay = {"gemini": label, "n": n, "K": K, "mode": mode, "affinity": akind, "P": P.tolist(), "A": None if A is None else A.tolist()}
    s, gr, _ = gemlib.run_impl(g, P, A)
    if not np.isfinite(s) or not np.isfinite(gr).all():
        chk.fail(f"bounds:nonfinite:{obj}:{'ovo' if ovo else 'ova'}", f"{label}: non-finite score or gradient on the closed simplex (mode {mode})", replay, layer="L3")
    lo = 0.5 if obj == "chi" else 0.0
    if s < lo - 1e-9 * max(1.0, abs(s)):
        chk.fail(f"bounds:negative:{obj}:{'ovo' if ovo else 'ova'}", f"{label}: score {s!r} below its lower bound {lo}", replay, layer="L3")
    if obj in ("tv", "he") and s > 1 + 1e-9:
        chk.fail(f"bounds:above-one:{obj}:{'ovo' if ovo else 'ova'}", f"{label}: score {s!r} exceeds 1", replay, layer="L3")
    # predictions that do not depend on the sample
    row = gemlib.gen_P(rng, 1, K, rng.choice(["soft", "mid", "sharp"]))
    Pc = np.repeat(row, n, axis=0)
    sc, _, _ = gemlib.run_impl(g, Pc, A)
    tol0 = 1e-6 if obj in ("mmd", "ws") else 1e-9
    if abs(sc - lo) > tol0 * (1.0 + (0.0 if A is None else float(np.abs(A).max()))):
        chk.fail(f"bounds:independent:{obj}:{'ovo' if ovo else 'ova'}", f"{label}: predictions independent of the sample give {sc!r}, expected {lo}", dict(replay, row=row.tolist()), layer="L3")
    # balanced hard partition: mutual information = log K
    if obj == "kl" and not ovo:
        m = int(rng.integers(1, 4))
        lab = np.repeat(np.arange(K), m)
        rng.shuffle(lab)
        Ph = np.eye(K)[lab]
        sh, _, _ = gemlib.run_impl(g, Ph, None)
        if abs(sh - np.log(K)) > 1e-8:
            chk.fail("bounds:mi-balanced-hard", f"{label}: MI of a balanced hard {K}-partition is {sh!r}, expected log K = {np.log(K)!r}", dict(replay, labels=lab.tolist()), layer="L3")
    chk.dist[f"bounds:{obj}:{'ovo' if ovo else 'ova'}:{mode}"] += 1
    chk.count(("bounds", label, n, K, mode, akind))


def _variants(rng, M, integral):
    """The same values in other representations: (label, array-like, relative tolerance)."""
    out = [("fortran", np.asfortranarray(M), 1e-12), ("list", M.tolist(), 1e-12)]
    big = np.zeros((2 * M.shape[0], 2 * M.shape[1])); big[::2, ::2] = M
    out.append(("noncontiguous", big[::2, ::2], 1e-12))
    ro = M.copy(); ro.setflags(write=False)
    out.append(("readonly", ro, 1e-12))
    out.append(("float32", M.astype(np.float32), 2e-5))
    if integral:
        out.append(("int64", M.astype(np.int64), 1e-12))
        out.append(("int32", M.astype(np.int32), 1e-12))
        if set(np.unique(M)) <= {0.0, 1.0}:
            out.append(("bool", M.astype(bool), 1e-12))
    return out


def stream_repr(chk, i, rng):
    """The same predictions / affinity presented as int / bool one-hot, float32 (exactly representable values), Fortran,
    non-contiguous, read-only arrays or lists give the same score and gradient as the float64 C-contiguous reference,
    through __call__ and through evaluate, and leave the caller's arrays unchanged."""
    gl = gemlib.gemini_list()
    label, fac = gl[i % len(gl)]
    g = fac()
    obj, ovo = gemlib.obj_of(g)
    n = int(rng.integers(2, 9)); K = int(rng.integers(1, 5))
    onehot = bool(rng.integers(0, 2))
    if onehot:
        P = np.eye(K)[rng.integers(0, K, size=n)]
    else:   # dyadic rows: multiples of 1/16 summing to one (exact in float32)
        P = np.zeros((n, K))
        for r in range(n):
            cuts = np.sort(rng.integers(0, 17, size=K - 1))
            P[r] = np.diff(np.concatenate([[0], cuts, [16]])) / 16.0
    A, aint = None, False
    if obj in ("mmd", "ws"):
        X = rng.integers(-3, 4, size=(n, 2)).astype(float)
        if obj == "mmd":
            A = X @ X.T; aint = True                       # integer-valued linear kernel
        else:
            A = np.abs(X[:, None, :] - X[None, :, :]).sum(-1); aint = True   # integer-valued manhattan distances
    replay = {"gemini": label, "n": n, "K": K, "onehot": onehot, "P": P.tolist(), "A": None if A is None else A.tolist()}
    try:
        s0, g0 = g(P.copy(), None if A is None else A.copy(), return_grad=True)
    except Exception as e:  # noqa
        chk.fail(f"repr:reference-raises:{obj}", f"{label}: float64 reference call raises {type(e).__name__}: {e}", replay, layer="L3")
        chk.count(None); return
    s0 = float(np.asarray(s0)); g0 = np.asarray(g0, dtype=float)
    pv = _variants(rng, P, onehot)
    av = [("same", A, 1e-12)] if A is None else [("same", A, 1e-12)] + _variants(rng, A, aint)
    which = [(a, b) for a in pv for b in av[:1]] + [(pv[int(rng.integers(0, len(pv)))], b) for b in av[1:]]
    for (pl, Pv, pt), (al, Av, at) in which:
        for route in ("call", "evaluate"):
            Pb = np.array(Pv, copy=True) if isinstance(Pv, np.ndarray) else None
            Ab = np.array(Av, copy=True) if isinstance(Av, np.ndarray) else None
            try:
                if route == "call":
                    s1, g1 = g(Pv, Av, return_grad=True)
                    s2 = g(Pv, Av)
                else:
                    if isinstance(Pv, list):
                        continue   # evaluate() is the array-level method; lists go through __call__ only
                    s1, g1 = g.evaluate(Pv, None if Av is None else np.asarray(Av), return_grad=True)
                    s2 = g.evaluate(Pv, None if Av is None else np.asarray(Av), return_grad=False)
            except Exception as e:  # noqa
                if isinstance(Pv, list) or isinstance(Av, list):
                    chk.dist[f"repr:list-rejected:{type(e).__name__}"] += 1   # lists are not a documented input type: observed only
                    continue
                chk.fail(f"repr:raises:{obj}:{pl}/{al}", f"{label} via {route}: P as {pl}, affinity as {al} raises {type(e).__name__}: {e} (the float64 call succeeds)", dict(replay, route=route), layer="L3")
                continue
            tol = max(pt, at)
            s1 = float(np.asarray(s1)); s2 = float(np.asarray(s2)); g1 = np.asarray(g1, dtype=float)
            sc = max(1.0, abs(s0))
            # single precision: the MMD is the square root of a difference that may cancel to rounding level
            sabs = 4 * np.sqrt(1.2e-7 * max(1.0, float(np.abs(A).max()))) if (obj == "mmd" and tol > 1e-9) else 0.0
            if not (abs(s1 - s0) <= tol * sc + sabs and abs(s2 - s0) <= tol * sc + sabs):
                chk.fail(f"repr:score:{obj}:{pl}/{al}", f"{label} via {route}: score {s1!r} / {s2!r} with P as {pl}, affinity as {al}; float64 reference {s0!r}", dict(replay, route=route), layer="L3")
            gs = max(1.0, float(np.abs(g0).max()))
            # TV is piecewise linear: with exactly representable rows many arguments of sign() are exact zeros in exact
            # arithmetic and rounding-level noise in floating point, so its subgradient may differ between precisions;
            # optimal-transport duals are not unique. Shapes are compared for all, values for the smooth objectives.
            smooth = obj != "ws" and not (obj in ("tv", "mmd") and tol > 1e-9)
            if g1.shape != g0.shape or (smooth and not np.allclose(g1, g0, rtol=0, atol=tol * gs * 10)):
                chk.fail(f"repr:grad:{obj}:{pl}/{al}", f"{label} via {route}: gradient differs from the float64 reference with P as {pl}, affinity as {al}", dict(replay, route=route), layer="L3")
            if (Pb is not None and not np.array_equal(Pb, Pv)) or (Ab is not None and not np.array_equal(Ab, Av)):
                chk.fail(f"repr:argument-modified:{obj}", f"{label} via {route}: the caller's array was modified (P as {pl}, affinity as {al})", dict(replay, route=route), layer="L3")
            chk.dist[f"repr:{pl}/{al}"] += 1
    chk.count(("repr", label, n, K, onehot))


def stream_largeperm(chk, i, rng):
    """Permutation invariance and score-alone = score-with-gradient on shapes far beyond the model's reach (n up to 1500,
    K up to 40, n*K*K up to 3e6): shape-dependent code paths (blocking, chunking, size thresholds) only show here."""
    gl = [x for x in gemlib.gemini_list() if "asserstein" not in x[0]]
    label, fac = gl[i % len(gl)]
    g = fac()
    obj, ovo = gemlib.obj_of(g)
    K = int(rng.choice([3, 10, 24, 32, 40]))
    n = int(rng.choice([120, 333, 512, 700, 900, 1500]))
    if obj == "mmd":
        n = min(n, 333)
    if ovo and n * K * K > 3_000_000:
        n = 3_000_000 // (K * K) - int(rng.integers(0, 7))
    P = gemlib.gen_P(rng, n, K, rng.choice(["soft", "mid", "sharp"]))
    P = np.clip(P, 1e-9, None); P /= P.sum(1, keepdims=True)
    A = None
    if obj == "mmd":
        X = rng.normal(size=(n, 3))
        A = np.exp(-0.5 * ((X[:, None, :] - X[None, :, :]) ** 2).sum(-1))
    replay = {"gemini": label, "n": n, "K": K}
    ps, pk = rng.permutation(n), rng.permutation(K)
    P2 = P[ps][:, pk]
    A2 = None if A is None else A[np.ix_(ps, ps)]
    s = float(np.asarray(g(P, A)))
    s2 = float(np.asarray(g(P2, A2)))
    sg, gr = g(P, A, return_grad=True)
    sg2, gr2 = g(P2, A2, return_grad=True)
    tol = 1e-9 if obj != "mmd" else 1e-7
    sc = max(1.0, abs(s))
    if abs(s - s2) > tol * sc:
        chk.fail(f"largeperm:score:{obj}:{'ovo' if ovo else 'ova'}", f"{label} n={n} K={K}: score {s!r} becomes {s2!r} under a consistent permutation", replay, layer="L3")
    if abs(s - float(np.asarray(sg))) > tol * sc or abs(s2 - float(np.asarray(sg2))) > tol * sc:
        chk.fail(f"largeperm:score-depends-on-return_grad:{obj}:{'ovo' if ovo else 'ova'}", f"{label} n={n} K={K}: score alone {s!r}/{s2!r}, with gradient {float(np.asarray(sg))!r}/{float(np.asarray(sg2))!r}", replay, layer="L3")
    gscale = max(1.0, float(np.abs(gr).max()))
    if gr2.shape != P2.shape or not np.allclose(gr2, gr[ps][:, pk], rtol=1e-6, atol=1e-8 * gscale):
        chk.fail(f"largeperm:grad:{obj}:{'ovo' if ovo else 'ova'}", f"{label} n={n} K={K}: gradient is not permuted accordingly", replay, layer="L3")
    chk.dist[f"largeperm:n>={100 * (n // 100)}:K={K}"] += 1
    chk.count(("largeperm", label, n, K))


STREAMS = {"repr": (stream_repr, 80, 800), "largeperm": (stream_largeperm, 60, 600), "perm": (stream_perm, 260, 4000), "empty": (stream_empty, 200, 3000), "bounds": (stream_bounds, 300, 4000)}

if __name__ == "__main__":
    c01.main("C13", STREAMS,
             rule="metamorphic streams on every registry name / class x flag: representations (int/bool one-hot, float32, Fortran, non-contiguous, read-only, list; via __call__ and evaluate; arguments unchanged); large shapes (n<=1500, K<=40) permutation + score-alone=score-with-gradient; consistent permutation of samples (with affinity) and clusters; appended empty cluster; "
                  "bounds (>=0, chi-square >= 1/2, TV/Hellinger <= 1, zero at sample-independent predictions, MI(balanced hard K-partition) = log K, finiteness on one-hot rows). "
                  "n in 2..12, K in 1..5, soft..saturated..one-hot rows, PSD/indefinite kernels, several metrics. non-trivial = non-identity permutation / n>=2; distinct = (stream, gemini, n, K, mode, affinity)")
