"""C01 — GEMINI scores equal their defining statistical distances."""
import json
import numpy as np
from core import Check
import gemlib

# documented registry: name -> (objective, one-vs-one)
DOC_REGISTRY = {"mmd_ova": ("mmd", False), "mmd_ovo": ("mmd", True), "wasserstein_ova": ("ws", False),
                "wasserstein_ovo": ("ws", True), "kl_ova": ("kl", False), "kl_ovo": ("kl", True), "mi": ("kl", False),
                "tv_ova": ("tv", False), "tv_ovo": ("tv", True), "hellinger_ova": ("he", False),
                "hellinger_ovo": ("he", True), "chi2_ova": ("chi", False), "chi2_ovo": ("chi", True)}


def close(a, b, scale=1.0, tol=1e-9):
    return abs(a - b) <= tol * (1.0 + abs(scale))


def stream_score(chk, i, rng):
    gl = gemlib.gemini_list()
    label, fac = gl[i % len(gl)]
    g = fac()
    obj, ovo = gemlib.obj_of(g)
    big = chk.tier == "thorough"
    nmax = 9 if (obj in ("mmd", "ws") and ovo) else (12 if not big else 16)
    n = int(rng.integers(1, nmax + 1))
    K = int(rng.integers(2, 6)) if rng.integers(0, 10) else 1   # one case in ten: a single cluster
    mode = rng.choice(["soft", "mid", "sharp", "saturated"])
    P = gemlib.gen_P(rng, n, K, mode)
    A, akind = None, "none"
    if obj == "mmd":
        A, akind = gemlib.gen_affinity(rng, n, "kernel")
    if obj == "ws":
        A, akind = gemlib.gen_affinity(rng, n, "dist")
    replay = {"gemini": label, "n": n, "K": K, "mode": mode, "affinity": akind, "P": P.tolist(), "A": None if A is None else A.tolist()}
    s, _, calls = gemlib.run_impl(g, P, A, want_grad=False)
    s2, gr, calls2 = gemlib.run_impl(g, P, A, want_grad=True)
    if s != s2 and not close(s, s2, s):
        chk.fail("score:depends-on-return_grad", f"{label}: score differs with return_grad ({s} vs {s2})", replay, layer="L3")
    ms, _ = gemlib.run_model(chk, obj, ovo, g.epsilon, P, A, calls2)
    extra, ill = gemlib.widen(obj, ovo, P, A, g.epsilon)
    if ill:
        chk.dist["ill-conditioned (values not compared)"] += 1
    elif not close(s, ms, s, tol=1e-9 + extra):
        chk.fail(f"score:model-mismatch:{obj}:{'ovo' if ovo else 'ova'}", f"{label}: implementation score {s!r} != model score {ms!r}", replay)
    if obj == "ws":
        # the weights handed to the solver are the model's conditionals, the second marginal uniform / the other conditional
        wy = gemlib.model_wy(chk, g.epsilon, P)
        it = iter(calls2)
        ok = True
        if ovo:
            for k1 in range(K):
                for k2 in range(k1 + 1, K):
                    c = next(it)
                    ok &= np.allclose(c["a"], wy[k1], rtol=1e-12, atol=0) and np.allclose(c["b"], wy[k2], rtol=1e-12, atol=0) and np.array_equal(c["M"], A)
        else:
            for k in range(K):
                c = next(it)
                ok &= np.allclose(c["a"], wy[k], rtol=1e-12, atol=0) and np.allclose(c["b"], np.full(n, 1.0 / n)) and np.array_equal(c["M"], A)
        if not ok:
            chk.fail("score:ws-solver-arguments", f"{label}: arguments handed to the transport solver are not the model's marginals / the affinity", replay)
    # L3: the textbook definition (on the clipped matrix the code scores; identical to P in the interior)
    nontriv = None
    if n >= 2:
        Pc = np.clip(P, g.epsilon, 1 - g.epsilon)
        interior = bool(np.all((P > g.epsilon) & (P < 1 - g.epsilon)))
        # kernels that are not PSD can give a negative squared MMD: the code clamps it to 0 and so does the reference
        try:
            r = gemlib.ref_score(obj, ovo, Pc, A)
        except gemlib.OracleUnavailable:
            chk.dist["oracle:independent-LP-unavailable"] += 1
            chk.count(None)
            return
        scale = max(abs(r), abs(s), 1.0)
        tol = 1e-7 if obj == "ws" else 1e-9
        if obj == "mmd":
            # sqrt of a difference of nearly equal quadratic forms: absolute error ~ sqrt(u * magnitude)
            tol = 1e-9 + 2e-7 * np.sqrt(max(1.0, float(np.abs(A).max()))) / scale
        if obj in ("he", "chi", "kl") and not interior:
            tol = 1e-6          # rows of the clipped matrix no longer sum to one: the identity holds up to O(K eps)
        if abs(r - s) > tol * scale * (1e3 if (obj == "chi" and mode == "saturated") else 1.0):
            chk.fail(f"score:definition:{obj}:{'ovo' if ovo else 'ova'}", f"{label}: returned {s!r}, definition gives {r!r}", replay, layer="L3")
        nontriv = (label, n, K, mode, akind)
        chk.dist["interior" if interior else "clipped"] += 1
    chk.dist[f"obj={obj}:{'ovo' if ovo else 'ova'}"] += 1
    chk.dist[f"affinity={akind}"] += 1
    chk.count(nontriv)
    chk.sample({"gemini": label, "n": n, "K": K, "mode": mode, "affinity": akind, "score": s})


def stream_registry(chk, i, rng):
    from gemclus.gemini import AVAILABLE_GEMINIS
    names = list(AVAILABLE_GEMINIS)
    if sorted(names) != sorted(DOC_REGISTRY):
        chk.fail("registry:names", f"registry names {sorted(names)} differ from the documented 13", {"names": names}, layer="L3")
    name = names[i % len(names)]
    g = gemlib.geo_str(name)
    got = gemlib.obj_of(g)
    if got != DOC_REGISTRY.get(name):
        chk.fail(f"registry:{name}", f"name {name!r} maps to {type(g).__name__}(ovo={got[1]}), documented {DOC_REGISTRY.get(name)}", {"name": name}, layer="L3")
    # class defaults are one-vs-all
    for cls in (gemlib.G.KLGEMINI, gemlib.G.TVGEMINI, gemlib.G.HellingerGEMINI, gemlib.G.ChiSquareGEMINI, gemlib.G.MMDGEMINI, gemlib.G.WassersteinGEMINI):
        if cls().ovo is not False:
            chk.fail("registry:default-ovo", f"{cls.__name__}() is not one-vs-all by default", {"cls": cls.__name__}, layer="L3")
    chk.count(("registry", name))


def stream_reuse(chk, i, rng, with_grad=False):
    """One GEMINI instance evaluated on a sequence of inputs — kernels released and re-allocated (recycled ids),
    the same buffer modified in place, changing shapes — must give what a fresh instance gives each time:
    the score (and gradient) is a function of (P, affinity) only, never of earlier calls."""
    gl = gemlib.gemini_list()
    label, fac = gl[i % len(gl)]
    g = fac()
    obj, ovo = gemlib.obj_of(g)
    n = int(rng.integers(2, 9))
    K = int(rng.integers(2, 5))
    steps = []
    buf = None
    for step in range(6):
        P = gemlib.gen_P(rng, n, K, rng.choice(["soft", "mid", "sharp"]))
        A = None
        how = "none"
        if obj in ("mmd", "ws"):
            how = rng.choice(["fresh", "recycled", "inplace"])
            newA, _ = gemlib.gen_affinity(rng, n, "kernel" if obj == "mmd" else "dist")
            newA = np.ascontiguousarray(newA, dtype=float)
            if how == "inplace" and buf is not None and buf.shape == newA.shape:
                buf[...] = newA                      # same array object, new content
            else:
                if how == "recycled":
                    buf = None                       # release the previous matrix first: its id may be recycled
                buf = newA.copy()
            del newA
            A = buf
        if with_grad:
            s, gr = g(P, A, return_grad=True)
            fs, fgr = fac()(P.copy(), None if A is None else A.copy(), return_grad=True)
            ok = close(float(s), float(fs), float(fs)) and np.allclose(gr, fgr, rtol=1e-9, atol=1e-12)
        else:
            s = g(P, A)
            fs = fac()(P.copy(), None if A is None else A.copy())
            ok = close(float(s), float(fs), float(fs))
        steps.append(how)
        if not ok:
            chk.fail(f"reuse:history-dependent:{obj}:{'ovo' if ovo else 'ova'}",
                     f"{label}: evaluation #{step} on a reused instance ({how} affinity) gives {float(s)!r}, a fresh instance gives {float(fs)!r}",
                     {"gemini": label, "n": n, "K": K, "steps": steps, "with_grad": with_grad}, layer="L3")
            break
        if rng.random() < 0.3:
            n = int(rng.integers(2, 9))
            buf = None
    chk.dist[f"reuse:{obj}"] += 1
    chk.count(("reuse", label, n, K, tuple(steps), with_grad))


def stream_large(chk, i, rng):
    """Larger shapes than the extracted model can run (n up to 1500, K up to 40; n*K*K up to 3e6): implementation vs the vectorised
    textbook definition, and score with vs without the gradient. Shape-dependent code paths (blocking, chunking,
    size thresholds) only show here."""
    gl = [x for x in gemlib.gemini_list() if "asserstein" not in x[0]]
    label, fac = gl[i % len(gl)]
    g = fac()
    obj, ovo = gemlib.obj_of(g)
    K = int(rng.choice([3, 6, 10, 16, 24, 32, 40]))
    n = int(rng.choice([50, 120, 200, 333, 512, 700, 900, 1500]))
    if obj == "mmd":
        n = min(n, 333)
    if ovo and n * K * K > 3_000_000:
        n = 3_000_000 // (K * K) - int(rng.integers(0, 7))   # keep the N x K x K tensors of the one-vs-one forms below ~25 MB
    P = gemlib.gen_P(rng, n, K, rng.choice(["soft", "mid", "sharp"]))
    P = np.clip(P, 1e-9, None); P /= P.sum(1, keepdims=True)
    A = None
    if obj == "mmd":
        X = rng.normal(size=(n, 3))
        A = np.exp(-0.5 * ((X[:, None, :] - X[None, :, :]) ** 2).sum(-1))
    replay = {"gemini": label, "n": n, "K": K}
    s = float(np.asarray(g(P, A)))
    s2, gr = g(P, A, return_grad=True)
    s2 = float(np.asarray(s2))
    if not close(s, s2, s, tol=1e-9):
        chk.fail(f"large:score-depends-on-return_grad:{obj}:{'ovo' if ovo else 'ova'}", f"{label} n={n} K={K}: score alone {s!r}, with gradient {s2!r}", replay, layer="L3")
    r = gemlib.ref_score_vec(obj, ovo, np.clip(P, g.epsilon, 1 - g.epsilon), A)
    tol = 1e-8 if obj != "mmd" else 1e-7
    if abs(r - s) > tol * max(1.0, abs(r)):
        chk.fail(f"large:definition:{obj}:{'ovo' if ovo else 'ova'}", f"{label} n={n} K={K}: returned {s!r}, definition gives {r!r}", replay, layer="L3")
    if gr.shape != P.shape or not np.isfinite(gr).all():
        chk.fail(f"large:grad-shape-or-nonfinite:{obj}", f"{label} n={n} K={K}: gradient shape {gr.shape} / non-finite", replay, layer="L3")
    chk.dist[f"large:n>={100 * (n // 100)}:K={K}"] += 1
    chk.count(("large", label, n, K))


STREAMS = {"score": (stream_score, 420, 6000), "registry": (stream_registry, 13, 13), "reuse": (stream_reuse, 130, 1500), "large": (stream_large, 90, 900)}


def main(pid="C01", streams=STREAMS, rule=None):
    chk = Check(pid, props_files=[f"Props/{pid}.v"] + ([f"Props/{pid}gen.v", f"Props/{pid}geom.v"] if pid in ("C01", "C02") else []))
    chk.build()
    chk.proofs()
    if chk.replay_path:
        rp = json.load(open(chk.replay_path))
        chk.seed = rp.get("seed", chk.seed)
        st, case = rp["input"].get("stream"), rp["input"].get("case")
        if st in streams:
            chk.run_stream(st, streams[st][0], 0, only=case)
    else:
        for name, (fn, q, th) in streams.items():
            cnt = q if chk.tier == "quick" else th
            if chk.l1_broken:
                cnt *= 3
            chk.run_stream(name, fn, cnt)
    chk.finish(rule=rule or "stream score: every registry name and every class with both flags on generated (n<=12, K in 2..5, P from near-uniform to saturated softmax, "
               "kernels linear/rbf/poly/sigmoid/precomputed PSD and indefinite/callable, distances euclidean/manhattan/cosine/precomputed/callable); implementation vs extracted Coq model "
               "(ot.emd2 recorded as the oracle and its arguments checked against the model's marginals) and vs the textbook definition evaluated with explicit loops (independent LP for W1). "
               "non-trivial = n>=2 (the distance is between distinct distributions); distinct = (gemini, n, K, mode, affinity kind)")


if __name__ == "__main__":
    main()
