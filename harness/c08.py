"""C08 — KAURI gains are real objective increases and the chosen split is the best one.

L1  Props/C08.v (gain formulas regenerated from the .pyx = objective increase, top-2 pair selection, arg-max,
    telescoping; F7/F8 refutations).
L2  `find_best_split` of the compiled module AND of the desugared .pyx against the extracted as-is model
    (KauriGain.find_best_asis) on random tree states and on every state met during real `Kauri.fit` runs.
L3  brute-force oracle in Python (independent of the model): the reported gain must be the objective increase of
    applying the split, no admissible alternative may beat it, fits stop only for lack of gain or a structural
    limit, final score = root score + sum of gains.

Known defects F7 / F8 (the .pyx cannot be rebuilt here) are not special-cased: an L3 failure is filed under
`kauri:double-star-gain` / `kauri:realloc-second-right` only when the implementation agrees with the as-is
model on that state AND the model with exactly that defect repaired is correct on that state.  Everything
else is a new violation.
"""
import glob
import inspect
import json
import os
import traceback
import numpy as np
from core import Check, VERIF, enc_list, enc_mat, hx
import core  # noqa: F401
import pyx_desugar

import gemclus.tree._utils as so_mod
import gemclus.tree.kauri as kauri_mod
from gemclus.tree import Kauri

class HarnessError(Exception):
    """A failure of the harness's own instrumentation (never a failure of the property)."""


def guarded(name, fn):
    """Run a stream case; an exception that does not come out of the implementation (no gemclus / desugared-.pyx
    frame in its traceback) is a bug of the harness: it is filed under `harness-error:*`, and only after the same
    case, re-run by the caller's plain public API where possible, is known not to raise in the implementation."""
    def run(chk, i, rng):
        try:
            fn(chk, i, rng)
        except Exception as e:  # noqa
            tb = traceback.extract_tb(e.__traceback__)
            in_impl = any(("gemclus" in fr.filename and "/harness/" not in fr.filename) or "(desugared)" in fr.filename for fr in tb)
            if in_impl and not isinstance(e, HarnessError):
                raise
            chk.fail(f"harness-error:{name}:{type(e).__name__}", f"bug in the harness (not in the implementation): {type(e).__name__}: {e}",
                     {"traceback": traceback.format_exc(limit=8)}, layer="harness")
    return run


KEY_F7 = "kauri:double-star-gain"
KEY_F8 = "kauri:realloc-second-right"
IMPLS = {}


def load_impls(chk):
    IMPLS["so"] = so_mod
    try:
        IMPLS["pyx"] = pyx_desugar.load_module()
    except Exception as e:  # noqa  (DesugarError, SyntaxError, NameError while executing the module body ...)
        chk.notes.append(f"desugared .pyx unavailable ({type(e).__name__}: {e}); only the compiled module is examined")


# ------------------------------------------------------------------------------------------ states
class State:
    """Arguments of find_best_split."""

    def __init__(self, kernel, X, leaf_of, cl_of_leaf, n_clusters, K_max, min_leaf, explore, feats, max_leaves=None, kind=""):
        self.kernel = np.ascontiguousarray(kernel, dtype=np.float64)
        self.X = np.ascontiguousarray(X, dtype=np.float64)
        self.leaf_of = np.asarray(leaf_of, dtype=np.int64)
        self.cl_of_leaf = np.asarray(cl_of_leaf, dtype=np.int64)
        self.n = len(self.leaf_of)
        self.n_leaves = len(self.cl_of_leaf)
        self.n_clusters, self.K_max, self.min_leaf = int(n_clusters), int(K_max), int(min_leaf)
        self.explore = [int(j) for j in explore]
        self.feats = [int(f) for f in feats]
        self.max_leaves = max(self.n_leaves, self.n if max_leaves is None else max_leaves)
        self.kind = kind

    @staticmethod
    def from_args(kernel, X, explore, Y, Z, n_clusters, K_max, n_leaves, min_leaf, feats, kind="fit"):
        Z = np.asarray(Z)
        Y = np.asarray(Y)
        leaf_of = Z[:n_leaves].argmax(0)
        cl = Y[:, :n_leaves].argmax(0)
        return State(kernel, X, leaf_of, cl, n_clusters, K_max, min_leaf, list(explore), list(feats), max_leaves=Z.shape[0], kind=kind)

    def args(self):
        Z = np.zeros((self.max_leaves, self.n), dtype=np.int64)
        Z[self.leaf_of, np.arange(self.n)] = 1
        Y = np.zeros((max(self.K_max, self.n_clusters), self.max_leaves), dtype=np.int64)
        Y[self.cl_of_leaf, np.arange(self.n_leaves)] = 1
        return (self.kernel, self.X, np.array(self.explore, dtype=np.int64), Y, Z, self.n_clusters, self.K_max,
                self.n_leaves, self.min_leaf, np.array(self.feats, dtype=np.intp))

    def labels(self):
        return self.cl_of_leaf[self.leaf_of]

    def leaves(self):
        return [np.nonzero(self.leaf_of == j)[0] for j in range(self.n_leaves)]

    def enc(self):
        return " ".join([enc_mat(self.kernel), enc_mat(self.X),
                         enc_list(self.leaves(), lambda l: enc_list(l)), enc_list(self.cl_of_leaf),
                         str(self.n_clusters), str(self.K_max), str(self.min_leaf),
                         enc_list(self.explore), enc_list(self.feats)])

    def to_json(self):
        return {"kernel": [[hx(v) for v in r] for r in self.kernel], "X": [[hx(v) for v in r] for r in self.X],
                "leaf_of": self.leaf_of.tolist(), "cl_of_leaf": self.cl_of_leaf.tolist(), "n_clusters": self.n_clusters,
                "K_max": self.K_max, "min_leaf": self.min_leaf, "explore": self.explore, "feats": self.feats,
                "max_leaves": self.max_leaves, "kind": self.kind}

    @staticmethod
    def from_json(d):
        f = lambda m: np.array([[float.fromhex(v) if isinstance(v, str) else float(v) for v in r] for r in m], dtype=float)  # noqa
        X = f(d["X"])
        if X.ndim == 1:
            X = X.reshape(len(d["leaf_of"]), -1)
        return State(f(d["kernel"]), X, d["leaf_of"], d["cl_of_leaf"], d["n_clusters"], d["K_max"], d["min_leaf"],
                     d["explore"], d["feats"], d.get("max_leaves"), d.get("kind", "corpus"))


def objective(labels, kernel):
    """sum_k sigma(C_k, C_k) / |C_k| by full recomputation (one-hot)."""
    K = int(labels.max()) + 1
    H = np.zeros((len(labels), K))
    H[np.arange(len(labels)), labels] = 1.0
    sizes = H.sum(0)
    stock = np.einsum("ik,ij,jk->k", H, kernel, H)
    nz = sizes > 0
    return float((stock[nz] / sizes[nz]).sum())


def kind_of(lt, rt, k, nc):
    if lt >= nc and rt >= nc:
        return "dstar"
    if lt >= nc or rt >= nc:
        return "star"
    if lt == k or rt == k:
        return "switch"
    return "realloc"


def enumerate_candidates(st):
    """L3: every admissible (leaf, feature, threshold, left_target, right_target) with its true gain."""
    lab = st.labels()
    base = objective(lab, st.kernel)
    nc, K_max = st.n_clusters, st.K_max
    m = max(1, st.min_leaf)
    out = []
    for j in st.explore:
        idx = np.nonzero(st.leaf_of == j)[0]
        k = int(st.cl_of_leaf[j])
        csize = int((lab == k).sum())
        pairs = []
        if nc < K_max:
            pairs += [(nc, k), (k, nc)]
        if nc < K_max - 1 and len(idx) != csize:
            pairs += [(nc, nc + 1)]
        if nc >= 2:
            for kp in range(nc):
                if kp != k:
                    pairs += [(kp, k), (k, kp)]
        if nc >= 3 and len(idx) != csize:
            pairs += [(a, b) for a in range(nc) for b in range(nc) if a != k and b != k and a != b]
        for f in st.feats:
            vals = np.unique(st.X[idx, f])
            for thr in vals[:-1]:
                L = idx[st.X[idx, f] <= thr]
                R = idx[st.X[idx, f] > thr]
                if len(L) < m or len(R) < m:
                    continue
                for (a, b) in pairs:
                    l2 = lab.copy()
                    l2[L] = a
                    l2[R] = b
                    out.append((objective(l2, st.kernel) - base, j, f, float(thr), a, b, kind_of(a, b, k, nc)))
    return base, out


def true_gain(st, leaf, feat, thr, lt, rt):
    lab = st.labels()
    idx = np.nonzero(st.leaf_of == leaf)[0]
    L = idx[st.X[idx, feat] <= thr]
    R = idx[st.X[idx, feat] > thr]
    l2 = lab.copy()
    l2[L] = lt
    l2[R] = rt
    return objective(l2, st.kernel) - objective(lab, st.kernel), len(L), len(R)


def read_split(t):
    g = t.float()
    c = t.opt(lambda: (t.int(), t.int(), t.float(), t.int(), t.int()))
    return g, c


def model_all(chk, st):
    t = chk.ask("c08.all " + st.enc())
    res = {"asis": read_split(t), "fix7": read_split(t), "fix8": read_split(t), "fixed": read_split(t)}
    res["ncand"] = t.int()
    res["spec_gain"] = t.float()
    res["spec_cand"] = (t.int(), t.int(), t.float(), t.int(), t.int())
    res["objective"] = t.float()
    return res


def impl_split(mod, st):
    sp = mod.find_best_split(*st.args())
    g = float(sp.gain)
    if int(sp.leaf) < 0:
        return g, None
    return g, (int(sp.leaf), int(sp.feature), float(sp.threshold), int(sp.left_target), int(sp.right_target))


def check_state(chk, st, where, replay_extra=None, exact=False):
    """L2 + L3 on one tree state for both artefacts.  Returns a dict with what happened."""
    replay = {"state": st.to_json(), "where": where}
    replay.update(replay_extra or {})
    scale = float(np.abs(st.kernel).sum())
    tol = 1e-9 * (1.0 + scale)
    info = {"known": set(), "kinds": {}, "bad": False}
    mdl = model_all(chk, st)
    base, cands = enumerate_candidates(st)
    bf_best = max([c[0] for c in cands], default=0.0)
    for kd in set(c[6] for c in cands):
        chk.dist["evaluated:" + kd] += 1
    info["bf_best"] = bf_best
    info["ncand"] = len(cands)

    # the model's own two sides must agree with each other and with the python brute force
    if abs(mdl["objective"] - base) > tol:
        chk.fail("model:objective", f"model objective {mdl['objective']} != recomputed objective {base}", replay)
    spec_best = max(mdl["spec_gain"], 0.0) if mdl["ncand"] else 0.0
    if abs(spec_best - max(bf_best, 0.0)) > tol:
        chk.fail("model:spec-vs-bruteforce", f"model best_spec gain {mdl['spec_gain']} ({mdl['ncand']} candidates) != brute-force best {bf_best} ({len(cands)} candidates)", replay)
    if abs(mdl["fixed"][0] - max(bf_best, 0.0)) > tol:
        chk.fail("model:fixed-vs-spec", f"repaired scan finds {mdl['fixed'][0]} but the best admissible increase is {bf_best}", replay)

    def correct(res):
        g, c = res
        if abs(g - max(bf_best, 0.0)) > tol:
            return False
        if c is not None and g > tol:
            return abs(true_gain(st, *c)[0] - g) <= tol
        return True

    answers = {}
    for name, mod in IMPLS.items():
        try:
            g, c = impl_split(mod, st)
            answers[name] = (g, c)
        except Exception as e:  # noqa
            chk.fail(f"find_best_split[{name}]:exception", f"{type(e).__name__}: {e}", replay)
            info["bad"] = True
            continue
        # ---- L2: as-is model
        ag, ac = mdl["asis"]
        agrees = abs(g - ag) <= tol
        if agrees and c != ac and not (g <= tol and (c is None or ac is None)):
            if exact:
                agrees = False
                chk.fail(f"find_best_split[{name}]:tie-order", f"exact-arithmetic state: implementation chose {c}, as-is model {ac} (gains {g} / {ag})", replay)
            else:
                chk.dist["near-tie-choice"] += 1
        elif not agrees:
            chk.fail(f"find_best_split[{name}]:asis-mismatch", f"implementation reports gain {g} at {c}; as-is model {ag} at {ac}", replay)
        # ---- L3: the property on the implementation's answer
        problems = []
        if c is not None and g > 0:
            leaf, feat, thr, lt, rt = c
            k = int(st.cl_of_leaf[leaf]) if 0 <= leaf < st.n_leaves else -1
            kd = kind_of(lt, rt, k, st.n_clusters)
            info["kinds"][name] = kd
            admissible = any((cc[1], cc[2], cc[4], cc[5]) == (leaf, feat, lt, rt) and
                             np.array_equal(st.X[st.leaf_of == leaf][:, feat] <= cc[3], st.X[st.leaf_of == leaf][:, feat] <= thr) for cc in cands)
            if not admissible:
                problems.append(f"chosen split {c} is not an admissible candidate")
            actual, nl, nr = true_gain(st, leaf, feat, thr, lt, rt)
            if abs(actual - g) > tol:
                problems.append(f"reported gain {g} but applying the {kd} split {c} changes the objective by {actual}")
            if bf_best > max(actual, 0.0) + tol:
                best = max(cands, key=lambda cc: cc[0])
                problems.append(f"chosen {kd} split {c} really gains {actual}; admissible {best[6]} split {best[1:6]} gains {best[0]}")
        else:
            info["kinds"][name] = "none"
            if bf_best > tol:
                best = max(cands, key=lambda cc: cc[0])
                problems.append(f"no split returned (gain {g}) although admissible {best[6]} split {best[1:6]} gains {best[0]}")
        if problems:
            info["bad"] = True
            keys = []
            if agrees:
                if correct(mdl["fix7"]):
                    keys = [KEY_F7]
                elif correct(mdl["fix8"]):
                    keys = [KEY_F8]
                elif correct(mdl["fixed"]):
                    keys = [KEY_F7, KEY_F8]
            if not keys:
                keys = [f"find_best_split[{name}]:gain-or-optimality"]
            for key in keys:
                chk.fail(key, f"[{name}] " + "; ".join(problems), replay, layer="L3")
                if key in (KEY_F7, KEY_F8):
                    info["known"].add(key)
                    chk.dist["known:" + key] += 1
    if len(answers) == 2 and abs(answers["so"][0] - answers["pyx"][0]) > tol:
        chk.dist["so-vs-pyx-disagree"] += 1      # reported in the evidence: the compiled module is stale w.r.t. the source
    for name, kd in info["kinds"].items():
        chk.dist[f"chosen[{name}]:{kd}"] += 1
    return info


# ------------------------------------------------------------------------------------------ generators
def gen_kernel(rng, X, n, which=None):
    which = which or rng.choice(["psd", "psd", "indef", "sigmoid", "rbf", "linear"])
    if which == "psd":
        A = rng.normal(size=(n, n))
        K = A @ A.T
    elif which == "indef":
        A = rng.normal(size=(n, n))
        K = A + A.T
    elif which == "sigmoid":
        K = np.tanh(0.5 * X @ X.T + rng.normal())
        K = (K + K.T) / 2
    elif which == "rbf":
        d2 = ((X[:, None, :] - X[None, :, :]) ** 2).sum(-1)
        K = np.exp(-d2 / X.shape[1])
    elif which == "int":
        A = rng.integers(-3, 4, size=(n, n)).astype(float)
        K = A + A.T
    else:
        K = X @ X.T
    return which, K


def gen_state(rng, quick=True, exact=False, force=None):
    n = int(rng.integers(4, 14 if quick else 22))
    d = int(rng.integers(1, 4))
    style = rng.choice(["round", "round", "grid", "cont", "dup"])
    if exact:
        style = rng.choice(["grid", "dup"])
    if style == "round":
        X = np.round(rng.normal(size=(n, d)), 1)
    elif style == "grid":
        X = rng.integers(0, 4, size=(n, d)).astype(float)
    elif style == "dup":
        base = np.round(rng.normal(size=(max(2, n // 2), d)), 1) if not exact else rng.integers(0, 5, size=(max(2, n // 2), d)).astype(float)
        X = base[rng.integers(0, len(base), size=n)]
    else:
        X = rng.normal(size=(n, d))
    if (exact or rng.random() < 0.15) and d >= 2:
        X[:, d - 1] = X[:, 0]              # duplicated feature column: exact ties between features
    kk, kernel = gen_kernel(rng, X, n, "int" if exact else None)
    hi_l = min(n, 8)
    n_leaves = int(rng.integers(1, hi_l + 1))
    if force == "deep":
        n_leaves = int(rng.integers(min(4, hi_l), hi_l + 1))
    leaf_of = rng.integers(0, n_leaves, size=n)
    leaf_of[rng.permutation(n)[:n_leaves]] = np.arange(n_leaves)
    lo_c = 1
    if force == "deep":
        lo_c = min(3, n_leaves)
    n_clusters = int(rng.integers(lo_c, min(n_leaves, 6) + 1))
    cl = rng.integers(0, n_clusters, size=n_leaves)
    cl[rng.permutation(n_leaves)[:n_clusters]] = np.arange(n_clusters)
    K_max = n_clusters + int(rng.choice([0, 0, 1, 2, 3]))
    min_leaf = int(rng.choice([1, 1, 1, 2, 3]))
    if rng.random() < 0.7:
        explore = list(range(n_leaves))
    else:
        explore = sorted(rng.choice(n_leaves, size=int(rng.integers(1, n_leaves + 1)), replace=False).tolist())
    if rng.random() < 0.3:
        explore = list(rng.permutation(explore))
    nf = d if rng.random() < 0.6 else int(rng.integers(1, d + 1))
    feats = rng.choice(d, size=nf, replace=False).tolist()
    max_leaves = n_leaves + int(rng.integers(0, 4))
    return State(kernel, X, leaf_of, cl, n_clusters, K_max, min_leaf, explore, feats, max_leaves=max_leaves, kind=f"{kk}/{style}")


def sig_of(st, info):
    multi = len(set(st.cl_of_leaf.tolist())) < st.n_leaves
    kd = info["kinds"].get("so", "none")
    return (kd, st.n, st.n_leaves, st.n_clusters, st.K_max, st.min_leaf, st.kind, multi, len(st.explore), len(st.feats))


def stream_states(chk, i, rng):
    st = gen_state(rng, chk.tier == "quick", force="deep" if i % 3 == 0 else None)
    info = check_state(chk, st, "states")
    chk.dist["kernel:" + st.kind.split("/")[0]] += 1
    chk.dist[f"K_max-nc={st.K_max - st.n_clusters}"] += 1
    chk.dist[f"min_leaf={st.min_leaf}"] += 1
    chk.count(sig_of(st, info) if info["kinds"].get("so", "none") != "none" else None)
    if info["kinds"].get("so") in ("dstar", "realloc"):
        chk.sample({"stream": "states", "n": st.n, "n_leaves": st.n_leaves, "n_clusters": st.n_clusters, "K_max": st.K_max,
                    "kernel": st.kind, "chosen": info["kinds"], "known": sorted(info["known"])}, limit=6)


def stream_realloc(chk, i, rng):
    """States where reallocation competes: >= 4 clusters, K_max = n_clusters (no star), several multi-leaf clusters."""
    n = int(rng.integers(7, 19 if chk.tier == "quick" else 26))
    d = int(rng.integers(1, 3))
    X = np.round(rng.normal(size=(n, d)), 1)
    kk, kernel = gen_kernel(rng, X, n)
    n_leaves = int(rng.integers(5, min(n, 10) + 1))
    leaf_of = rng.integers(0, n_leaves, size=n)
    leaf_of[rng.permutation(n)[:n_leaves]] = np.arange(n_leaves)
    nc = int(rng.integers(4, min(n_leaves, 7) + 1))
    cl = rng.integers(0, nc, size=n_leaves)
    cl[rng.permutation(n_leaves)[:nc]] = np.arange(nc)
    K_max = nc + int(rng.choice([0, 0, 0, 0, 0, 1]))
    st = State(kernel, X, leaf_of, cl, nc, K_max, int(rng.choice([1, 1, 1, 1, 2])), list(range(n_leaves)),
               rng.permutation(d).tolist(), kind=f"{kk}/round")
    info = check_state(chk, st, "realloc")
    chk.dist["realloc-states"] += 1
    chk.count(("realloc",) + sig_of(st, info) if info["kinds"].get("so", "none") != "none" else None)
    if KEY_F8 in info["known"]:
        chk.sample({"stream": "realloc", "n": st.n, "n_leaves": st.n_leaves, "n_clusters": st.n_clusters, "K_max": st.K_max,
                    "kernel": st.kind, "chosen": info["kinds"], "known": sorted(info["known"])}, limit=8)


def stream_exact(chk, i, rng):
    """Integer kernels and grid data (all stocks exact in binary64), duplicated columns and rows: the implementation's
    choice must be the as-is model's choice, ties included."""
    st = gen_state(rng, True, exact=True, force="deep" if i % 2 == 0 else None)
    info = check_state(chk, st, "exact", exact=True)
    chk.dist["exact-states"] += 1
    chk.count(("exact",) + sig_of(st, info) if info["kinds"].get("so", "none") != "none" else None)


# ------------------------------------------------------------------------------------------ whole fits
def gen_fit_case(chk, i, rng):
    quick = chk.tier == "quick"
    n = int(rng.integers(1, 4)) if i % 16 == 15 else int(rng.integers(4, 19 if quick else 30))
    d = int(rng.integers(1, 4))
    k_true = int(rng.integers(1, 5))
    centers = rng.normal(size=(k_true, d)) * 3
    X = centers[rng.integers(0, k_true, size=n)] + rng.normal(size=(n, d))
    if rng.random() < 0.5:
        X = np.round(X, 0 if rng.random() < 0.3 else 1)
    min_leaf = int(rng.choice([1, 1, 1, 2, 3]))
    params = dict(max_clusters=int(rng.integers(1, 7)), min_samples_leaf=min_leaf,
                  min_samples_split=int(2 * min_leaf + rng.integers(0, 3)),
                  max_depth=None if rng.random() < 0.5 else int(rng.integers(1, 5)),
                  max_leaves=None if rng.random() < 0.5 else int(rng.integers(2, 9)),
                  max_features=None if rng.random() < 0.6 else int(rng.integers(1, d + 1)),
                  random_state=int(rng.integers(0, 10 ** 6)))
    kk = rng.choice(["linear", "rbf", "sigmoid", "precomputed-indef", "precomputed-psd", "laplacian"])
    y = None
    if kk.startswith("precomputed"):
        A = rng.normal(size=(n, n))
        y = A + A.T if kk.endswith("indef") else A @ A.T
        params["kernel"] = "precomputed"
    else:
        params["kernel"] = kk
    replay = {"X": [[hx(v) for v in r] for r in X], "params": params, "kernel": kk,
              "precomputed": None if y is None else [[hx(v) for v in r] for r in y]}
    return X, y, params, kk, replay, n, d, min_leaf


def true_kernel(X, y, kk):
    """The kernel of the data the harness holds NOW, recomputed outside the estimator (sklearn as oracle)."""
    from sklearn.metrics.pairwise import pairwise_kernels
    if kk.startswith("precomputed"):
        return np.ascontiguousarray(y, dtype=np.float64)
    return np.ascontiguousarray(pairwise_kernels(np.asarray(X, dtype=np.float64), metric=kk), dtype=np.float64)


def run_fit_checks(chk, est, X, y, params, kk, replay, n, d, min_leaf, pre="fit"):
    """One est.fit(X, y) with every search recorded, then the L2/L3 checks of the whole fit against the kernel of
    the CURRENT data recomputed by the harness.  Returns None if the fit was (legitimately) rejected."""
    calls = []
    rec_err = []
    orig = kauri_mod.find_best_split
    try:
        sig = inspect.signature(orig)
    except (TypeError, ValueError):
        sig = inspect.signature(lambda kernel, X, leaves_to_explore, Y, Z, n_clusters, K_max, n_leaves, min_leaf, feature_subset: None)

    def recorder(*args, **kwargs):
        # signature-agnostic: forward unchanged, recover the values by binding against the original's signature
        sp = orig(*args, **kwargs)
        try:
            ba = sig.bind(*args, **kwargs)
            ba.apply_defaults()
            a = ba.arguments
            st = State.from_args(np.array(a["kernel"], copy=True), np.array(a["X"], copy=True),
                                 list(np.asarray(a["leaves_to_explore"]).tolist()), np.array(a["Y"], copy=True),
                                 np.array(a["Z"], copy=True), a["n_clusters"], a["K_max"], a["n_leaves"], a["min_leaf"],
                                 list(np.asarray(a["feature_subset"]).tolist()), kind=pre + "/" + kk)
            calls.append((st, float(sp.gain), (int(sp.leaf), int(sp.feature), float(sp.threshold), int(sp.left_target), int(sp.right_target))))
        except Exception:  # noqa  a bug of the recorder must never look like a failure of the implementation
            rec_err.append(traceback.format_exc(limit=4))
        return sp
    kauri_mod.find_best_split = recorder
    crashed = None
    try:
        try:
            est.fit(X, y)
        except ValueError as e:
            if n < min_leaf or 2 * min_leaf > params["min_samples_split"]:
                chk.count(None)
                chk.dist[pre + ":rejected"] += 1
                return None
            crashed = e
        except Exception as e:  # noqa  the searches recorded so far are still examined: they usually show the semantic cause
            crashed = e
    finally:
        kauri_mod.find_best_split = orig
    if rec_err:
        raise HarnessError("the find_best_split recorder failed: " + rec_err[0])
    kernel = true_kernel(X, y, kk)
    stale = False
    for t, (st_, _, _) in enumerate(calls):
        if st_.kernel.shape != kernel.shape or not np.allclose(st_.kernel, kernel, rtol=1e-9, atol=1e-9 * (1 + float(np.abs(kernel).max()))) \
                or not np.array_equal(st_.X, np.asarray(X, dtype=np.float64)):
            if st_.kernel.shape == kernel.shape and np.allclose(st_.kernel, kernel, rtol=1e-9, atol=1e-9 * (1 + float(np.abs(kernel).max()))):
                chk.fail(pre + ":search-data-not-fit-data", f"search {t} of this fit was handed a data matrix of shape {st_.X.shape} that is not the array of shape "
                         f"{np.asarray(X).shape} passed to fit: features / thresholds it returns do not refer to the columns fit applies them to", dict(replay, call=t), layer="L3")
            else:
                chk.fail(pre + ":kernel-not-of-current-data", f"search {t} of this fit received a kernel that is not the kernel of the array passed to fit "
                         f"(max |difference| {float(np.abs(st_.kernel - kernel).max()) if st_.kernel.shape == kernel.shape else 'shape'})", dict(replay, call=t), layer="L3")
            stale = True
            break
    scale = float(np.abs(kernel).sum())
    tol = 1e-9 * (1.0 + scale)
    known = set()
    bad = False
    kinds = []
    # per-call checks on the real states of this fit (both artefacts, L2 + L3)
    for t, (st, g, c) in enumerate(calls):
        info = check_state(chk, st, pre, {"fit": replay, "call": t})
        known |= info["known"]
        bad = bad or info["bad"]
        kinds.append(info["kinds"].get("so", "none"))
    if stale:
        known = set()          # nothing about this fit may be filed under a known finding
    # the split recorded at call t must be what the loop applied: objective(labels at t+1) - objective(labels at t) = gain_t
    labels_seq = [st.labels() for st, _, _ in calls]
    final = None if crashed is not None else np.asarray(est.labels_)
    gains = []
    for t, (st, g, c) in enumerate(calls):
        if g > 0:
            nxt = labels_seq[t + 1] if t + 1 < len(calls) else final
            if nxt is None:
                continue
            inc = objective(nxt, kernel) - objective(labels_seq[t], kernel)
            gains.append(g)
            leaf, feat, thr, lt, rt = c
            lab2 = labels_seq[t].copy()
            idx = np.nonzero(st.leaf_of == leaf)[0]
            lab2[idx[st.X[idx, feat] <= thr]] = lt
            lab2[idx[st.X[idx, feat] > thr]] = rt
            if not np.array_equal(lab2, nxt):
                chk.fail(pre + ":split-not-applied", f"call {t}: the labelling after the step is not the chosen split {c} applied to the previous labelling", dict(replay, call=t), layer="L3")
                bad = True
            elif abs(inc - g) > tol:
                for key in (sorted(known) or [pre + ":gain-not-increase"]):
                    chk.fail(key, f"call {t}: recorded gain {g} but the objective moved by {inc}", dict(replay, call=t), layer="L3")
                bad = True
        elif t + 1 < len(calls):
            chk.fail(pre + ":continued-without-gain", f"call {t} returned gain {g} <= 0 but the loop went on", dict(replay, call=t), layer="L3")
            bad = True
    if crashed is not None:
        chk.fail(pre + ":fit-raises", f"fit raised {type(crashed).__name__}: {crashed} after {len(calls)} split searches on data and parameters it must accept", replay, layer="L3")
        return None
    # stop rule
    max_leaves = params["max_leaves"] if params["max_leaves"] is not None else n
    max_depth = n if params["max_depth"] is None else params["max_depth"]
    leaves_final = np.asarray(est.leaves_)
    n_leaves_final = int(leaves_final.max()) + 1 if n else 0
    if calls and calls[-1][1] > 0:
        explorable = []
        for j in range(n_leaves_final):
            idx = np.nonzero(leaves_final == j)[0]
            if len(idx) == 0:
                continue                     # reported below as an empty leaf
            node, depth = 0, 0
            tr = est.tree_
            while tr.children_left[node] != -1:
                node = tr.children_left[node] if X[idx[0], tr.features[node]] <= tr.thresholds[node] else tr.children_right[node]
                depth += 1
            if depth < max_depth and len(idx) >= params["min_samples_split"]:
                explorable.append(j)
        if n_leaves_final < max_leaves and explorable:
            chk.fail(pre + ":stopped-early", f"the last search returned gain {calls[-1][1]} > 0, {n_leaves_final} < max_leaves={max_leaves} and leaves {explorable} are still explorable, yet fit stopped", replay, layer="L3")
            bad = True
        chk.dist["stop:structural"] += 1
    elif calls:
        chk.dist["stop:no-gain"] += 1        # that no admissible split has positive gain was checked by check_state on the last call
    else:
        chk.dist["stop:root-not-explorable"] += 1
        if n >= params["min_samples_split"] and max_leaves > 1:
            chk.fail(pre + ":never-searched", "fit did not search although the root is explorable", replay, layer="L3")
    if n_leaves_final != 1 + len(gains):
        chk.fail(pre + ":leaf-count", f"{n_leaves_final} leaves after {len(gains)} applied splits", replay, layer="L3")
    # the split recorded in the tree, the partition used for the next step and the gain announced describe ONE partition:
    # the (feature, threshold) stored at the node must cut the node's samples exactly as the split the search returned
    tr = est.tree_
    leaf2node, nl_ = {0: 0}, 1
    Xf = np.asarray(X, dtype=np.float64)
    for t, (st, g, c) in enumerate(calls):
        if g <= 0:
            continue
        leaf, feat, thr, lt, rt = c
        node = leaf2node.get(leaf)
        idx = np.nonzero(st.leaf_of == leaf)[0]
        want_left = Xf[idx, feat] <= thr
        if node is None or tr.children_left[node] == -1 or tr.features[node] != feat or tr.thresholds[node] is None:
            chk.fail(pre + ":tree-split-differs", f"call {t}: the tree does not record the chosen split {c} at the node of leaf {leaf}", dict(replay, call=t), layer="L3")
            break
        got_left = Xf[idx, tr.features[node]] <= tr.thresholds[node]
        if not np.array_equal(got_left, want_left) or not want_left.any() or want_left.all():
            chk.fail(pre + ":tree-split-differs", f"call {t}: the search returned feature {feat} <= {thr!r} (left samples {idx[want_left].tolist()}, gain {g}) but the tree stores "
                     f"feature {tr.features[node]} <= {tr.thresholds[node]!r}, which sends {idx[got_left].tolist()} left", dict(replay, call=t), layer="L3")
            break
        leaf2node[leaf], leaf2node[nl_] = tr.children_left[node], tr.children_right[node]
        nl_ += 1
    sizes = np.bincount(leaves_final, minlength=n_leaves_final) if n else np.array([])
    if n and (sizes.min() < max(1, min_leaf)):
        chk.fail(pre + ":empty-or-small-leaf", f"leaf sizes {sizes.tolist()} with min_samples_leaf={min_leaf}", replay, layer="L3")
    try:
        pred = np.asarray(est.predict(Xf))
    except Exception as e:  # noqa
        pred = None
        chk.fail(pre + ":predict-exception", f"predict on the training data raises {type(e).__name__}: {e}", replay, layer="L3")
    if pred is not None and not np.array_equal(pred, final):
        chk.fail(pre + ":predict-differs-from-labels", f"routing the training samples through the recorded thresholds gives {pred.tolist()}, labels_ is {final.tolist()}", replay, layer="L3")
    # final score = root score + sum of the recorded gains
    root = float(kernel.sum() / n)
    total = root + sum(gains)
    s_labels = float(so_mod.gemini_objective(final.astype(np.int64), np.ascontiguousarray(kernel, dtype=np.float64)))
    s_oracle = objective(final, kernel)
    s_score = float(est.score(X, y))
    tree_gains = float(sum(g for g in est.tree_.gains if g))
    msgs = []
    if abs(s_labels - s_oracle) > tol:
        msgs.append(f"gemini_objective(labels_)={s_labels} but the objective of labels_ is {s_oracle}")
    if abs(s_score - s_oracle) > tol:
        msgs.append(f"score(X)={s_score} but the objective of labels_ is {s_oracle}")
    if abs(tree_gains - sum(gains)) > tol:
        msgs.append(f"tree_.gains sum to {tree_gains}, the recorded gains to {sum(gains)}")
    if abs(total - s_oracle) > tol * (1 + len(gains)):
        msgs.append(f"root score {root} + gains {sum(gains)} = {total} but the final objective is {s_oracle}")
    if msgs:
        only_tel = all("root score" in m or "tree_.gains" in m for m in msgs)
        for key in (sorted(known) if (known and only_tel) else [pre + ":score-telescoping"]):
            chk.fail(key, "; ".join(msgs), replay, layer="L3")
    if "pyx" in IMPLS:
        s_pyx = float(IMPLS["pyx"].gemini_objective(final.astype(np.int64), np.ascontiguousarray(kernel, dtype=np.float64)))
        if abs(s_pyx - s_oracle) > tol:
            chk.fail("gemini_objective[pyx]", f"desugared gemini_objective={s_pyx}, objective={s_oracle}", replay, layer="L3")
    # the model's history telescopes as well (L2: gains_along / run_splits on the recorded splits)
    if calls and gains and n <= 16:
        st0 = calls[0][0]
        cs = [c for (_, g, c) in calls if g > 0]
        # the model applies splits to its own state, so the explore list is irrelevant here
        t = chk.ask("c08.history " + st0.enc() + " " + enc_list(cs, lambda c: f"{c[0]} {c[1]} {hx(c[2])} {c[3]} {c[4]}"))
        o0 = t.float()
        mg = t.list(t.float)
        o1 = t.float()
        if abs(o0 - root) > tol or abs(o1 - s_oracle) > tol or any(abs(a - b) > tol for a, b in zip(mg, gains)):
            only_gain = abs(o0 - root) <= tol and abs(o1 - s_oracle) <= tol
            for key in (sorted(known) if (known and only_gain) else [pre + ":model-history"]):
                chk.fail(key, f"model history objective {o0} -> {o1} with gains {mg}; implementation root {root}, final {s_oracle}, gains {gains}", replay)
    chk.traces += 1
    chk.dist[f"{pre}:splits={min(len(gains), 6)}"] += 1
    chk.dist[pre + ":kernel:" + kk] += 1
    chk.count((pre, n, d, params["max_clusters"], min_leaf, kk, len(gains), tuple(sorted(set(kinds)))) if gains else None)
    chk.sample({"stream": pre, "n": n, "d": d, "params": {k: v for k, v in params.items()}, "kernel": kk,
                "gains": gains, "kinds": kinds, "root": root, "final": s_oracle}, limit=5)
    return {"labels": final.copy(), "gains": list(gains), "final": s_oracle, "calls": len(calls), "bad": bad, "known": known}


def stream_fit(chk, i, rng):
    X, y, params, kk, replay, n, d, min_leaf = gen_fit_case(chk, i, rng)
    run_fit_checks(chk, Kauri(**params), X, y, params, kk, replay, n, d, min_leaf)


def stream_refit(chk, i, rng):
    """ONE estimator fitted twice: fit(X); then the SAME array is modified in place (rows shuffled, rescaled, a column
    overwritten) or a new array of the same shape is passed; fit again.  Every check of a fit is run on the second
    fit against the kernel of the current data, the result is compared with a fresh estimator, and score() of an
    earlier array must still be the objective of that array."""
    X, y, params, kk, replay, n, d, min_leaf = gen_fit_case(chk, i, rng)
    if kk.startswith("precomputed"):
        kk = str(rng.choice(["linear", "rbf", "sigmoid", "laplacian"]))
        y = None
        params["kernel"] = kk
        replay.update(kernel=kk, precomputed=None, params=params)
    X = np.ascontiguousarray(X, dtype=np.float64)
    est = Kauri(**params)
    mode = ["shuffle", "rescale", "column", "new-array", "score-other"][i % 5]
    replay = dict(replay, refit=mode)
    first = run_fit_checks(chk, est, X, y, params, kk, replay, n, d, min_leaf, pre="refit-first")
    if first is None:
        chk.count(None)
        return
    A = X.copy()
    if mode == "shuffle":
        rng.shuffle(X)                       # in place, same object
    elif mode == "rescale":
        X *= float(rng.choice([0.1, 3.0, -1.0]))
        X += rng.normal(size=X.shape) * (0.5 if n > 1 else 0.0)
    elif mode == "column":
        X[:, int(rng.integers(0, d))] = rng.normal(size=n) * 2
    else:
        X = np.ascontiguousarray(rng.normal(size=X.shape) * 2 + 1)
    replay2 = dict(replay, X_second=[[hx(v) for v in r] for r in X])
    second = run_fit_checks(chk, est, X, y, params, kk, replay2, n, d, min_leaf, pre="refit")
    if second is None:
        chk.count(None)
        return
    fresh = Kauri(**params).fit(X.copy())
    if not np.array_equal(fresh.labels_, second["labels"]) or \
            len([g for g in fresh.tree_.gains if g]) != len(second["gains"]) or \
            not np.allclose(sorted(g for g in fresh.tree_.gains if g), sorted(second["gains"]), rtol=1e-9, atol=1e-12):
        chk.fail("refit:differs-from-fresh", f"after a first fit, fit on the current data gives labels/gains {second['labels'].tolist()} / {second['gains']} "
                 f"but a fresh estimator with the same parameters gives {fresh.labels_.tolist()} / {[g for g in fresh.tree_.gains if g]}", replay2, layer="L3")
    # score of another array than the last one fitted (and of the fitted one again) is the objective of THAT array
    for name, B in (("first array", A), ("current array", X)):
        KB = true_kernel(B, None, kk)
        want = objective(np.asarray(est.predict(B)), KB)
        got = float(est.score(B))
        if abs(got - want) > 1e-9 * (1 + float(np.abs(KB).sum())):
            chk.fail("refit:score-of-other-data", f"score({name}) = {got} but the objective of predict({name}) under the kernel of that array is {want}", replay2, layer="L3")
    chk.dist["refit:" + mode] += 1


def adversarial_column(rng, n, kind):
    """A feature column with exact ties and an adversarial pair at the place where the blocks of the kernel meet."""
    up = lambda v: float(np.nextafter(v, np.inf))  # noqa
    if kind == "adjacent":
        lo = float(rng.choice([0.3, 1.0, -2.5, 1e-3, 7.0, 0.1 + 0.7, -1e-9, 123456.789]))
        pair = (lo, up(lo))
        rest_lo = [lo - abs(lo) * rng.random() - 0.1 * (k + 1) for k in range(n)]
        rest_hi = [pair[1] + abs(lo) * rng.random() + 0.1 * (k + 1) for k in range(n)]
    elif kind == "huge":
        pair = [(1e300, up(1e300)), (8e307, 1.7e308), (-1.7e308, -8e307), (-1e300, 1e300), (1.5e308, up(1.5e308))][int(rng.integers(0, 5))]
        rest_lo = [pair[0] - abs(pair[0]) * 0.01 * (k + 1) if abs(pair[0]) < 1.6e308 else pair[0] for k in range(n)]
        rest_hi = [min(pair[1] + abs(pair[1]) * 0.001 * (k + 1), 1.79e308) for k in range(n)]
    elif kind == "denormal":
        pair = [(0.0, 5e-324), (-5e-324, 0.0), (1e-310, up(1e-310)), (-0.0, 5e-324), (-1e-320, -5e-324)][int(rng.integers(0, 5))]
        rest_lo = [pair[0] - 1e-312 * (k + 1) for k in range(n)]
        rest_hi = [pair[1] + 1e-312 * (k + 1) for k in range(n)]
    else:   # ties
        lo = float(rng.integers(-3, 4)) / 8
        pair = (lo, lo + 0.125)
        rest_lo = [lo - 0.125 * int(rng.integers(0, 3)) for _ in range(n)]
        rest_hi = [pair[1] + 0.125 * int(rng.integers(0, 3)) for _ in range(n)]
    n_lo = int(rng.integers(1, n))
    vals_lo = [pair[0]] + [float(rng.choice([pair[0]] + rest_lo[:3])) for _ in range(n_lo - 1)]
    vals_hi = [pair[1]] + [float(rng.choice([pair[1]] + rest_hi[:3])) for _ in range(n - n_lo - 1)]
    return np.array(vals_lo + vals_hi, dtype=np.float64), n_lo


def stream_advfloat(chk, i, rng):
    """Adversarial floats reaching Kauri.fit (lessons R3 section 2): adjacent doubles, exact ties and duplicated values at
    the cut, magnitudes whose sums overflow, denormals and signed zeros, with a precomputed block kernel that puts the
    best cut exactly between the adversarial pair; also sizes 1 (one feature, K = 1) and limits reached exactly."""
    kind = ["adjacent", "huge", "denormal", "ties"][i % 4]
    n = int(rng.integers(3, 11))
    col, n_lo = adversarial_column(rng, n, kind)
    d = int(rng.integers(1, 3))
    X = np.empty((n, d))
    X[:, 0] = col
    if d == 2:
        X[:, 1] = rng.integers(0, 3, size=n) / 8.0 if rng.random() < 0.5 else col[::-1]
    groups = (np.arange(n) >= n_lo).astype(int)
    if n - n_lo >= 2 and rng.random() < 0.4:
        groups[n_lo + (n - n_lo) // 2:] = 2           # a third block: a second cut inside ordinary values
    kernel = np.where(groups[:, None] == groups[None, :], 1.0, -0.5) + 0.01 * np.eye(n)
    if rng.random() < 0.5:
        N = rng.normal(size=(n, n)) * 0.01
        kernel = kernel + N + N.T
    perm = rng.permutation(n)
    X, kernel = np.ascontiguousarray(X[perm]), np.ascontiguousarray(kernel[np.ix_(perm, perm)])
    min_leaf = int(rng.choice([1, 1, 1, 2]))
    params = dict(max_clusters=int(rng.integers(1, 5)), min_samples_leaf=min_leaf, min_samples_split=2 * min_leaf,
                  max_depth=None if rng.random() < 0.5 else int(rng.integers(1, 4)),
                  max_leaves=None if rng.random() < 0.6 else int(rng.integers(2, 5)),
                  max_features=None, random_state=int(rng.integers(0, 10 ** 6)), kernel="precomputed")
    kk = "precomputed-adv-" + kind
    replay = {"X": [[hx(v) for v in r] for r in X], "params": params, "kernel": kk, "precomputed": [[hx(v) for v in r] for r in kernel]}
    X0, K0 = X.copy(), kernel.copy()
    res = run_fit_checks(chk, Kauri(**params), X, kernel, params, kk, replay, n, d, min_leaf, pre="advfloat")
    if not (np.array_equal(X0, X) and np.array_equal(K0, kernel)) or np.signbit(X0).tolist() != np.signbit(X).tolist():
        chk.fail("advfloat:argument-modified", "fit modified the caller's data or kernel array", replay, layer="L3")
    chk.dist["advfloat:" + kind] += 1
    if res is not None and res["gains"]:
        chk.dist["advfloat:split-at-adversarial-pair" if res["calls"] else "advfloat:none"] += 1


def stream_repr(chk, i, rng):
    """Same values, other representation (lessons R3 section 1): fit / fit_predict / predict / score of Kauri on integer
    dtypes, float32, Fortran order, non-contiguous views, read-only arrays, lists and tuples must give exactly the result
    of the float64 C-contiguous reference and leave the caller's arrays untouched; the precomputed kernel is presented
    in the same representations (integer / float32 / read-only kernels included)."""
    n = int(rng.integers(4, 13))
    d = int(rng.integers(1, 4))
    integral = i % 3 == 0
    X = rng.integers(-6, 7, size=(n, d)).astype(np.float64) if integral else rng.integers(-44, 45, size=(n, d)) / 8.0 - 0.0625 * 0
    if not integral:
        X = X - 0.5 * (np.abs(X) == np.round(np.abs(X)))       # fractional (and negative) thresholds such as -5.5
    pre = i % 2 == 0
    kk = "precomputed" if pre else str(rng.choice(["linear", "rbf", "laplacian"]))
    K = None
    if pre:
        A = rng.integers(-3, 4, size=(n, n)).astype(np.float64) / (1 if i % 4 == 0 else 4)     # integral kernels too (int64 / int32 variants)
        K = A + A.T
    params = dict(max_clusters=int(rng.integers(2, 5)), min_samples_leaf=1, min_samples_split=2, kernel=kk,
                  random_state=int(rng.integers(0, 10 ** 6)))
    replay = {"X": X.tolist(), "params": params, "precomputed": None if K is None else K.tolist()}
    ref = Kauri(**params).fit(X.copy(), None if K is None else K.copy())
    ref_labels = np.asarray(ref.labels_)
    ref_gains = sorted(float(g) for g in ref.tree_.gains if g)
    ref_score = float(ref.score(X.copy(), None if K is None else K.copy()))
    Q = np.round(X[rng.permutation(n)][: max(2, n // 2)] + rng.integers(-1, 2, size=(max(2, n // 2), d)))   # integral query points
    ref_pred = np.asarray(ref.predict(Q.copy()))

    def variants(A, allow_int):
        out = [("fortran", np.asfortranarray(A.copy())), ("readonly", A.copy()), ("list", A.tolist()),
               ("tuple", tuple(map(tuple, A.tolist())))]
        out[1][1].setflags(write=False)
        big = np.zeros((2 * A.shape[0], 2 * A.shape[1]))
        big[::2, ::2] = A
        out.append(("strided-view", big[::2, ::2]))
        out.append(("reversed-view", np.ascontiguousarray(A[:, ::-1])[:, ::-1]))
        if allow_int:
            out.append(("float32", A.astype(np.float32)))          # multiples of 1/8 and small integers are exact in float32
            if np.array_equal(A, np.round(A)):
                out += [("int64", A.astype(np.int64)), ("int32", A.astype(np.int32))]
        return out

    def snapshot(v):
        return v.copy() if isinstance(v, np.ndarray) else json.dumps(v)

    def same(v, snap):
        return (np.array_equal(v, snap) and v.dtype == snap.dtype) if isinstance(v, np.ndarray) else json.dumps(v) == snap

    cases = [("X:" + nm, xv, K) for nm, xv in variants(X, True)]
    if K is not None:
        cases += [("K:" + nm, X, kv) for nm, kv in variants(K, True)]
    for nm, xv, kv in cases:
        rp = dict(replay, representation=nm)
        sx, sk = snapshot(xv), (None if kv is None else snapshot(kv))
        try:
            est = Kauri(**params)
            lab = np.asarray(est.fit_predict(xv, kv)) if i % 2 else np.asarray(est.fit(xv, kv).labels_)
            gains = sorted(float(g) for g in est.tree_.gains if g)
            sc = float(est.score(xv, kv))
        except Exception as e:  # noqa
            chk.fail("repr:exception", f"{nm}: {type(e).__name__}: {e} although the float64 C-contiguous call succeeds", rp, layer="L3")
            continue
        if not np.array_equal(lab, ref_labels) or len(gains) != len(ref_gains) or not np.allclose(gains, ref_gains, rtol=1e-12, atol=1e-12) \
                or abs(sc - ref_score) > (1e-5 if nm.endswith("float32") else 1e-12) * (1 + abs(ref_score)):   # score() of float32 data evaluates the kernel in float32
            chk.fail("repr:result-differs", f"{nm}: labels {lab.tolist()} gains {gains} score {sc}; reference labels {ref_labels.tolist()} gains {ref_gains} score {ref_score}", rp, layer="L3")
        if not same(xv, sx) or (kv is not None and not same(kv, sk)):
            chk.fail("repr:argument-modified", f"{nm}: the caller's array was modified by fit / score", rp, layer="L3")
        chk.dist["repr:" + nm.split(":")[1]] += 1
    for nm, qv in variants(Q, True):
        sq = snapshot(qv)
        try:
            pr = np.asarray(ref.predict(qv))
        except Exception as e:  # noqa
            chk.fail("repr:predict-exception", f"query as {nm}: {type(e).__name__}: {e}", dict(replay, query=Q.tolist(), representation=nm), layer="L3")
            continue
        if not np.array_equal(pr, ref_pred):
            chk.fail("repr:predict-differs", f"query as {nm}: {pr.tolist()} but {ref_pred.tolist()} for the same values as float64 "
                     f"(thresholds {[t for t in ref.tree_.thresholds if t is not None]})", dict(replay, query=Q.tolist(), representation=nm), layer="L3")
        if not same(qv, sq):
            chk.fail("repr:argument-modified", f"predict modified the query array ({nm})", dict(replay, representation=nm), layer="L3")
    chk.count(("repr", n, d, kk, integral, len(ref_gains)) if ref_gains else None)


def stream_corpus(chk, i, rng):
    files = sorted(glob.glob(f"{VERIF}/corpus/C08/*.json"))
    if i >= len(files):
        return
    d = json.load(open(files[i]))
    st = State.from_json(d["state"])
    info = check_state(chk, st, "corpus:" + os.path.basename(files[i]))
    exp = d.get("expect_known")
    if exp is not None and sorted(info["known"]) != sorted(exp):
        chk.notes.append(f"corpus {os.path.basename(files[i])}: expected known findings {exp}, observed {sorted(info['known'])}")
    chk.dist["corpus"] += 1
    chk.count(("corpus", os.path.basename(files[i])))


STREAMS = {"corpus": (stream_corpus, 8, 8), "states": (stream_states, 1500, 24000), "realloc": (stream_realloc, 2500, 30000),
           "exact": (stream_exact, 400, 8000), "fit": (stream_fit, 260, 4000), "refit": (stream_refit, 60, 900),
           "advfloat": (stream_advfloat, 80, 1200), "repr": (stream_repr, 24, 300)}


def main():
    chk = Check("C08")
    out = chk.build()
    chk.regenerated["Gen/KauriFormulas.v"] = "translator failed (stale copy used; correspondence decides)" if "TRANSLATOR-FAIL translator/tr_kauriformulas.py" in out else "regenerated"
    chk.proofs()
    load_impls(chk)
    if chk.replay_path:
        rp = json.load(open(chk.replay_path))
        inp = rp.get("input", {})
        chk.seed = rp.get("seed", chk.seed)
        if "state" in inp:
            chk.cur = (inp.get("stream", "replay"), inp.get("case", 0))
            check_state(chk, State.from_json(inp["state"]), "replay", exact=inp.get("stream") == "exact")
            chk.cur = None
        elif inp.get("stream") in STREAMS:
            chk.run_stream(inp["stream"], guarded(inp["stream"], STREAMS[inp["stream"]][0]), 0, only=inp.get("case"))
    else:
        for name, (fn, q, th) in STREAMS.items():
            cnt = q if chk.tier == "quick" else th
            if chk.l1_broken and name != "corpus":
                cnt *= 3
            chk.run_stream(name, guarded(name, fn), cnt)
    chosen = {k: v for k, v in chk.dist.items() if k.startswith("chosen[")}
    if chk.dist.get("so-vs-pyx-disagree"):
        chk.notes.append(f"the compiled gemclus.tree._utils and the desugared _utils.pyx disagree on {chk.dist['so-vs-pyx-disagree']} states: "
                         "the .so is stale with respect to the source (it cannot be rebuilt here: no Cython)")
    chk.finish(rule="streams: random TREE STATES (random leaf partitions, leaf->cluster maps with multi-leaf clusters, K_max-n_clusters in 0..3, "
                    "min_leaf 1..3, leaf and feature subsets, rounded/grid/duplicated data, PSD/indefinite/sigmoid/rbf/linear/integer kernels) and every state "
                    "met by find_best_split during real Kauri.fit runs; on each state the compiled module and the desugared .pyx are compared with the extracted "
                    "as-is model and judged by a python brute force over all admissible candidates. non-trivial = the search returns a split with positive gain; "
                    "distinct = distinct (kind chosen, n, n_leaves, n_clusters, K_max, min_leaf, kernel/data kind, multi-leaf, |explore|, |feats|) signature. "
                    "further streams: refit (one estimator fitted twice on an array modified in place / replaced; all per-fit checks against the kernel of the current data recomputed by the harness), advfloat (adjacent doubles, exact ties, 1e300 magnitudes, denormals and signed zeros at the cut with precomputed block kernels; the tree's stored split, the applied partition and the announced gain must describe one partition; predict(X) = labels_; no empty leaf), repr (int / float32 / Fortran / strided / read-only / list / tuple presentations of X, of the precomputed kernel and of query points give the float64 result and leave the arguments untouched). "
                    "input_distribution: evaluated:<family> = states offering that family, chosen[so|pyx]:<family> = family of the returned split",
               extra={"regenerated_ties": chk.regenerated, "branch_counts": chosen,
                      "artefacts": sorted(IMPLS)})


if __name__ == "__main__":
    main()
