"""C12 — fitting is reproducible, history-independent and free of side effects.

L1  Props/C12.v (data-flow facts over the regenerated Gen/AttrFlow.v, history independence in the abstract model).
L2  (a) table: the regenerated constructor/hyper-parameter tables against the running classes;
    (b) trace: the real sequence of attribute loads/stores of fit / predict / score / path on instrumented
        estimators must be a word of the model's flattened event tree (flow), for every class;
    (c) history: the model's must/may attribute sets and "this call hits a missing attribute" predictions along
        random operation sequences.
L3  the property itself on the implementation: after any history, fit (and path) gives bit-identical state to a
    fresh object with the same hyper-parameters; no call changes the caller's arrays or the hyper-parameters;
    no fitted attribute is loaded during a fit before that same fit stored it; get_params/set_params/clone round-trip.
Bit-wise comparison is deliberate here: the property is exact reproducibility, not numerical closeness.
"""
import sys, os, io, copy, json, types, functools, contextlib, inspect, signal
import numpy as np
from core import Check
import impl
from sklearn.base import clone
from gemclus.gemini._base_loss import _GEMINI

G = impl.G
GEMDIR = os.path.dirname(os.path.dirname(os.path.abspath(G.__file__))) + os.sep
SKIP = ("_batchify", "_compute_grads")          # instance attributes holding the mlcl decoration closures
PUBLIC = ["fit", "fit_predict", "predict", "predict_proba", "score", "path"]


# ------------------------------------------------------------------------------------------ instrumentation
class _Tracer:
    def __init__(self):
        self.on = False
        self.log = []


TR = _Tracer()
_TRACED = {}


def traced(name):
    """Subclass of the estimator recording stores (from any code) and loads (from gemclus code) of instance attributes."""
    if name in _TRACED:
        return _TRACED[name]
    cls = impl.ALL_ESTIMATORS[name]

    def __setattr__(self, k, v):
        if TR.on:
            TR.log.append(("W", k))
        object.__setattr__(self, k, v)

    def __getattribute__(self, k):
        v = object.__getattribute__(self, k)
        if TR.on and k[:2] != "__" and k not in SKIP and k in object.__getattribute__(self, "__dict__"):
            if sys._getframe(1).f_code.co_filename.startswith(GEMDIR):
                TR.log.append(("R", k))
        return v

    T = type(cls.__name__, (cls,), {"__setattr__": __setattr__, "__getattribute__": __getattribute__,
                                    "__module__": cls.__module__, "__qualname__": cls.__qualname__})
    _TRACED[name] = T
    return T


# ------------------------------------------------------------------------------------------ canonical forms
def canon(v, depth=0):
    """Exact, hashable image of a value: arrays by dtype/shape/bytes, objects by their attributes, callables by identity."""
    if depth > 10:
        return ("deep",)
    if isinstance(v, np.ndarray):
        if v.dtype == object:
            return ("ndo", v.shape, tuple(canon(x, depth + 1) for x in v.ravel()))
        return ("nd", v.dtype.str, v.shape, np.ascontiguousarray(v).tobytes())
    if isinstance(v, np.generic):
        return ("ns", v.dtype.str, v.tobytes())
    if v is None or isinstance(v, (bool, int, str)):
        return ("py", type(v).__name__, v)
    if isinstance(v, float):
        return ("float", np.float64(v).tobytes())
    if isinstance(v, (list, tuple)):
        return (type(v).__name__, tuple(canon(x, depth + 1) for x in v))
    if isinstance(v, dict):
        return ("dict", tuple(sorted((str(k), canon(x, depth + 1)) for k, x in v.items())))
    if isinstance(v, (types.FunctionType, types.BuiltinFunctionType, types.MethodType, functools.partial)):
        return ("fn", id(v))
    if isinstance(v, np.random.RandomState):
        return ("rs", canon(v.get_state(), depth + 1))
    if hasattr(v, "__dict__"):
        return ("obj", type(v).__name__, canon(vars(v), depth + 1))
    return ("other", repr(v))


def hp_names(obj):
    return HP[type(obj).__name__]


def state_of(obj):
    hp = hp_names(obj)
    return {k: canon(v) for k, v in vars(obj).items() if k not in hp and k not in SKIP}


def params_image(obj):
    p = obj.get_params(deep=False)
    return {k: (id(v), canon(v)) for k, v in p.items()}


HP = {}      # class name -> attributes stored by the constructor (runtime truth; compared with the model in stream "table")
for _n, _c in impl.ALL_ESTIMATORS.items():
    HP[_n] = set(vars(_c()).keys())


# ------------------------------------------------------------------------------------------ configurations and data
def kern1(X):
    X = np.asarray(X, dtype=float)
    return np.exp(-0.1 * ((X[:, None, :] - X[None, :, :]) ** 2).sum(-1))


def kern2(X, Y):
    X, Y = np.asarray(X, dtype=float), np.asarray(Y, dtype=float)
    return (X @ Y.T + 1.0) ** 2


def dist1(X):
    X = np.asarray(X, dtype=float)
    return np.abs(X[:, None, :] - X[None, :, :]).sum(-1)


BOMB = {"limit": 10 ** 9, "calls": 0}     # kept outside the object: the GEMINI instance itself stays unchanged


class CountingGemini(G.MMDGEMINI):
    """A user-supplied GEMINI object (accepted by the generic models) whose evaluation raises after BOMB['limit'] calls."""

    def evaluate(self, y_pred, affinity, return_grad=False):
        BOMB["calls"] += 1
        if BOMB["calls"] > BOMB["limit"]:
            raise RuntimeError("objective failed")
        return super().evaluate(y_pred, affinity, return_grad)


# optional keyword parameters of the named kernels / metrics (sklearn.metrics.pairwise): every key may be given or not
KPAR = {"rbf": ["gamma"], "laplacian": ["gamma"], "polynomial": ["gamma", "degree", "coef0"], "poly": ["gamma", "degree", "coef0"],
        "sigmoid": ["gamma", "coef0"], "linear": [], "cosine": []}
MPAR = {"euclidean": ["squared"], "cityblock": [], "manhattan": [], "l2": [], "cosine": []}
PVALS = {"gamma": [0.25, 0.5], "degree": [2, 3], "coef0": [0.5, 1.0], "squared": [True, False]}


def partial_params(rng, keys, p_none=0.25):
    """None, or a dictionary in which each optional key is present or absent independently ({} included)."""
    if rng.random() < p_none:
        return None
    return {k: PVALS[k][int(rng.integers(len(PVALS[k])))] for k in keys if rng.random() < 0.5}


def valid_params(par, name, table):
    """par restricted to what the kernel / metric `name` accepts (the same object when nothing has to go)."""
    if par is None:
        return None
    if not isinstance(name, str) or name not in table:
        return None
    if all(k in table[name] for k in par):
        return par
    return {k: v for k, v in par.items() if k in table[name]}


GENERIC = ["LinearModel", "MLPModel", "SparseLinearModel", "SparseMLPModel", "CategoricalModel", "Douglas"]


def pool(name, rng, d):
    """For every constructor argument of the class: a function drawing a valid value."""
    P = {}
    ch = lambda *xs: (lambda: xs[int(rng.integers(len(xs)))])
    P["n_clusters"] = ch(2, 3)
    P["max_iter"] = ch(2, 3)
    P["learning_rate"] = ch(0.01, 0.05)
    P["solver"] = ch("adam", "sgd")
    P["batch_size"] = ch(None, 4, 5, 50)
    P["random_state"] = lambda: int(rng.integers(0, 1000))
    P["verbose"] = ch(False, False, False, True)
    if name in GENERIC:
        def gem():
            r = int(rng.integers(0, 16))
            names = ["mmd_ova", "mmd_ovo", "kl_ova", "kl_ovo", "mi", "tv_ova", "tv_ovo", "hellinger_ova", "hellinger_ovo",
                     "chi2_ova", "wasserstein_ova"]
            if r < len(names):
                return names[r]
            kk = ["rbf", "laplacian", "polynomial", "sigmoid", "poly"][int(rng.integers(5))]
            return [None, G.MMDGEMINI(kernel=kk, kernel_params=partial_params(rng, KPAR[kk], 0.1), ovo=bool(rng.integers(2))), G.KLGEMINI(ovo=True),
                    G.WassersteinGEMINI(metric="euclidean", metric_params=partial_params(rng, MPAR["euclidean"], 0.1)),
                    G.MMDGEMINI(kernel="precomputed")][r - len(names)]
        P["gemini"] = gem
    P["kernel"] = ch("linear", "rbf", "polynomial", "laplacian", "sigmoid", "poly", "cosine", "precomputed", kern1) if name != "Kauri" else ch("linear", "rbf", "precomputed")
    P["kernel_params"] = lambda: partial_params(rng, ["gamma", "degree", "coef0"])
    P["metric"] = ch("euclidean", "euclidean", "cityblock", "precomputed", dist1)
    P["metric_params"] = lambda: partial_params(rng, ["squared"])
    P["ovo"] = ch(False, True)
    P["reg"] = ch(0.1, 0.5)
    P["base_kernel"] = ch("linear", "rbf", "polynomial", "sigmoid", kern2)
    P["base_kernel_params"] = lambda: partial_params(rng, ["gamma", "degree", "coef0"])
    P["n_hidden_dim"] = ch(3, 5)
    P["alpha"] = ch(0.05, 0.2, 1.0)
    P["groups"] = lambda: [None, [[0, 1]], [[0, 1], [2]], [[2], [0]]][int(rng.integers(4))]
    P["dynamic"] = ch(False, False, True)
    P["M"] = ch(5, 10)
    P["n_cuts"] = ch(1, 2)
    P["temperature"] = ch(0.1, 0.5)

    def mask():
        if rng.random() < 0.4:
            return None
        m = rng.random(d) < 0.6
        m[int(rng.integers(d))] = True
        return m
    P["feature_mask"] = mask
    P["max_clusters"] = ch(2, 3)
    P["max_depth"] = ch(None, 2, 3)
    P["min_samples_split"] = ch(2, 4)
    P["min_samples_leaf"] = ch(1, 2)
    P["max_features"] = ch(None, 1, 2)
    P["max_leaves"] = ch(None, 3, 4)
    sig = inspect.signature(impl.ALL_ESTIMATORS[name].__init__).parameters
    return {k: P[k] for k in sig if k != "self"}


def fix_config(cfg):
    """Keep drawn values jointly valid (parameter dictionaries only with the kernels that take them)."""
    if "kernel_params" in cfg:
        cfg["kernel_params"] = valid_params(cfg["kernel_params"], cfg.get("kernel"), KPAR)
    if "base_kernel_params" in cfg:
        cfg["base_kernel_params"] = valid_params(cfg["base_kernel_params"], cfg.get("base_kernel"), KPAR)
    if "metric_params" in cfg:
        cfg["metric_params"] = valid_params(cfg["metric_params"], cfg.get("metric"), MPAR)
    if "min_samples_split" in cfg and cfg["min_samples_split"] < 2 * cfg["min_samples_leaf"]:
        cfg["min_samples_split"] = 2 * cfg["min_samples_leaf"]
    return cfg


def draw_config(name, rng, d):
    pl = pool(name, rng, d)
    return fix_config({k: f() for k, f in pl.items()}), pl


class Data:
    def __init__(self, rng, n, d, kind="f8"):
        X = impl.blobs(rng, n, d, k=2)
        if kind == "int":
            X = np.round(X * 3).astype(np.int64)
        elif kind == "fortran":
            X = np.asfortranarray(X)
        elif kind == "list":
            X = X.tolist()
        self.X = X
        Xa = np.asarray(X, dtype=float)
        # hand-made affinities as users build them: tiny negative round-off residues where the distance is zero,
        # a slightly asymmetric kernel (the linear kernel has negative entries anyway), sometimes Fortran order
        self.K = Xa @ Xa.T
        self.D = np.sqrt(((Xa[:, None, :] - Xa[None, :, :]) ** 2).sum(-1))
        idx = rng.integers(0, n, size=3)
        self.D[idx, idx] = -1e-9 * (1 + np.arange(3))
        i, j = int(idx[0]), int((idx[0] + 1) % n)
        self.D[i, j] -= 2e-9
        self.K[i, j] += 1e-9
        if rng.random() < 0.3:
            self.K, self.D = np.asfortranarray(self.K), np.asfortranarray(self.D)
        self.kind, self.n, self.d = kind, n, d


def affinity_for(obj, data):
    """The y argument the current hyper-parameters require (a precomputed kernel / distance matrix) or None."""
    p = obj.get_params(deep=False)
    g = p.get("gemini")
    if p.get("kernel") == "precomputed" or (isinstance(g, G.MMDGEMINI) and g.kernel == "precomputed"):
        return data.K
    if p.get("metric") == "precomputed" or (isinstance(g, G.WassersteinGEMINI) and g.metric == "precomputed"):
        return data.D
    return None


def build(name, cfg, deco=None):
    e = traced(name)(**cfg)
    if deco is not None:
        impl.add_mlcl_constraint(e, deco["ml"], deco["cl"], deco["factor"])
    return e


# ------------------------------------------------------------------------------------------ one observed call
class Outcome:
    pass


class CallTimeout(Exception):
    """A call of the implementation did not return (e.g. a path started from an alpha left at 0 by an earlier call)."""

    def __str__(self):
        return "call did not return within the time limit"


CALL_LIMIT_S = 20.0      # ordinary calls on this data take milliseconds
TIMEOUTS = [0]


class CaseAbort(Exception):
    """The case cannot go on (a call did not return); the failure has been recorded."""


def call_limit():
    return CALL_LIMIT_S if TIMEOUTS[0] == 0 else (5.0 if TIMEOUTS[0] < 4 else 1.0)


def aborting(fn):
    @functools.wraps(fn)
    def run(chk, i, rng):
        try:
            fn(chk, i, rng)
        except CaseAbort:
            chk.count(None)
    return run


def _on_alarm(signum, frame):
    raise CallTimeout()


def invoke(chk, obj, m, data, replay, kwargs=None, X=None, y="auto"):
    """Call obj.m(X, y, **kwargs) with instrumentation; check the caller's arrays and the hyper-parameters around it."""
    o = Outcome()
    Xin = data.X if X is None else X
    yin = affinity_for(obj, data) if isinstance(y, str) else y
    args = [Xin] if m in ("predict", "predict_proba") else [Xin, yin]
    before_in = canon([Xin, yin, getattr(obj, "_c12_deco", None)])
    before_p = params_image(obj)
    TR.log = []
    TR.on = True
    o.exc = None
    o.result = None
    old = signal.signal(signal.SIGALRM, _on_alarm)
    limit = call_limit()
    signal.setitimer(signal.ITIMER_REAL, limit)
    try:
        with contextlib.redirect_stdout(io.StringIO()):
            o.result = getattr(obj, m)(*args, **(kwargs or {}))
    except Exception as e:      # noqa
        o.exc = e
    finally:
        signal.setitimer(signal.ITIMER_REAL, 0)
        signal.signal(signal.SIGALRM, old)
        TR.on = False
    if isinstance(o.exc, CallTimeout):
        TIMEOUTS[0] += 1
        chk.fail(f"{m}:no-return", f"{type(obj).__name__}.{m} did not return within {limit:.0f} s (hyper-parameters now: "
                 f"{ {k: repr(v)[:30] for k, v in obj.get_params(deep=False).items() if k in ('alpha', 'max_iter', 'batch_size')} })", replay, layer="L3")
        raise CaseAbort()
    o.trace = TR.log
    TR.log = []
    name = type(obj).__name__
    if canon([Xin, yin, getattr(obj, "_c12_deco", None)]) != before_in:
        chk.fail(f"{m}:mutates-input", f"{name}.{m} changed the caller's data / affinity / constraint lists", replay, layer="L3")
    after_p = params_image(obj)
    if after_p != before_p:
        diff = sorted(k for k in set(before_p) | set(after_p) if before_p.get(k) != after_p.get(k))
        why = "after an exception " if o.exc is not None else ""
        key = f"{m}:exception:alpha-not-restored" if (o.exc is not None and m == "path" and diff == ["alpha"]) else f"{m}:mutates-params"
        chk.fail(key, f"{name}.{m} {why}left hyper-parameter(s) {diff} modified", dict(replay, params=diff), layer="L3")
    if m in ("fit", "fit_predict") and o.exc is None:
        stale = stale_reads(o.trace, hp_names(obj))
        if stale:
            chk.fail("fit:stale-read", f"{name}.{m} loads fitted attribute(s) {stale} before storing them in the same call", dict(replay, attrs=stale), layer="L3")
    if m in ("predict", "predict_proba", "score"):
        wr = sorted({a for k, a in o.trace if k == "W"})
        if wr:
            chk.fail(f"{m}:writes", f"{name}.{m} stores attribute(s) {wr}", dict(replay, attrs=wr), layer="L3")
    return o


def stale_reads(trace, hp):
    seen, bad = set(), []
    for k, a in trace:
        if k == "W":
            seen.add(a)
        elif a not in hp and a not in seen and a not in bad:
            bad.append(a)
    return bad


# ------------------------------------------------------------------------------------------ model access
def read_events(t):
    def ev():
        k = t.next()
        if k in "RSWTMX":
            return (k, t.next())
        if k in "PF":
            return (k,)
        if k == "C":
            return (k, t.next())
        if k == "A":
            return (k, t.next(), t.next())
        if k == "I":
            return (k, t.next(), t.bool(), t.list(ev))
        if k == "B":
            return (k, t.list(ev), t.list(ev))
        if k == "L":
            return (k, t.list(ev))
        if k == "Y":
            return (k, t.list(ev), t.list(ev))
        raise RuntimeError("bad event token " + k)
    return t.list(ev)


_FLOW = {}


def model_flow(chk, name, m):
    if (name, m) not in _FLOW:
        t = chk.ask(f"c12.flow {name} {m}")
        has = t.bool()
        _FLOW[(name, m)] = (has, read_events(t))
    return _FLOW[(name, m)]


class NFA:
    """Thompson automaton of an event tree; loads are ('R', a), stores ('W', a); Mut / ReadParams / CheckFitted are silent."""

    def __init__(self, es):
        self.eps, self.tr = [], []
        s = self.new()
        self.start = s
        self.end = self.seq(es, s)
        self.ok = True

    def new(self):
        self.eps.append(set())
        self.tr.append({})
        return len(self.eps) - 1

    def seq(self, es, s):
        for e in es:
            s = self.one(e, s)
        return s

    def one(self, e, s):
        k = e[0]
        if k in "RS" or k in "WT":
            n = self.new()
            self.tr[s].setdefault(("R" if k in "RS" else "W", e[1]), set()).add(n)
            return n
        if k in "MPF":
            return s
        if k == "B":
            n = self.new()
            for alt in (e[1], e[2]):
                a = self.new()
                self.eps[s].add(a)
                self.eps[self.seq(alt, a)].add(n)
            return n
        if k == "L":
            a, n = self.new(), self.new()
            self.eps[s].add(a)
            self.eps[s].add(n)
            b = self.seq(e[1], a)
            self.eps[b].add(a)
            self.eps[b].add(n)
            return n
        if k == "Y":
            return self.seq(e[2], self.seq(e[1], s))
        # unresolved call, flag or Stuck left in a flow: nothing can match
        n = self.new()
        self.tr[s].setdefault(("?", repr(e[:2])), set()).add(n)
        return n

    def closure(self, S):
        st, out = list(S), set(S)
        while st:
            for n in self.eps[st.pop()]:
                if n not in out:
                    out.add(n)
                    st.append(n)
        return out

    def match(self, word):
        cur = self.closure({self.start})
        for i, sym in enumerate(word):
            nxt = set()
            for s in cur:
                nxt |= self.tr[s].get(sym, set())
            if not nxt:
                exp = sorted({k for s in cur for k in self.tr[s]})
                return i, exp
            cur = self.closure(nxt)
        if self.end not in cur:
            return len(word), sorted({k for s in cur for k in self.tr[s]})
        return None


_NFA = {}


def check_trace(chk, name, m, trace, replay):
    has, es = model_flow(chk, name, m)
    if (name, m) not in _NFA:
        _NFA[(name, m)] = NFA(es)
    r = _NFA[(name, m)].match(trace)
    if r is not None:
        i, exp = r
        chk.fail(f"attrflow:{m}:trace-mismatch",
                 f"{name}.{m}: observed attribute event #{i} {trace[i] if i < len(trace) else 'END'} is not allowed by the regenerated flow "
                 f"(expected one of {exp[:8]}); context {trace[max(0, i - 4):i + 2]}", dict(replay, method=m))
    return r is None


# ------------------------------------------------------------------------------------------ stream: table
def stream_table(chk, i, rng):
    t = chk.ask("c12.classes")
    classes = t.list(lambda: (t.next(), t.bool()))
    concrete = [c for c, f in classes if f]
    if i == 0:
        if sorted(concrete) != sorted(impl.ALL_ESTIMATORS):
            chk.fail("table:classes", f"concrete estimator classes of the regenerated table {sorted(concrete)} differ from the package's {sorted(impl.ALL_ESTIMATORS)}", {})
        chk.count("classes")
        return
    name = concrete[(i - 1) % len(concrete)]
    cls = impl.ALL_ESTIMATORS.get(name)
    if cls is None:
        chk.count(None)
        return
    t = chk.ask(f"c12.params {name}")
    args, hps, stores = t.list(t.next), t.list(t.next), t.list(lambda: (t.next(), t.opt(t.next)))
    sig = [p for p in inspect.signature(cls.__init__).parameters if p != "self"]
    replay = {"estimator": name}
    if args != sig:
        chk.fail("table:ctor-args", f"{name}: constructor arguments {sig} but the table has {args}", replay)
    if sorted(cls().get_params(deep=False)) != sorted(args):
        chk.fail("table:get_params", f"{name}: get_params keys differ from the table's constructor arguments", replay)
    if set(hps) != HP[name]:
        chk.fail("table:init-attrs", f"{name}: constructor stores {sorted(HP[name])} but the table has {sorted(set(hps))}", replay)
    # every store (attr, Some src) is `self.attr = src` unmodified: probe with sentinels
    sent = {a: object() for a in sig}
    try:
        e = cls(**sent)
    except Exception as ex:      # noqa
        chk.fail("table:ctor-computes", f"{name}: the constructor does more than store its arguments (opaque sentinel arguments raise {ex!r})", replay, layer="L3")
        chk.count(None)
        return
    for a, src in stores:
        if src is not None and getattr(e, a) is not sent[src]:
            chk.fail("table:stores", f"{name}: attribute {a} does not hold constructor argument {src} unmodified", dict(replay, attr=a))
        if src is None and any(getattr(e, a) is s for s in sent.values()):
            chk.fail("table:stores", f"{name}: attribute {a} holds a constructor argument but the table says constant", dict(replay, attr=a))
    t = chk.ask(f"c12.facts {name}")
    facts = [t.bool() for _ in range(9)]
    labels = ["no_stale_read", "fit_overwrites_all", "no_hyperparam_write", "predict_methods_write_nothing", "path_restores_params",
              "path_no_stale_read", "resolved", "classified", "stores_ok"]
    for ok, lab in zip(facts, labels):
        if not ok:
            chk.fail(f"facts:{lab}", f"{name}: the data-flow fact {lab} is false on the regenerated table", dict(replay, fact=lab))
    for m in PUBLIC:
        has, _ = model_flow(chk, name, m)
        if has != callable(getattr(cls, m, None)):
            chk.fail("table:methods", f"{name}.{m}: table says defined={has}", dict(replay, method=m))
    chk.dist["table"] += 1
    chk.count(("table", name))


# ------------------------------------------------------------------------------------------ stream: trace
def stream_trace(chk, i, rng):
    names = list(impl.ALL_ESTIMATORS)
    name = names[i % len(names)]
    d = int(rng.integers(3, 5))
    cfg, _ = draw_config(name, rng, d)
    if i < 2 * len(names):
        cfg["verbose"] = (i >= len(names))          # both sides of every `if self.verbose` at least once per class
    A = Data(rng, int(rng.integers(8, 14)), d)
    B = Data(rng, int(rng.integers(8, 14)), d)
    replay = {"estimator": name, "config": {k: repr(v) for k, v in cfg.items()}}
    e = build(name, cfg)
    seq = ["fit", "predict", "predict_proba", "score", "fit_predict", "predict", "score", "path", "score", "fit"]
    ok_all = True
    nev = 0
    last = A
    for m in seq:
        if not callable(getattr(e, m, None)):
            continue
        kw = None
        if m == "path":
            kw = dict(alpha_multiplier=float(rng.choice([2.0, 3.0])), min_features=int(rng.integers(1, d)),
                      max_patience=int(rng.integers(1, 3)), restore_best_weights=bool(rng.random() < 0.7))
        if m in ("fit", "fit_predict", "path"):
            last = B if m == "fit_predict" else A
        o = invoke(chk, e, m, last, dict(replay, method=m), kwargs=kw)
        if o.exc is not None:
            chk.dist[f"trace-raised:{m}:{type(o.exc).__name__}"] += 1
            break
        ok_all &= check_trace(chk, name, m, o.trace, replay)
        nev += len(o.trace)
        chk.traces += 1
    chk.dist["trace:" + name] += 1
    chk.dist["trace-events"] += nev
    chk.count(("trace", name, tuple(sorted((k, repr(v)) for k, v in cfg.items() if k in ("verbose", "batch_size", "solver", "dynamic", "groups", "gemini", "kernel", "metric", "base_kernel", "feature_mask", "max_features")))))
    chk.sample({"stream": "trace", "estimator": name, "events": nev}, limit=2)


# ------------------------------------------------------------------------------------------ stream: history
def compare_states(chk, key, what, s1, s2, replay):
    if s1 != s2:
        diff = sorted(k for k in set(s1) | set(s2) if s1.get(k) != s2.get(k))
        chk.fail(key, f"{what}: attribute(s) {diff} differ from those of a fresh object with the same hyper-parameters", dict(replay, attrs=diff), layer="L3")
        return False
    return True


def same_exc(a, b):
    return (a is None and b is None) or (a is not None and b is not None and type(a) is type(b) and str(a) == str(b))


def final_comparison(chk, name, e, cfg_now, deco, A, replay, rng, tag, pristine=None):
    """fit (and path) on e after its history vs. on a fresh object with the same hyper-parameters.  An exception is an
    outcome like another: it must be the same on both sides (whether the call should raise is not this property's matter)."""
    ref = build(name, cfg_now, deco)
    if deco is not None:
        ref._c12_deco = e._c12_deco
    if params_image(ref) != params_image(e):
        chk.fail("history:fresh-params", "a fresh object built from get_params() does not carry the same hyper-parameters", replay, layer="L3")
    o1 = invoke(chk, e, "fit", A, dict(replay, stage="final-fit"))
    o2 = invoke(chk, ref, "fit", A, dict(replay, stage="fresh-fit"))
    if not same_exc(o1.exc, o2.exc):
        chk.fail(f"{tag}:fit-differs", f"fit ended with {o1.exc!r} after the history but with {o2.exc!r} on a fresh object", replay, layer="L3")
        return False
    if o1.exc is not None:
        chk.dist["final-fit-raises:" + type(o1.exc).__name__] += 1
        return True
    ok = compare_states(chk, f"{tag}:fit-differs", f"{name}.fit after the history", state_of(e), state_of(ref), replay)
    if pristine is not None:
        # a pristine clone: built from deep copies of the hyper-parameter values taken when they were given, before any call
        ref3 = build(name, copy.deepcopy(pristine), deco)
        if deco is not None:
            ref3._c12_deco = e._c12_deco
        o3 = invoke(chk, ref3, "fit", A, dict(replay, stage="pristine-fit"))
        if not same_exc(o1.exc, o3.exc):
            chk.fail(f"{tag}:fit-differs-from-pristine-clone", f"fit ended with {o1.exc!r} after the history but with {o3.exc!r} on a pristine clone", replay, layer="L3")
            ok = False
        else:
            ok &= compare_states(chk, f"{tag}:fit-differs-from-pristine-clone", f"{name}.fit after the history (vs. an object built from copies of the "
                                 f"hyper-parameters taken before any call)", state_of(e), state_of(ref3), replay)
    for m in ("predict", "predict_proba", "score"):
        if callable(getattr(e, m, None)):
            r1 = invoke(chk, e, m, A, dict(replay, stage="final-" + m))
            r2 = invoke(chk, ref, m, A, dict(replay, stage="fresh-" + m))
            if canon(r1.result) != canon(r2.result) or not same_exc(r1.exc, r2.exc):
                chk.fail(f"{tag}:{m}-differs", f"{name}.{m} differs between the object with a history and the fresh one", replay, layer="L3")
                ok = False
    if name in impl.SPARSE:
        kw = dict(alpha_multiplier=float(rng.choice([2.0, 3.0])), min_features=int(rng.integers(1, A.d)),
                  max_patience=int(rng.integers(1, 3)), restore_best_weights=bool(rng.random() < 0.7))
        p1 = invoke(chk, e, "path", A, dict(replay, stage="final-path"), kwargs=kw)
        p2 = invoke(chk, ref, "path", A, dict(replay, stage="fresh-path"), kwargs=kw)
        if not same_exc(p1.exc, p2.exc) or canon(p1.result) != canon(p2.result):
            chk.fail(f"{tag}:path-differs", f"{name}.path returns different histories/weights ({p1.exc!r} / {p2.exc!r}) after the history than on a fresh object", replay, layer="L3")
            ok = False
        ok &= compare_states(chk, f"{tag}:path-differs", f"{name}.path after the history", state_of(e), state_of(ref), replay)
        if p1.exc is not None:
            chk.dist["final-path-raises:" + type(p1.exc).__name__] += 1
        # twice on the same object
        p3 = invoke(chk, e, "path", A, dict(replay, stage="second-path"), kwargs=kw)
        if not same_exc(p3.exc, p1.exc) or canon(p3.result) != canon(p1.result):
            chk.fail(f"{tag}:path-twice-differs", f"{name}.path run twice on the same object gives different results", replay, layer="L3")
            ok = False
        chk.traces += 1
    chk.traces += 1
    return ok


def stream_history(chk, i, rng, decorated=False):
    names = list(impl.GRADIENT_ESTIMATORS) if decorated else list(impl.ALL_ESTIMATORS)
    name = names[i % len(names)]
    rnd = i // len(names)
    d = int(rng.integers(3, 5))
    nA, nB = int(rng.integers(8, 15)), int(rng.integers(8, 15))
    # (path() reads X.shape before any validation and so rejects a plain list with AttributeError: whether it should is
    # C04/C07's matter; a list as final dataset would only make both paths raise alike, so sparse models get arrays)
    kinds = ["f8", "f8", "f8", "fortran", "int"] + ([] if name in impl.SPARSE else ["list"])
    A = Data(rng, nA, d, kind=str(rng.choice(kinds)))
    dB = d if name == "Douglas" or rng.random() < 0.5 else d + 1
    if rnd == 2 and name != "Douglas":
        dB = d + 1          # fit on data with another number of features, then the final fit: compared with a pristine clone
    B = Data(rng, nB, dB)
    cfg, pl = draw_config(name, rng, d)
    cfg["verbose"] = False
    if "batch_size" in cfg and rng.random() < 0.15:
        cfg["batch_size"] = nA          # exactly one full batch on the final dataset
    deco = None
    if decorated:
        m = min(nA, nB)
        pairs = [[int(a), int(b)] for a, b in rng.integers(0, m, size=(4, 2)) if a != b]
        deco = {"ml": pairs[:1] or None, "cl": [p for p in pairs[1:3] if p not in pairs[:1] and p[::-1] not in pairs[:1]] or None,
                "factor": float(rng.choice([0.5, 2.0]))}
    maxlen = 8 if chk.tier == "quick" else 20
    if rnd == 0:
        plan = ["fit:A"]                       # fitting twice on the same object
    elif rnd == 1:
        plan = ["fit:A", "clone"]              # a clone of a fitted object
    elif rnd == 2:
        plan = ["fit:B", "predict", "score", "set_params", "fit:B", "restore"]
    else:
        opsl = ["fit:A", "fit:B", "fit_predict:B", "predict", "predict_proba", "score", "set_params", "restore", "clone"]
        if name in impl.SPARSE:
            opsl += ["path:A", "path:B"]
        plan = [str(rng.choice(opsl)) for _ in range(int(rng.integers(1, maxlen + 1)))]
    replay = {"estimator": name, "config": {k: repr(v) for k, v in cfg.items()}, "plan": plan, "decorated": deco,
              "nA": nA, "nB": nB, "d": d, "dB": dB, "kindA": A.kind}
    pristine0 = copy.deepcopy(cfg)
    pristine = copy.deepcopy(cfg)
    e = build(name, cfg, deco)
    if deco is not None:
        e._c12_deco = [deco["ml"], deco["cl"]]
    cur = dict(cfg)
    last = None
    hops, seen = [], []
    for op in plan:
        kind, _, which = op.partition(":")
        if kind in ("fit", "fit_predict", "path"):
            data = A if which == "A" else B
            kw = None
            if kind == "path":
                kw = dict(alpha_multiplier=float(rng.choice([2.0, 3.0])), min_features=int(rng.integers(1, data.d)), max_patience=1)
            o = invoke(chk, e, kind, data, dict(replay, at=op), kwargs=kw)
            if o.exc is None:
                last = data
            hops.append(f"C {kind} {int(o.exc is not None)}")
            seen.append((op, o.exc, set(k for k in vars(e) if k not in HP[name] and k not in SKIP)))
        elif kind in ("predict", "predict_proba", "score"):
            if not callable(getattr(e, kind, None)):
                continue
            data = last if last is not None else A
            o = invoke(chk, e, kind, data, dict(replay, at=op))
            hops.append(f"C {kind} {int(o.exc is not None)}")
            seen.append((op, o.exc, set(k for k in vars(e) if k not in HP[name] and k not in SKIP)))
        elif kind == "set_params":
            keys = [k for k in pl if k not in ("verbose",)]
            ks = [str(k) for k in rng.choice(keys, size=min(len(keys), int(rng.integers(1, 3))), replace=False)]
            new = fix_config(dict(cur, **{k: pl[k]() for k in ks}))
            new["verbose"] = False
            changed = {k: v for k, v in new.items() if v is not cur[k]}
            pristine.update(copy.deepcopy(changed))
            e.set_params(**changed)
            cur = new
            hops.append("P")
            seen.append((op, None, None))
        elif kind == "restore":
            e.set_params(**cfg)
            cur = dict(cfg)
            pristine = copy.deepcopy(pristine0)
            hops.append("P")
            seen.append((op, None, None))
        elif kind == "clone":
            before = params_image(e)
            try:
                c = clone(e)
            except Exception as ex:      # noqa
                chk.fail("clone:raises", f"sklearn.base.clone({name}) raises {ex!r}: the constructor does not keep its arguments as given", dict(replay, at=op), layer="L3")
                raise CaseAbort()
            if {k: v[1] for k, v in params_image(c).items()} != {k: v[1] for k, v in before.items()}:
                chk.fail("clone:params", f"clone of {name} does not carry equal hyper-parameters", dict(replay, at=op), layer="L3")
            if set(vars(c)) - HP[name]:
                chk.fail("clone:fitted", f"clone of {name} carries fitted attributes {sorted(set(vars(c)) - HP[name])}", dict(replay, at=op), layer="L3")
            if params_image(e) != before:
                chk.fail("clone:mutates-params", "clone changed the original's hyper-parameters", dict(replay, at=op), layer="L3")
            e = c
            cur = e.get_params(deep=False)
            pristine = copy.deepcopy(pristine)      # the clone's values are copies of values that must still be the given ones
            if deco is not None:
                impl.add_mlcl_constraint(e, deco["ml"], deco["cl"], deco["factor"])
                e._c12_deco = [deco["ml"], deco["cl"]]
            last = None
            hops.append("K")
            seen.append((op, None, None))
    # L2: the model's bookkeeping along the same history
    if hops and not decorated:
        t = chk.ask(f"c12.track {name} {len(hops)} " + " ".join(hops))
        pred = t.list(lambda: (t.bool(), t.list(t.next), t.list(t.next)))
        for (op, exc, attrs), (unsafe, must, may) in zip(seen, pred):
            if attrs is None:
                continue
            if (exc is not None) != unsafe and (unsafe or op in ("predict", "predict_proba", "score")):
                chk.fail("history:model-exception", f"{name} {op}: implementation {'raised ' + repr(exc) if exc is not None else 'returned'} but the model "
                         f"{'predicts a load of a missing attribute' if unsafe else 'predicts a complete call'}", dict(replay, at=op))
            must_f = {a for a in must if a not in HP[name]}
            if exc is None and not must_f <= attrs:
                chk.fail("history:model-must", f"{name} after {op}: attributes {sorted(must_f - attrs)} certainly written in the model are absent", dict(replay, at=op))
            if not attrs <= set(may):
                chk.fail("history:model-may", f"{name} after {op}: attributes {sorted(attrs - set(may))} exist but no call of the model's history can store them", dict(replay, at=op))
    cfg_now = e.get_params(deep=False)
    ok = final_comparison(chk, name, e, cfg_now, deco, A, replay, rng, "history" if not decorated else "mlcl", pristine=pristine)
    chk.dist[("mlcl:" if decorated else "hist:") + name] += 1
    chk.dist[f"len={min(len(plan), 9)}{'+' if len(plan) > 9 else ''}"] += 1
    nfit = sum(1 for p in plan if p.startswith(("fit", "path")))
    chk.count((name, tuple(plan), decorated) if nfit >= 1 else None)
    if len(plan) >= 4:
        chk.sample({"stream": "mlcl" if decorated else "history", "estimator": name, "plan": plan, "identical_to_fresh": ok}, limit=5)


def stream_mlcl(chk, i, rng):
    stream_history(chk, i, rng, decorated=True)


# ------------------------------------------------------------------------------------------ stream: round trip
def stream_roundtrip(chk, i, rng):
    names = list(impl.ALL_ESTIMATORS)
    name = names[i % len(names)]
    cls = impl.ALL_ESTIMATORS[name]
    cfg, pl = draw_config(name, rng, 3)
    replay = {"estimator": name, "config": {k: repr(v) for k, v in cfg.items()}}
    e = cls(**cfg)
    for k, v in cfg.items():
        if getattr(e, k) is not v:
            chk.fail("roundtrip:ctor", f"{name}: constructor argument {k} is not stored unmodified under its own name", dict(replay, param=k), layer="L3")
    p = e.get_params(deep=False)
    if set(p) != set(cfg) or any(p[k] is not cfg[k] for k in cfg):
        chk.fail("roundtrip:get_params", f"{name}: get_params does not return the constructor arguments", replay, layer="L3")
    pd = e.get_params(deep=True)
    if any(pd[k] is not cfg[k] for k in cfg):
        chk.fail("roundtrip:get_params", f"{name}: get_params(deep=True) does not return the constructor arguments", replay, layer="L3")
    try:
        c = clone(e)
    except Exception as ex:      # noqa
        chk.fail("clone:raises", f"sklearn.base.clone({name}) raises {ex!r}: the constructor does not keep its arguments as given", replay, layer="L3")
        chk.count(None)
        return
    pc = c.get_params(deep=False)
    for k, v in cfg.items():
        same = (pc[k] is v) if callable(v) and not isinstance(v, _GEMINI) else (canon(pc[k]) == canon(v) and type(pc[k]) is type(v))
        if not same:
            chk.fail("roundtrip:clone", f"{name}: clone does not preserve hyper-parameter {k}", dict(replay, param=k), layer="L3")
    if set(vars(c)) != set(vars(e)):
        chk.fail("roundtrip:clone", f"{name}: clone has different attributes", replay, layer="L3")
    # set_params one at a time, then all at once
    new = fix_config({k: f() for k, f in pl.items()})
    e2 = cls(**cfg)
    exp = dict(cfg)
    for k, v in new.items():
        r = e2.set_params(**{k: v})
        exp[k] = v
        got = e2.get_params(deep=False)
        if r is not e2 or getattr(e2, k) is not v or got[k] is not v:
            chk.fail("roundtrip:set_params", f"{name}: set_params({k}=...) is not read back by get_params", dict(replay, param=k), layer="L3")
        if any(got[k2] is not exp[k2] for k2 in exp):
            chk.fail("roundtrip:set_params", f"{name}: set_params({k}=...) changed another hyper-parameter", dict(replay, param=k), layer="L3")
    e3 = cls(**cfg)
    e3.set_params(**e3.get_params(deep=False))
    if params_image(e3) != {k: (id(v), canon(v)) for k, v in cfg.items()}:
        chk.fail("roundtrip:set_params", f"{name}: set_params(**get_params()) changes the object", replay, layer="L3")
    before = params_image(e3)
    try:
        e3.set_params(no_such_parameter=1)
        chk.fail("roundtrip:invalid-key", f"{name}: set_params accepts an unknown parameter", replay, layer="L3")
    except ValueError:
        pass
    if params_image(e3) != before or "no_such_parameter" in vars(e3):
        chk.fail("roundtrip:invalid-key", f"{name}: a rejected set_params changed the object", replay, layer="L3")
    chk.dist["roundtrip:" + name] += 1
    chk.count(("rt", name, tuple(sorted((k, repr(v)) for k, v in cfg.items()))))


# ------------------------------------------------------------------------------------------ stream: malformed / interrupted calls
def stream_malformed(chk, i, rng):
    names = list(impl.ALL_ESTIMATORS)
    kinds = ["nan-fit", "unfitted", "bad-param", "nan-path", "bomb-path", "bomb-fit", "mask-length", "precomputed-missing"]
    kind = kinds[i % len(kinds)]
    d = 3
    pick = lambda ns: ns[(i // len(kinds)) % len(ns)]
    if kind in ("nan-path",):
        name = pick(impl.SPARSE)
    elif kind == "bomb-path":
        name = pick(["SparseLinearModel", "SparseMLPModel"])
    elif kind == "bomb-fit":
        name = pick(GENERIC)
    elif kind == "mask-length":
        name = "Douglas"
    elif kind == "precomputed-missing":
        name = pick([n for n in names if "MMD" in n or "Wasserstein" in n])
    else:
        name = pick(names)
    cfg, pl = draw_config(name, rng, d)
    cfg["verbose"] = False
    A = Data(rng, int(rng.integers(8, 14)), d)
    bad = copy.deepcopy(A)
    bad.X = np.array(A.X, copy=True)
    bad.X[int(rng.integers(A.n)), int(rng.integers(d))] = np.nan
    replay = {"estimator": name, "kind": kind, "config": {k: repr(v) for k, v in cfg.items()}}
    raised = True
    if kind == "nan-fit":
        e = build(name, cfg)
        if rng.random() < 0.5:
            invoke(chk, e, "fit", A, replay)
        o = invoke(chk, e, "fit", bad, replay)
        raised = o.exc is not None
    elif kind == "unfitted":
        e = build(name, cfg)
        for m in ("predict", "predict_proba", "score"):
            if callable(getattr(e, m, None)):
                before = state_of(e)
                o = invoke(chk, e, m, A, replay)
                raised &= o.exc is not None
                if state_of(e) != before:
                    chk.fail("malformed:unfitted-writes", f"{name}.{m} on an unfitted object left attributes behind", replay, layer="L3")
    elif kind == "bad-param":
        e = build(name, cfg)
        key = "n_clusters" if "n_clusters" in cfg else "max_clusters"
        e.set_params(**{key: 0})
        o = invoke(chk, e, "fit", A, replay)
        raised = o.exc is not None
        e.set_params(**{key: cfg[key]})
    elif kind == "nan-path":
        e = build(name, cfg)
        if rng.random() < 0.5:
            invoke(chk, e, "fit", A, replay)
        o = invoke(chk, e, "path", bad, replay, kwargs=dict(alpha_multiplier=2.0, min_features=1, max_patience=1))
        raised = o.exc is not None
    elif kind in ("bomb-path", "bomb-fit"):
        # the user's objective fails after a while: the call is interrupted somewhere in the middle
        limit = int(rng.integers(1, 30 if kind == "bomb-path" else 5))
        gem = CountingGemini(kernel="linear")
        BOMB["limit"], BOMB["calls"] = limit, 0
        cfg["gemini"] = gem
        if "batch_size" in cfg:
            cfg["batch_size"] = 4
        e = build(name, cfg)
        o = invoke(chk, e, "path" if kind == "bomb-path" else "fit", A, dict(replay, limit=limit),
                   kwargs=dict(alpha_multiplier=2.0, min_features=1, max_patience=1) if kind == "bomb-path" else None)
        raised = o.exc is not None
        BOMB["limit"] = 10 ** 9      # the objective works again (same object, same hyper-parameter identity)
        chk.dist["interrupted" if raised else "not-interrupted"] += 1
    elif kind == "mask-length":
        cfg["feature_mask"] = [True] * (d + 1)
        e = build(name, cfg)
        if rng.random() < 0.5:
            e.set_params(feature_mask=None)
            invoke(chk, e, "fit", A, replay)
            e.set_params(feature_mask=cfg["feature_mask"])
        o = invoke(chk, e, "fit", A, replay)
        raised = o.exc is not None
        e.set_params(feature_mask=np.array([True, False, True]))
    elif kind == "precomputed-missing":
        key = "kernel" if "kernel" in cfg else "metric"
        cfg[key] = "precomputed"
        cfg = fix_config(cfg)
        e = build(name, cfg)
        o = invoke(chk, e, "fit", A, replay, y=None)
        raised = o.exc is not None
    if not raised and kind not in ("bomb-path", "bomb-fit"):
        chk.fail(f"malformed:{kind}:accepted", f"{name}: the malformed call did not raise", replay, layer="L3")
    # whatever the failed call left behind must not influence later results
    final_comparison(chk, name, e, e.get_params(deep=False), None, A, replay, rng, "after-failure")
    chk.dist["malformed:" + kind] += 1
    chk.count(("malformed", kind, name) if raised else None)


# ------------------------------------------------------------------------------------------ main
# ------------------------------------------------------------------------------------------ stream: args (representations of the arguments)
REPS = ["fortran", "readonly", "view", "int64", "float32", "list", "residue"]


def represent(A, rep):
    """The same values in another representation (A is a float64 C-contiguous array with integral values)."""
    if A is None:
        return None
    if rep == "fortran":
        return np.asfortranarray(A)
    if rep == "readonly":
        B = A.copy()
        B.setflags(write=False)
        return B
    if rep == "view":
        big = np.repeat(np.repeat(A, 2, 0), 2, 1) if A.ndim == 2 else np.repeat(A, 2, 0)
        return big[::2, ::2] if A.ndim == 2 else big[::2]
    if rep == "int64":
        return A.astype(np.int64)
    if rep == "float32":
        return A.astype(np.float32)
    if rep == "list":
        return A.tolist()
    return A.copy()


def approx_same(a, b, tol=1e-9):
    """Equality of results across representations: labels / integers / structure exactly, floats to tol*(1+scale)."""
    if isinstance(a, (list, tuple)) and isinstance(b, (list, tuple)):
        return len(a) == len(b) and all(approx_same(x, y, tol) for x, y in zip(a, b))
    if isinstance(a, dict) and isinstance(b, dict):
        return set(a) == set(b) and all(approx_same(a[k], b[k], tol) for k in a)
    if a is None or b is None or isinstance(a, (str, bool)) or isinstance(b, (str, bool)):
        return a is b or a == b
    if isinstance(a, (np.ndarray, np.generic, int, float)) and isinstance(b, (np.ndarray, np.generic, int, float)):
        x, y = np.asarray(a), np.asarray(b)
        if x.shape != y.shape:
            return False
        if x.dtype == object or y.dtype == object:
            return approx_same(list(x.ravel()), list(y.ravel()), tol)
        if x.dtype.kind in "iub" and y.dtype.kind in "iub":
            return bool(np.array_equal(x, y))
        x, y = x.astype(float), y.astype(float)
        scale = np.maximum(np.abs(x), np.abs(y))
        return bool(np.all((np.abs(x - y) <= tol * (1 + scale)) | (np.isnan(x) & np.isnan(y))))
    if hasattr(a, "__dict__") and hasattr(b, "__dict__") and type(a).__name__ == type(b).__name__:
        return approx_same(vars(a), vars(b), tol)
    return a == b


def fitted_image(e):
    hp = hp_names(e)
    return {k: v for k, v in vars(e).items() if k not in hp and k not in SKIP and k not in ("optimiser_", "input_data_")}


def args_config(name, rng, d):
    cfg, _ = draw_config(name, rng, d)
    cfg["verbose"] = False
    r = rng.random()
    # most cases go through a precomputed affinity: it is the caller's array that travels through the library
    if "kernel" in cfg:
        cfg["kernel"] = "precomputed" if r < 0.5 else cfg["kernel"]
    if "metric" in cfg:
        cfg["metric"] = "precomputed" if r < 0.5 else cfg["metric"]
    if "gemini" in cfg and r < 0.5:
        cfg["gemini"] = [G.MMDGEMINI(kernel="precomputed"), G.WassersteinGEMINI(metric="precomputed"),
                         G.MMDGEMINI(kernel="precomputed", ovo=True), G.WassersteinGEMINI(metric="precomputed", ovo=True)][int(rng.integers(4))]
    if "dynamic" in cfg:
        cfg["dynamic"] = False
    return fix_config(cfg)


class GridData:
    """Integral values: every dtype carries them exactly.  K has negative entries and is not symmetric; D has negative entries."""

    def __init__(self, rng, n, d):
        self.X = np.round(impl.blobs(rng, n, d, k=2) * 2)
        self.K = self.X @ self.X.T
        self.D = np.abs(self.X[:, None, :] - self.X[None, :, :]).sum(-1)
        idx = rng.integers(0, n, size=2)
        self.D[idx, idx] = -1.0
        i, j = int(idx[0]), int((idx[0] + 1) % n)
        self.D[i, j] -= 1.0
        self.K[i, j] += 1.0
        self.n, self.d, self.kind = n, d, "grid"


def stream_args(chk, i, rng):
    """Every public entry point with the same values in other representations: the caller's arrays must be untouched,
    a read-only or non-contiguous or differently typed argument must give the result of the float64 C-contiguous call."""
    names = list(impl.ALL_ESTIMATORS)
    name = names[i % len(names)]
    d = 3
    data = GridData(rng, int(rng.integers(8, 13)), d)
    cfg = args_config(name, rng, d)
    replay = {"estimator": name, "config": {k: repr(v) for k, v in cfg.items()}, "n": data.n}
    probe = build(name, cfg)
    aff0 = affinity_for(probe, data)
    methods = [m for m in ["fit", "fit_predict", "predict", "predict_proba", "score", "path"] if callable(getattr(probe, m, None))]
    pkw = dict(alpha_multiplier=3.0, min_features=int(rng.integers(1, d)), max_patience=1)
    nontrivial = False
    if callable(getattr(probe, "get_gemini", None)):
        # get_gemini() and the objective's compute_affinity are public too: the parameter dictionaries stay as given
        given = copy.deepcopy({k: v for k, v in cfg.items() if isinstance(v, dict) or isinstance(v, _GEMINI)})
        before = params_image(probe)
        gob = probe.get_gemini()
        try:
            gob.compute_affinity(data.X.copy(), None if aff0 is None else aff0.copy())
        except Exception:      # noqa
            pass
        now = {k: probe.get_params(deep=False)[k] for k in given}
        if params_image(probe) != before or canon(now) != canon(given):
            chk.fail("get_gemini:mutates-params", f"{name}.get_gemini().compute_affinity changed a hyper-parameter dictionary: given {given!r}, now {now!r}", replay, layer="L3")
        chk.dist["args:get_gemini"] += 1
    for m in methods:
        kw = pkw if m == "path" else None

        def run(Xv, Av, tag):
            e = build(name, cfg)
            if m in ("predict", "predict_proba", "score"):
                o0 = invoke(chk, e, "fit", data, dict(replay, method=m, rep=tag, stage="prefit"), X=data.X.copy(), y=None if aff0 is None else aff0.copy())
                if o0.exc is not None:
                    return None, None
            o = invoke(chk, e, m, data, dict(replay, method=m, rep=tag), kwargs=kw, X=Xv, y=Av)
            return o, e
        ref, eref = run(data.X.copy(), None if aff0 is None else aff0.copy(), "float64")
        if ref is None or ref.exc is not None:
            chk.dist[f"args-ref-raises:{name}.{m}"] += 1
            continue
        which = [str(r) for r in rng.choice(REPS, size=3, replace=False)]
        for rep in which:
            target = "affinity" if (aff0 is not None and m not in ("predict", "predict_proba") and rng.random() < 0.7) else "X"
            if rep == "residue":
                if aff0 is None:
                    continue
                target = "affinity"
                Av = aff0.copy()
                Av[np.diag_indices(data.n)] -= 1e-9 * (1 + np.arange(data.n) % 3)
                Xv = data.X.copy()
            elif target == "affinity":
                if rep == "list":
                    rep = "fortran"
                Xv, Av = data.X.copy(), represent(aff0, rep)
            else:
                Xv, Av = represent(data.X, rep), None if aff0 is None else aff0.copy()
            tag = f"{target}:{rep}"
            o, e = run(Xv, Av, tag)
            chk.dist[f"args:{tag}"] += 1
            nontrivial = True
            if o is None:
                continue
            rp = dict(replay, method=m, rep=tag)
            if o.exc is not None:
                # the float64 call on the same values succeeded and (checked inside invoke) wrote nothing: a refusal of the
                # representation is an acceptance matter (C04/C16), recorded, unless it is a refused in-place write
                msg = str(o.exc)
                if "read-only" in msg and ("assignment destination" in msg or "output array" in msg):
                    chk.fail(f"{m}:writes-into-argument", f"{name}.{m} tried to write into the caller's read-only {target}: {o.exc!r}", rp, layer="L3")
                else:
                    chk.dist[f"repr-rejected:{name}.{m}:{tag}:{type(o.exc).__name__}"] += 1
                    note = f"representation refused (acceptance matter, reported): {name}.{m} with {tag}: {type(o.exc).__name__}: {msg[:90]}"
                    if note not in chk.notes:
                        chk.notes.append(note)
                continue
            if rep in ("float32", "residue"):
                continue            # computations legitimately differ (float32 arithmetic / other values): side effects only
            if not approx_same(o.result if o.result is not e else None, ref.result if ref.result is not eref else None) \
                    or not approx_same(fitted_image(e), fitted_image(eref)):
                chk.fail(f"{m}:representation-changes-result", f"{name}.{m} gives another result when the same values arrive as {tag}", rp, layer="L3")
    chk.traces += 1
    chk.count(("args", name, tuple(sorted((k, repr(v)) for k, v in cfg.items() if k in ("kernel", "metric", "gemini", "batch_size")))) if nontrivial else None)


def stream_gemini_args(chk, i, rng):
    """The objectives themselves: gemini(P, A), evaluate, compute_affinity leave P, A, X, y untouched in every representation."""
    gl = impl.all_geminis()
    for kk in KPAR:
        gl.append((f"MMDGEMINI({kk}, partial params)", (lambda kk=kk: G.MMDGEMINI(kernel=kk, kernel_params=partial_params(rng, KPAR[kk], 0.0), ovo=bool(rng.integers(2))))))
    gl.append(("WassersteinGEMINI(euclidean, partial params)", lambda: G.WassersteinGEMINI(metric="euclidean", metric_params=partial_params(rng, MPAR["euclidean"], 0.0))))
    label, fac = gl[i % len(gl)]
    n, K, d = int(rng.integers(5, 10)), int(rng.integers(1, 4)), 3
    data = GridData(rng, n, d)
    P = impl.softmax_rows(rng.normal(size=(n, K)) * float(rng.choice([0.5, 3.0, 40.0])))
    g = fac()
    is_w = isinstance(g, G.WassersteinGEMINI)
    aff = data.D if is_w else data.K
    pre = type(g)(ovo=g.ovo, **({"metric": "precomputed"} if is_w else {"kernel": "precomputed"})) if isinstance(g, (G.MMDGEMINI, G.WassersteinGEMINI)) else None
    replay = {"gemini": label, "n": n, "K": K}
    reps = ["float64"] + [str(r) for r in rng.choice(REPS, size=3, replace=False)]
    base = {}
    for rep in reps:
        for what in ("call", "call_grad", "evaluate", "affinity", "affinity_pre"):
            if what == "affinity_pre" and pre is None:
                continue
            A = aff.copy()
            if rep == "residue":
                A[np.diag_indices(n)] -= 1e-9
            Pv, Av, Xv = P.copy(), A, data.X.copy()
            if rep not in ("float64", "residue"):
                r2 = "fortran" if rep == "list" else rep
                if what in ("affinity", "affinity_pre"):
                    Xv, Av = (represent(data.X, rep), A) if rng.random() < 0.5 else (Xv, represent(A, r2))
                else:
                    Pv, Av = (represent(P, r2) if rep not in ("int64",) else Pv, A) if rng.random() < 0.4 else (Pv, represent(A, r2))
            before = canon([Pv, Av, Xv])
            pim = canon(vars(g)), (None if pre is None else canon(vars(pre)))
            try:
                if what == "call":
                    out = g(Pv, Av)
                elif what == "call_grad":
                    out = g(Pv, Av, return_grad=True)
                elif what == "evaluate":
                    out = g.evaluate(Pv, Av, return_grad=True)
                elif what == "affinity":
                    out = g.compute_affinity(Xv)
                else:
                    out = pre.compute_affinity(Xv, Av)
                exc = None
            except Exception as ex:      # noqa
                out, exc = None, ex
            rp = dict(replay, entry=what, rep=rep)
            chk.dist[f"gemini-args:{what}:{rep}"] += 1
            if canon([Pv, Av, Xv]) != before:
                chk.fail(f"gemini:{what}:mutates-input", f"{label}.{what} changed the caller's predictions / affinity / data ({rep})", rp, layer="L3")
            if (canon(vars(g)), (None if pre is None else canon(vars(pre)))) != pim:
                chk.fail(f"gemini:{what}:mutates-self", f"{label}.{what} changed the objective's own parameters", rp, layer="L3")
            if what == "affinity_pre" and exc is None and out is not None and not isinstance(Av, list) and np.shares_memory(out, Av):
                # the returned affinity may be the caller's array itself: nothing may have been written through it
                pass
            if rep == "float64":
                base[what] = (out, exc)
                continue
            b_out, b_exc = base.get(what, (None, None))
            if exc is not None and b_exc is None:
                msg = str(exc)
                if "read-only" in msg and ("assignment destination" in msg or "output array" in msg):
                    chk.fail(f"gemini:{what}:writes-into-argument", f"{label}.{what} tried to write into a read-only argument: {exc!r}", rp, layer="L3")
                else:
                    chk.dist[f"repr-rejected:{label}.{what}:{rep}:{type(exc).__name__}"] += 1
                continue
            if exc is None and b_exc is None and rep not in ("float32", "residue") and isinstance(g, G.MMDGEMINI) and what in ("call", "call_grad", "evaluate"):
                # the MMD is sqrt(max(q, 0)) of a quadratic form that cancels to rounding level when the clusters coincide
                # (K = 1): BLAS sums in another order for another memory layout, so the score may differ by the square root
                # of that residue, and the gradient (residue / 0-guarded) is then not comparable
                allow = 4 * np.sqrt(2.2e-16 * max(1.0, float(np.max(np.abs(aff)))))
                sc = lambda o: float(o[0]) if isinstance(o, tuple) else float(o)
                same = abs(sc(out) - sc(b_out)) <= allow + 1e-9 * (1 + abs(sc(b_out)))
                if same and isinstance(out, tuple) and K >= 2 and abs(sc(b_out)) > allow:
                    same = approx_same(out[1], b_out[1])
                if not same:
                    chk.fail(f"gemini:{what}:representation-changes-result", f"{label}.{what} gives another value when the same numbers arrive as {rep}", rp, layer="L3")
                continue
            if exc is None and b_exc is None and rep not in ("float32", "residue") and not approx_same(out, b_out):
                chk.fail(f"gemini:{what}:representation-changes-result", f"{label}.{what} gives another value when the same numbers arrive as {rep}", rp, layer="L3")
    chk.count(("gemini-args", label, n, K))


STREAMS = {"table": (stream_table, 19, 19), "trace": (aborting(stream_trace), 54, 540), "history": (aborting(stream_history), 180, 2700),
           "mlcl": (aborting(stream_mlcl), 34, 510), "roundtrip": (stream_roundtrip, 54, 540), "malformed": (aborting(stream_malformed), 64, 640),
           "args": (aborting(stream_args), 54, 540), "gemini_args": (stream_gemini_args, 42, 420)}


def main():
    chk = Check("C12")
    chk.build()
    chk.proofs()
    if chk.build_failed("Gen/AttrFlow.v") or "TRANSLATOR-FAIL translator/tr_attrflow.py" in chk.build_out:
        chk.notes.append("Gen/AttrFlow.v could not be regenerated/compiled from the current sources")
    if chk.replay_path:
        rp = json.load(open(chk.replay_path))
        st, case = rp["input"].get("stream"), rp["input"].get("case")
        chk.seed = rp.get("seed", chk.seed)
        chk.tier = rp.get("tier", chk.tier)
        if st in STREAMS:
            chk.run_stream(st, STREAMS[st][0], 0, only=case)
    else:
        for name, (fn, q, th) in STREAMS.items():
            cnt = q if chk.tier == "quick" else th
            if chk.l1_broken and name not in ("table",):
                cnt *= 3       # a proof obligation is broken: widen the failing-input search
            chk.run_stream(name, fn, cnt)
    chk.finish(rule="streams: table (constructor/hyper-parameter tables and data-flow facts of the 18 classes against the running classes), "
                    "trace (instrumented fit/predict/predict_proba/score/fit_predict/path on every class: the recorded attribute loads/stores must be a word of the "
                    "model's flow), history (random sequences of fit/fit_predict/predict/predict_proba/score/set_params/restore/path/clone, length <= 8 quick / 20 "
                    "thorough, two datasets of different shape, then fit and path compared bit for bit with a fresh object; caller arrays and get_params compared "
                    "around every call), mlcl (same on must-link/cannot-link decorated models), roundtrip (get_params/set_params/clone per hyper-parameter), "
                    "malformed (NaN data, unfitted calls, invalid parameters, objective failing mid-fit/mid-path, then the same comparison), "
                    "args (every public entry point of every class, mostly with precomputed affinities holding negative and asymmetric entries, the same values as "
                    "Fortran / read-only / non-contiguous / int64 / float32 / list / round-off-residue arguments: arguments untouched, same result as the float64 call), "
                    "gemini_args (the same for gemini(P, A), evaluate and compute_affinity of the 13 objectives). "
                    "non-trivial = the history contains at least one fit/path before the final one (or the malformed call did raise); distinct = distinct "
                    "(estimator, plan / configuration) signature")


if __name__ == "__main__":
    main()
