"""Fail-closed desugarer for gemclus/tree/_utils.pyx (DESIGN.md §2.5).

The sandbox has no Cython, so a changed .pyx cannot be rebuilt into the .so.  To examine the *source*
as well as the compiled module, the .pyx is turned into plain Python by removing exactly the Cython-only
syntax this file uses:

  * `cimport ...` lines and `np.import_array()`
  * `cdef class X:`                       -> `class X:`
  * `cdef readonly <type> a, b`           -> dropped (attributes are created by __init__)
  * `cdef|cpdef|def [<ctype>] f(<ctype> a, ...) [-> T]:`  -> `def f(a, ...):`   (signatures may span lines)
  * `cdef <ctype> a, b, c`                -> `pass`      (pure declaration)
  * `cdef <ctype> a = expr`               -> `a = expr`  (declaration with initialiser)

Anything else is kept verbatim.  The result must `ast.parse` and must not contain any leftover Cython
token (`cdef`, `cpdef`, `cimport`, a C type name outside a string/comment); otherwise DesugarError is
raised and nothing is produced (the caller then relies on the compiled module only and says so).

C integer semantics that matter here: Cython 3 compiles with language_level=3, so `/` between C integers
is true division exactly as in Python; all integer quantities stay far below 2**63.
"""
import ast
import io
import os
import re
import tokenize
import types
import warnings

CTYPE = (r"(?:np\.ndarray\[[^\]]*\]|np\.\w+_t(?:\[[:,\s]*\])?|Py_ssize_t(?:\[[:,\s]*\])?"
         r"|bint|int|long|double|float|object|Split)")
_SIG_END = re.compile(r"\)\s*(->\s*[\w.]+\s*)?:\s*(#.*)?$")
_LEFTOVER = {"cdef", "cpdef", "cimport", "Py_ssize_t", "bint", "readonly", "nogil", "ctypedef"}


class DesugarError(Exception):
    pass


def _split_args(args):
    parts, depth, cur = [], 0, ""
    for ch in args:
        if ch in "[(":
            depth += 1
        if ch in "])":
            depth -= 1
        if ch == "," and depth == 0:
            parts.append(cur)
            cur = ""
        else:
            cur += ch
    if cur.strip():
        parts.append(cur)
    return parts


def desugar(src):
    lines = src.split("\n")
    joined, buf = [], None
    for ln in lines:
        if buf is not None:
            buf += " " + ln.strip()
            if _SIG_END.search(buf):
                joined.append(buf)
                buf = None
            continue
        if re.match(r"\s*(cdef|cpdef|def)\s+[^=]*\(", ln) and not _SIG_END.search(ln) and not re.match(r"\s*cdef\s+class", ln):
            buf = ln.rstrip()
            continue
        joined.append(ln)
    if buf is not None:
        raise DesugarError("unterminated function signature: " + buf[:80])
    out = []
    for ln in joined:
        s = ln.strip()
        ind = ln[:len(ln) - len(ln.lstrip())]
        if s.startswith("cimport ") or re.match(r"from\s+\S+\s+cimport\s", s) or s == "np.import_array()":
            continue
        m = re.match(r"cdef class (\w+)\s*:\s*$", s)
        if m:
            out.append(f"{ind}class {m.group(1)}:")
            continue
        if re.match(r"cdef readonly\s", s):
            continue
        m = re.match(r"(?:cdef|cpdef|def)\s+(?:" + CTYPE + r"\s+)?(\w+)\s*\((.*)\)\s*(?:->\s*[\w.]+\s*)?:\s*(?:#.*)?$", s)
        if m and not s.startswith("cdef class"):
            name, args = m.group(1), m.group(2)
            clean = []
            for p in _split_args(args):
                p = re.sub(r"^" + CTYPE + r"\s*(?=[A-Za-z_])", "", p.strip())
                clean.append(p)
            out.append(f"{ind}def {name}({', '.join(clean)}):")
            continue
        m = re.match(r"cdef\s+" + CTYPE + r"\s+(.*)$", s)
        if m:
            rest = m.group(1)
            if "=" in rest and not re.match(r"^[\w\s,]+$", rest):
                out.append(ind + rest)
            else:
                out.append(ind + "pass")
            continue
        out.append(ln)
    text = "\n".join(out)
    try:
        with warnings.catch_warnings():
            warnings.simplefilter("ignore")     # '\s' in a docstring of the .pyx
            ast.parse(text)
    except SyntaxError as e:
        raise DesugarError(f"desugared source does not parse: {e}") from None
    # fail closed on leftover Cython tokens outside strings and comments
    for tok in tokenize.generate_tokens(io.StringIO(text).readline):
        if tok.type == tokenize.NAME and tok.string in _LEFTOVER:
            raise DesugarError(f"leftover Cython token {tok.string!r} at line {tok.start[0]}")
        if tok.type == tokenize.NAME and re.fullmatch(r"\w+_t", tok.string):
            raise DesugarError(f"leftover C type {tok.string!r} at line {tok.start[0]}")
    return text


def pyx_path(repo=None):
    repo = repo or os.environ.get("VERIF_REPO", "/repo")
    return os.path.join(repo, "gemclus", "tree", "_utils.pyx")


def desugared_source(path=None):
    path = path or pyx_path()
    return desugar(open(path).read())


def load_module(path=None, name="gemclus_tree_utils_desugared"):
    """Execute the desugared source as a plain Python module (raises DesugarError if it cannot be produced)."""
    path = path or pyx_path()
    text = desugared_source(path)
    mod = types.ModuleType(name)
    mod.__file__ = path + " (desugared)"
    with warnings.catch_warnings():
        warnings.simplefilter("ignore")
        code = compile(text, mod.__file__, "exec")
    exec(code, mod.__dict__)
    for need in ("find_best_split", "gemini_objective", "Split", "compute_all_splits"):
        if need not in mod.__dict__:
            raise DesugarError(f"desugared module lacks {need}")
    return mod


if __name__ == "__main__":
    import sys
    print(desugared_source(sys.argv[1] if len(sys.argv) > 1 else None))
