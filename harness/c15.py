"""C15 — Douglas: masked features inert, valid soft bins, active points as defined."""
import json
import math
import numpy as np
from core import Check, enc_list, enc_vec, enc_mat, enc_opt, hx
import impl

Douglas = impl.Douglas
TOL = 1e-9


# ------------------------------------------------------------------ encoding / model calls
def enc_cpl(cpl):
    return " ".join([str(len(cpl))] + [f"{int(f)} {enc_vec(c)}" for f, c in cpl])


def model_binning(chk, temp, x, cuts):
    t = chk.ask(f"c15.binning {hx(temp)} {hx(x)} {enc_vec(cuts)}")
    return {"sorted": t.list(t.float), "order": t.list(t.int), "bias": t.list(t.float),
            "logits": t.list(t.float), "bins": t.list(t.float)}


def model_infer(chk, temp, K, cpl, S, X):
    t = chk.ask(f"c15.infer {hx(temp)} {K} {enc_cpl(cpl)} {enc_mat(S)} {enc_mat(X)}")
    rows = []
    for _ in range(len(X)):
        if t.next() == "N":
            rows.append(None)
        else:
            lf = t.list(t.float)
            rows.append((lf, t.floats(K)))
    return rows


def model_fap(chk, cpl, X):
    X = np.asarray(X, dtype=float)
    t = chk.ask(f"c15.fap {enc_cpl(cpl)} {enc_mat(X) if X.ndim == 2 and X.size else '0 0'}")
    tag = t.next()
    return (tag, t.list(t.int)) if tag == "O" else (tag, None)


# ------------------------------------------------------------------ generators
def gen_cuts(rng, n, kind=None):
    kind = kind or ["normal", "sorted", "reverse", "dup", "grid", "wide"][int(rng.integers(0, 6))]
    if kind == "normal":
        c = rng.normal(size=n)
    elif kind == "sorted":
        c = np.sort(rng.normal(size=n))
    elif kind == "reverse":
        c = np.sort(rng.normal(size=n))[::-1].copy()
    elif kind == "dup":
        c = rng.normal(size=n)
        if n >= 2:
            c[int(rng.integers(1, n))] = c[0]
    elif kind == "grid":
        c = rng.integers(-8, 9, size=n) / 4.0
    else:
        c = rng.normal(size=n) * 10.0 ** rng.integers(-2, 3)
    return np.asarray(c, dtype=float), kind


def gen_mask(rng, d):
    """(mask or None, used feature indices); at least one used feature."""
    r = rng.random()
    if r < 0.2:
        return None, list(range(d))
    if r < 0.4:
        m = np.zeros(d, dtype=bool)
        m[int(rng.integers(0, d))] = True
    elif r < 0.5:
        m = np.ones(d, dtype=bool)
    else:
        m = rng.random(d) < 0.5
        if not m.any():
            m[int(rng.integers(0, d))] = True
    if rng.random() < 0.15:
        m = m.astype(int)            # integer 0/1 masks are ndarray too: truthiness is what the code uses
    return m, [i for i in range(d) if m[i]]


def gen_temp(rng):
    return float(10.0 ** rng.uniform(-3, 1))


def build(rng, d, mask, n_cuts, K, temp, fit=True, cut_kind=None, score_scale=None):
    """A Douglas object after a real 1-epoch fit (or a direct _init_params), whose parameters are then
    overwritten with generated cut points (unsorted / duplicated / on the data grid) and leaf scores."""
    seed = int(rng.integers(0, 2 ** 31 - 1))
    # history: half of the fitted objects are trained and used at ANOTHER temperature (orders of magnitude away) and only
    # then switched to `temp` with set_params — predictions must depend on the current parameters only
    reuse = fit and rng.random() < 0.5
    temp0 = float(rng.choice([1.0, 1e-4, 10.0, 1e-2])) if reuse else temp
    est = Douglas(n_clusters=K, gemini="mmd_ova", n_cuts=n_cuts, feature_mask=mask, temperature=temp0,
                  max_iter=1, random_state=seed)
    Xtr = rng.normal(size=(max(K, 4) + int(rng.integers(0, 4)), d))
    if fit:
        est.fit(Xtr)
        if reuse:
            est.predict_proba(Xtr)
            est.set_params(temperature=temp)
    else:
        est._init_params(np.random.RandomState(seed), Xtr)
    fitted = [(int(f), np.array(c, dtype=float)) for f, c in est.cut_points_list_]
    kinds = []
    mode = rng.random()
    if mode < 0.8:                   # handcrafted parameters
        new = []
        for f, c in fitted:
            cc, kd = gen_cuts(rng, len(c), cut_kind)
            kinds.append(kd)
            new.append((f, cc))
        est.cut_points_list_ = new
        sc = score_scale if score_scale is not None else float(10.0 ** rng.uniform(-1, 1))
        est.leaf_scores_ = rng.normal(size=est.leaf_scores_.shape) * sc
    else:
        kinds = ["fitted"]
    return est, kinds


def cpl_of(est):
    return [(int(f), np.asarray(c, dtype=float)) for f, c in est.cut_points_list_]


def close(a, b, scale=1.0):
    a, b = np.asarray(a, dtype=float), np.asarray(b, dtype=float)
    return a.shape == b.shape and bool(np.all(np.abs(a - b) <= TOL * (1 + scale)))


def count_below(x, cuts):
    return int(sum(1 for c in cuts if c < x))


def unsorted(c):
    return len(c) >= 2 and bool(np.any(np.diff(c) < 0))


# ------------------------------------------------------------------ stream 1: _leaf_binning
def stream_binning(chk, i, rng):
    n = int(rng.integers(1, 5)) if rng.random() < 0.85 else int(rng.integers(5, 8))
    cuts, kind = gen_cuts(rng, n)
    temp = gen_temp(rng)
    m = int(rng.integers(1, 6))
    xs = rng.normal(size=m) * (1.0 if kind != "wide" else float(np.abs(cuts).max() + 1))
    if kind == "grid":
        xs = rng.integers(-9, 10, size=m) / 4.0          # values that may equal a cut exactly
    if rng.random() < 0.3:
        xs[0] = cuts[int(rng.integers(0, n))]            # data value on a cut
    est = Douglas(temperature=temp, n_cuts=n)
    replay = {"cuts": cuts.tolist(), "temperature": temp, "x": xs.tolist()}
    b, order = est._leaf_binning(xs.reshape(-1, 1).copy(), cuts.copy())
    b = np.asarray(b)
    order = [int(v) for v in order]
    if b.shape != (m, n + 1):
        chk.fail("binning:shape", f"_leaf_binning returned shape {b.shape}, expected {(m, n + 1)}", replay, layer="L3")
        chk.count(None)
        return
    distinct = len(set(cuts.tolist())) == n
    for r, x in enumerate(xs):
        mod = model_binning(chk, temp, x, cuts)
        if not close(b[r], mod["bins"]):
            chk.fail("binning:model-mismatch", f"memberships differ from the model for x={x}: impl={b[r].tolist()} model={mod['bins']}", dict(replay, row=r))
        if r == 0:
            if distinct and order != mod["order"]:
                chk.fail("binning:order-mismatch", f"argsort order {order} differs from the model's {mod['order']}", replay)
            if not np.array_equal(cuts[order], np.array(mod["sorted"])):
                chk.fail("binning:sorted-mismatch", f"cut_points[order]={cuts[order].tolist()} differs from the model's sorted cuts {mod['sorted']}", replay)
        # L3: the property on the implementation's own output
        if np.any(b[r] < 0) or not np.all(np.isfinite(b[r])) or abs(b[r].sum() - 1) > 1e-9:
            chk.fail("binning:simplex", f"memberships are not a probability vector: {b[r].tolist()}", dict(replay, row=r), layer="L3")
        gap = float(np.min(np.abs(cuts - x)))
        zscale = (abs(x) * (n + 1) + np.abs(cuts).sum()) / temp
        if gap / temp > 1e-9 * (1 + zscale) * 100:
            kstar = count_below(x, cuts)
            am = np.flatnonzero(b[r] == b[r].max())
            if kstar not in am or (len(am) > 1 and gap / temp > 1e-6 * (1 + zscale)):
                chk.fail("binning:argmax-bin", f"largest membership at {am.tolist()}, number of cut points below x is {kstar}", dict(replay, row=r), layer="L3")
            bound = 1.0 / (1.0 + n * math.exp(-gap / temp))
            if b[r][kstar] < bound - 1e-9:
                chk.fail("binning:membership-bound", f"membership of the cell bin {b[r][kstar]} below 1/(1+n exp(-gap/T))={bound}", dict(replay, row=r), layer="L3")
    if sorted(order) != list(range(n)) or np.any(np.diff(cuts[order]) < 0):
        chk.fail("binning:order", f"returned order {order} does not sort the cut points", replay, layer="L3")
    chk.dist[f"binning:n_cuts={n}"] += 1
    chk.dist[f"binning:{kind}"] += 1
    chk.dist["binning:T<1e-2" if temp < 1e-2 else ("binning:T<1" if temp < 1 else "binning:T>=1")] += 1
    chk.count(("bin", n, kind, round(math.log10(temp)), i) if (unsorted(cuts) or not distinct or kind == "grid") else None)
    chk.sample({"stream": "binning", **replay, "order": order, "bins_row0": b[0].tolist()})


# ------------------------------------------------------------------ stream 2: _infer / predict_proba / masks
def stream_infer(chk, i, rng):
    d = int(rng.integers(1, 5))
    mask, used = gen_mask(rng, d)
    n_cuts = int(rng.integers(1, 5))
    while (n_cuts + 1) ** len(used) > 256 and n_cuts > 1:
        n_cuts -= 1
    K = int(rng.integers(1, 5))
    temp = gen_temp(rng)
    est, kinds = build(rng, d, mask, n_cuts, K, temp, fit=rng.random() < 0.8)
    cpl = cpl_of(est)
    S = np.asarray(est.leaf_scores_, dtype=float)
    n = int(rng.integers(1, 6))
    X = rng.normal(size=(n, d)) * float(10.0 ** rng.integers(-1, 2))
    if "grid" in kinds:
        X = rng.integers(-9, 10, size=(n, d)) / 4.0
    replay = {"d": d, "mask": None if mask is None else [int(v) for v in mask], "n_cuts": n_cuts, "K": K, "temperature": temp,
              "cut_points_list": [[f, c.tolist()] for f, c in cpl], "leaf_scores": S.tolist(), "X": X.tolist()}
    # structure: used features, leaf count
    if [f for f, _ in cpl] != used:
        chk.fail("init:used-features", f"cut_points_list_ holds features {[f for f, _ in cpl]}, the mask selects {used}", replay, layer="L3")
    if S.shape != ((n_cuts + 1) ** len(used), K):
        chk.fail("init:leaf-count", f"leaf_scores_ has shape {S.shape}, expected ({(n_cuts + 1) ** len(used)}, {K})", replay, layer="L3")
    P = np.asarray(est._infer(X.copy(), retain=True))
    leaf_impl = np.asarray(est._leaf)
    binnings = [np.asarray(b) for b in est._all_binnings]
    P2 = np.asarray(est.predict_proba(X.copy()))
    mod = model_infer(chk, temp, K, cpl, S, X)
    sscale = float(np.abs(S).max()) if S.size else 1.0
    for r in range(n):
        if mod[r] is None:
            chk.fail("infer:model-undefined", "model has no prediction (no used feature) but the implementation returned one", replay)
            break
        lf, p = mod[r]
        if not close(leaf_impl[r], lf):
            chk.fail("infer:leaf-mismatch", f"row {r}: leaf memberships differ from the model (max diff {np.abs(leaf_impl[r] - np.array(lf)).max() if len(lf) == leaf_impl.shape[1] else 'shape'})", dict(replay, row=r))
            break
        if not close(P[r], p, sscale) or not close(P2[r], p, sscale):
            chk.fail("infer:model-mismatch", f"row {r}: prediction {P[r].tolist()} differs from the model's {p}", dict(replay, row=r))
            break
    # L3: simplex at every level
    if leaf_impl.shape != (n, (n_cuts + 1) ** len(used)):
        chk.fail("infer:leaf-count", f"leaf matrix has shape {leaf_impl.shape}, expected {(n, (n_cuts + 1) ** len(used))}", replay, layer="L3")
    for b in binnings + [leaf_impl, P, P2]:
        if np.any(b < 0) or not np.all(np.isfinite(b)) or np.any(np.abs(b.sum(1) - 1) > 1e-9):
            chk.fail("infer:simplex", "memberships / leaves / predictions are not probability vectors per sample", replay, layer="L3")
            break
    # L3: bin of largest membership = number of cut points below, membership bound
    for (f, c), b in zip(cpl, binnings):
        for r in range(n):
            x = X[r, f]
            gap = float(np.min(np.abs(c - x)))
            zscale = (abs(x) * (len(c) + 1) + np.abs(c).sum()) / temp
            if gap / temp > 1e-7 * (1 + zscale):
                ks = count_below(x, c)
                if int(np.argmax(b[r])) != ks:
                    chk.fail("infer:argmax-bin", f"feature {f} row {r}: largest membership at bin {int(np.argmax(b[r]))}, {ks} cut points lie below the value", dict(replay, row=r, feature=f), layer="L3")
                elif b[r][ks] < 1.0 / (1.0 + len(c) * math.exp(-gap / temp)) - 1e-9:
                    chk.fail("infer:membership-bound", f"feature {f} row {r}: membership {b[r][ks]} below the bound", dict(replay, row=r, feature=f), layer="L3")
    # L3: masked features are inert — bit-identical predictions under random and huge perturbations
    masked = [f for f in range(d) if f not in used]
    if masked:
        for variant in ("random", "huge", "swap"):
            Xp = X.copy()
            if variant == "random":
                Xp[:, masked] = rng.normal(size=(n, len(masked))) * 100
            elif variant == "huge":
                Xp[:, masked] = rng.choice([1e300, -1e300, 1e-300, 0.0, 12345.678], size=(n, len(masked)))
            else:
                Xp[:, masked] = Xp[::-1, masked] + 1.0
            Pp = np.asarray(est.predict_proba(Xp))
            if not np.array_equal(Pp, P2):
                chk.fail("mask:inert", f"predict_proba changed when only masked features {masked} were perturbed ({variant}); max diff {np.abs(Pp - P2).max()}", dict(replay, Xp=Xp.tolist()), layer="L3")
                break
        lab = est.predict(X.copy())
        Xp = X.copy()
        Xp[:, masked] = -7e5
        if not np.array_equal(est.predict(Xp), lab):
            chk.fail("mask:inert-predict", "predict changed when only masked features were perturbed", replay, layer="L3")
    # conversely a used feature is really used (non-vacuity of the perturbation test; counted, not required)
    chk.dist[f"infer:d={d},used={len(used)}"] += 1
    chk.dist[f"infer:n_cuts={n_cuts}"] += 1
    chk.dist["infer:mask=None" if mask is None else ("infer:mask=all" if len(used) == d else "infer:mask=some")] += 1
    for kd in set(kinds):
        chk.dist[f"infer:cuts={kd}"] += 1
    nontriv = bool(masked) or any(unsorted(c) or len(set(c.tolist())) < len(c) for _, c in cpl)
    chk.count(("infer", d, tuple(used), n_cuts, K, round(math.log10(temp), 1), i) if nontriv else None)
    chk.traces += 1
    chk.sample({"stream": "infer", "d": d, "mask": replay["mask"], "n_cuts": n_cuts, "K": K, "temperature": temp,
                "cut_points_list": replay["cut_points_list"], "proba_row0": P2[0].tolist()})


# ------------------------------------------------------------------ stream 3: _init_params (mask handling, leaf count)
def stream_init(chk, i, rng):
    d = int(rng.integers(1, 6))
    n_cuts = int(rng.integers(1, 5))
    K = int(rng.integers(1, 5))
    r = rng.random()
    bad = False
    if r < 0.15:
        mask = None
    elif r < 0.3:                   # wrong length: ValueError
        L = d + int(rng.choice([-1, 1, 2])) if d > 1 else d + 1
        mask = rng.random(L) < 0.6
        bad = True
    elif r < 0.4:
        mask = np.zeros(d, dtype=bool)           # no used feature: rejected
    else:
        mask = rng.random(d) < 0.6
    empty = mask is not None and not bad and not np.any(mask)
    while mask is not None and not bad and (n_cuts + 1) ** int(np.sum(mask)) > 3200:
        n_cuts -= 1
    seed = int(rng.integers(0, 2 ** 31 - 1))
    est = Douglas(n_clusters=K, n_cuts=n_cuts, feature_mask=mask, random_state=seed)
    X = rng.normal(size=(5, d))
    replay = {"d": d, "mask": None if mask is None else [int(v) for v in mask], "n_cuts": n_cuts, "K": K, "seed": seed}
    err = None
    try:
        est._init_params(np.random.RandomState(seed), X)
    except ValueError as e:
        err = "V"
    cpl = [] if err else cpl_of(est)
    draws = [c for _, c in cpl]
    t = chk.ask(f"c15.init {d} {enc_opt(None if mask is None else [int(bool(v)) for v in mask], lambda m: enc_list(m))} {n_cuts} "
                f"{enc_list(draws, enc_vec)}")
    mu = t.opt(lambda: t.list(t.int))
    if t.next() == "N":
        mcpl, mleaf = None, None
    else:
        mcpl = t.list(lambda: (t.int(), t.list(t.float)))
        mleaf = t.int()
    if (err is not None) != (mu is None):
        chk.fail("init:error-mismatch", f"_init_params {'raised ValueError' if err else 'succeeded'} but the model says {'error' if mu is None else 'ok'} (mask length {None if mask is None else len(mask)}, d={d})", replay)
    elif err is None:
        if [f for f, _ in cpl] != mu or [f for f, _ in mcpl] != mu or any(not np.array_equal(c, np.array(mc)) for (_, c), (_, mc) in zip(cpl, mcpl)):
            chk.fail("init:model-mismatch", f"cut_points_list_ features {[f for f, _ in cpl]} differ from the model's used features {mu}", replay)
        if est.leaf_scores_.shape != (mleaf, K):
            chk.fail("init:leaf-count-mismatch", f"leaf_scores_ shape {est.leaf_scores_.shape}, model num_leaf {mleaf}", replay)
        want = list(range(d)) if mask is None else [j for j in range(d) if mask[j]]
        if [f for f, _ in cpl] != want or any(len(c) != n_cuts for _, c in cpl):
            chk.fail("init:used-features", f"cut_points_list_ features {[f for f, _ in cpl]} / sizes do not match the mask {want}", replay, layer="L3")
        if est.leaf_scores_.shape != ((n_cuts + 1) ** len(want), K):
            chk.fail("init:leaf-count", f"leaf_scores_ has shape {est.leaf_scores_.shape}, expected {((n_cuts + 1) ** len(want), K)}", replay, layer="L3")
    elif not bad and not empty:
        chk.fail("init:spurious-error", "ValueError for a mask of the right length that selects a feature", replay, layer="L3")
    if err is None and (bad or empty):
        chk.fail("init:bad-mask-accepted", "a mask of the wrong length or selecting no feature was accepted", replay, layer="L3")
    chk.dist["init:bad-length" if bad else ("init:none" if mask is None else f"init:used={int(np.sum(mask))}")] += 1
    chk.count(("init", d, replay["mask"] and tuple(replay["mask"]), n_cuts) if (mask is not None) else None)


# ------------------------------------------------------------------ stream 4: small temperature, grid cells
def stream_cells(chk, i, rng):
    d = int(rng.integers(1, 5))
    mask, used = gen_mask(rng, d)
    n_cuts = int(rng.integers(1, 5))
    while (n_cuts + 1) ** len(used) > 256 and n_cuts > 1:
        n_cuts -= 1
    K = int(rng.integers(2, 5))
    temp = float(10.0 ** rng.uniform(-3, -1.7))
    margin = 45 * temp
    est, _ = build(rng, d, mask, n_cuts, K, temp, fit=True, cut_kind="normal", score_scale=1.0)
    # cuts: unsorted, sometimes duplicated, separated enough to leave room for the margin
    cpl = []
    for f in used:
        while True:
            c = np.round(rng.uniform(-3, 3, size=n_cuts), 2)
            if n_cuts >= 2 and rng.random() < 0.25:
                c[1] = c[0]
            s = np.unique(c)
            if len(s) == 1 or np.min(np.diff(s)) > 4 * margin:
                break
        cpl.append((f, c))
    est.cut_points_list_ = cpl
    est.leaf_scores_ = rng.normal(size=((n_cuts + 1) ** len(used), K)) * 2
    S = est.leaf_scores_
    m = 5
    X = rng.normal(size=(m, d)) * 50           # masked columns: arbitrary
    cell = []
    for f, c in cpl:
        s = np.concatenate([[-np.inf], np.unique(c), [np.inf]])
        j = int(rng.integers(0, len(s) - 1))
        lo = max(s[j], -8.0) + margin if np.isfinite(s[j]) else min(s[j + 1], 8.0) - margin - 3.0
        hi = s[j + 1] - margin if np.isfinite(s[j + 1]) else lo + 3.0
        X[:, f] = rng.uniform(lo, hi, size=m)
        ks = {count_below(x, c) for x in X[:, f]}
        assert len(ks) == 1
        cell.append(ks.pop())
    idx = 0
    for k in cell:
        idx = idx * (n_cuts + 1) + k
    replay = {"d": d, "mask": None if mask is None else [int(v) for v in mask], "n_cuts": n_cuts, "K": K, "temperature": temp,
              "cut_points_list": [[f, c.tolist()] for f, c in cpl], "leaf_scores": S.tolist(), "X": X.tolist(), "cell": cell}
    P = np.asarray(est.predict_proba(X))
    est._infer(X, retain=True)
    for (f, c), b, k in zip(cpl, est._all_binnings, cell):
        if np.any(np.argmax(b, axis=1) != k) or np.any(b[:, k] < 1 - 1e-9):
            chk.fail("cells:bin-index", f"feature {f}: the saturated bin is {np.argmax(b, axis=1).tolist()}, the number of cut points below the values is {k}", dict(replay, feature=f), layer="L3")
    want = impl.softmax_rows(S[idx:idx + 1])[0]
    if np.abs(P - P[0]).max() > 1e-9:
        chk.fail("cells:constant", f"predictions differ by {np.abs(P - P[0]).max()} between points of one grid cell at temperature {temp}", replay, layer="L3")
    elif np.abs(P[0] - want).max() > 1e-9:
        chk.fail("cells:leaf-of-cell", f"prediction in cell {cell} is not softmax(leaf_scores_[{idx}]) (diff {np.abs(P[0] - want).max()})", replay, layer="L3")
    mod = model_infer(chk, temp, K, cpl, S, X[:2])
    for r in range(2):
        if mod[r] is None or not close(P[r], mod[r][1], 2.0):
            chk.fail("cells:model-mismatch", f"row {r}: prediction differs from the model at temperature {temp}", dict(replay, row=r))
            break
    chk.dist[f"cells:used={len(used)},n_cuts={n_cuts}"] += 1
    chk.count(("cells", tuple(used), n_cuts, tuple(cell), i))
    chk.traces += 1


# ------------------------------------------------------------------ stream 5: find_active_points
def spec_active(cpl, X):
    """Independent statement of the property: a used feature is active iff some cut point has a data value
    strictly below it and a data value strictly above it."""
    out = []
    for f, c in cpl:
        col = [float(v) for v in X[:, f]]
        if any(any(v < cj for v in col) and any(v > cj for v in col) for cj in c.tolist()):
            out.append(f)
    return out


def stream_active(chk, i, rng):
    d = int(rng.integers(1, 5))
    mask, used = gen_mask(rng, d)
    n_cuts = int(rng.integers(1, 5))
    est = Douglas(n_clusters=2, n_cuts=n_cuts, feature_mask=mask)
    est._init_params(np.random.RandomState(0), np.zeros((3, d)))
    n = int(rng.integers(1, 9))
    X = np.zeros((n, d))
    cpl, scen = [], []
    for f in range(d):
        kind = ["between", "touch", "constant", "wide", "outside", "grid"][int(rng.integers(0, 6))]
        c = np.unique(rng.integers(-12, 13, size=n_cuts * 3))[:n_cuts] / 4.0 if kind != "wide" else rng.normal(size=n_cuts)
        c = np.resize(c, n_cuts).astype(float)
        rng.shuffle(c)
        s = np.unique(c)
        if kind == "between":           # the range lies between two cut points (or beside the only one)
            if len(s) >= 2:
                j = int(rng.integers(0, len(s) - 1))
                lo, hi = s[j], s[j + 1]
                col = lo + (hi - lo) * rng.integers(1, 8, size=n) / 8.0
                if rng.random() < 0.3:
                    col[0] = lo          # touching the lower cut exactly
                if rng.random() < 0.3:
                    col[-1] = hi
            else:
                col = s[0] + rng.integers(1, 9, size=n) / 4.0
        elif kind == "touch":            # min or max equals a cut point exactly
            a = s[int(rng.integers(0, len(s)))]
            col = a + rng.integers(0, 6, size=n) / 8.0 * (1 if rng.random() < 0.5 else -1)
            col[int(rng.integers(0, n))] = a
        elif kind == "constant":
            col = np.full(n, rng.choice(np.concatenate([s, s + 0.125])))
        elif kind == "outside":
            col = s.max() + rng.integers(0, 9, size=n) / 4.0 if rng.random() < 0.5 else s.min() - rng.integers(0, 9, size=n) / 4.0
        elif kind == "grid":
            col = rng.integers(-13, 14, size=n) / 4.0
        else:
            col = rng.normal(size=n) * 1.5
        X[:, f] = col
        scen.append(kind)
        if f in used:
            cpl.append((f, c))
    est.cut_points_list_ = cpl
    replay = {"d": d, "mask": None if mask is None else [int(v) for v in mask], "n_cuts": n_cuts,
              "cut_points_list": [[f, c.tolist()] for f, c in cpl], "X": X.tolist(), "scenario": scen}
    got = [int(v) for v in est.find_active_points(X.copy())]
    tag, mod = model_fap(chk, cpl, X)
    if tag != "O" or got != mod:
        chk.fail("active_points:model-mismatch", f"find_active_points={got}, model={tag} {mod}", replay)
    want = spec_active(cpl, X)
    if got != want:
        multi = any(len(np.unique(c)) >= 2 for _, c in cpl)
        chk.fail("active_points:multi-cut" if multi else "active_points:single-cut",
                 f"find_active_points={got} but the features with a cut point strictly inside the data range are {want}", replay, layer="L3")
    if any(g not in used for g in got):
        chk.fail("active_points:masked-feature", f"a masked feature is reported active: {got}, used {used}", replay, layer="L3")
    for k in set(scen):
        chk.dist[f"active:{k}"] += 1
    chk.dist[f"active:n_cuts={n_cuts}"] += 1
    nontriv = n_cuts >= 2 and any(scen[f] in ("between", "touch") for f in used)
    chk.count(("active", d, tuple(used), n_cuts, tuple(scen), i) if nontriv else None)
    chk.sample({"stream": "active", **replay, "active": got})


def stream_active_malformed(chk, i, rng):
    """Data with fewer columns than the model needs: an exception on both sides (never a silent answer)."""
    d = int(rng.integers(2, 5))
    mask, used = gen_mask(rng, d)
    n_cuts = int(rng.integers(1, 4))
    est = Douglas(n_clusters=2, n_cuts=n_cuts, feature_mask=mask)
    est._init_params(np.random.RandomState(0), np.zeros((3, d)))
    cpl = cpl_of(est)
    cols = int(rng.integers(1, d + 1))
    X = rng.normal(size=(int(rng.integers(1, 5)), cols))
    replay = {"d": d, "mask": None if mask is None else [int(v) for v in mask], "n_cuts": n_cuts,
              "cut_points_list": [[f, c.tolist()] for f, c in cpl], "X": X.tolist()}
    tag, mod = model_fap(chk, cpl, X)
    try:
        got = [int(v) for v in est.find_active_points(X.copy())]
        err = None
    except (ValueError, IndexError) as e:
        got, err = None, ("V" if isinstance(e, ValueError) else "I")
    if tag == "O":
        if err is not None or got != mod or got != spec_active(cpl, X):
            chk.fail("active_points:narrow-data", f"find_active_points on {cols} columns: impl={got or err}, model={mod}", replay)
    elif err is None:
        chk.fail("active_points:narrow-data-silent", f"data lacks a used feature column (model: {'ValueError' if tag == 'V' else 'IndexError'}) but find_active_points answered {got}", replay)
    elif err != tag:
        chk.fail("active_points:narrow-data-error-kind", f"data lacks a used feature column: the model (as the source reads) raises {'ValueError' if tag == 'V' else 'IndexError'}, "
                 f"the implementation raised {'ValueError' if err == 'V' else 'IndexError'}", replay)
    chk.dist[f"active-malformed:{tag}"] += 1
    chk.count(("activemal", d, tuple(used), cols) if tag != "O" else None)


def stream_nomask(chk, i, rng):
    """An (artificially) empty cut_points_list_: the model has no prediction (reduce of an empty sequence)."""
    d = int(rng.integers(1, 4))
    est = Douglas(n_clusters=2, n_cuts=1, max_iter=1, gemini="mmd_ova", random_state=0)
    X = rng.normal(size=(5, d))
    est._init_params(np.random.RandomState(0), X)
    est.cut_points_list_ = []
    est.leaf_scores_ = rng.normal(size=(1, 2))
    mod = model_infer(chk, 0.1, 2, [], est.leaf_scores_, X)
    try:
        P = np.asarray(est._infer(X, retain=False))
        ok = P.shape == (5, 2) and np.allclose(P, P[0]) and np.allclose(P.sum(1), 1)     # a constant prediction is the only inert answer
        if not ok:
            chk.fail("mask:empty", "with no used feature the prediction is neither an error nor a constant probability vector", {"d": d}, layer="L3")
        chk.dist["nomask:answered"] += 1
    except Exception as e:  # noqa
        chk.dist[f"nomask:{type(e).__name__}"] += 1
    if any(r is not None for r in mod):
        chk.fail("infer:model-empty", "model returned a prediction without any used feature", {"d": d})
    chk.count(None)


def repr_variants(ref, kind, rng):
    """The same values in other representations: (label, object, comparison tolerance for floats)."""
    n, d = ref.shape
    out = []
    if kind in ("int", "bool"):
        out += [("int64", ref.astype(np.int64), 1e-12), ("int32", ref.astype(np.int32), 1e-12),
                ("list-int", [[int(v) for v in row] for row in ref], 1e-12)]
    if kind == "bool":
        out += [("bool", ref.astype(bool), 1e-12)]
    out += [("float32", ref.astype(np.float32), 1e-12)]          # values are exactly representable: equality is exact
    out += [("fortran", np.asfortranarray(ref.copy()), 1e-12)]
    big = np.full((2 * n, d), 7.5)
    big[::2] = ref
    out += [("strided-rows", big[::2], 1e-12)]
    rev = ref[:, ::-1].copy()
    out += [("reversed-cols-view", rev[:, ::-1], 1e-12)]
    ro = ref.copy()
    ro.setflags(write=False)
    out += [("read-only", ro, 1e-12)]
    out += [("list", [[float(v) for v in row] for row in ref], 1e-12), ("tuple", tuple(tuple(float(v) for v in row) for row in ref), 1e-12)]
    return out


def snapshot(v):
    if isinstance(v, np.ndarray):
        return (v.dtype.str, v.shape, v.strides, v.flags.writeable, v.tobytes())
    return repr(v)


def stream_repr(chk, i, rng):
    """Input representation: the same values as int64 / int32 / bool / float32 / Fortran / strided / read-only / list inputs to
    predict_proba, predict, score, find_active_points (model with fractional, negative cut points) and fit must give the
    result of the float64 C-contiguous reference and of the extracted model, raise nothing, and leave the caller's array alone."""
    d = int(rng.integers(1, 4))
    mask, used = gen_mask(rng, d)
    n_cuts = int(rng.integers(1, 4))
    K = int(rng.integers(2, 4))
    temp = float([1e-3, 1e-2, 0.1, 1.0][int(rng.integers(0, 4))])
    kind = ["int", "bool", "eighth"][int(rng.integers(0, 3))]
    n = int(rng.integers(K + 2, K + 6))
    if kind == "int":
        ref = rng.integers(-3, 4, size=(n, d)).astype(float)
    elif kind == "bool":
        ref = rng.integers(0, 2, size=(n, d)).astype(float)
    else:
        ref = rng.integers(-24, 25, size=(n, d)) / 8.0
    ref = np.ascontiguousarray(ref, dtype=np.float64)
    seed = int(rng.integers(0, 2 ** 31 - 1))
    est = Douglas(n_clusters=K, gemini="mmd_ova", n_cuts=n_cuts, feature_mask=mask, temperature=temp, max_iter=1, random_state=seed)
    est.fit(rng.normal(size=(K + 3, d)))
    # fractional, negative cut points that no data value can equal
    est.cut_points_list_ = [(j, rng.permutation(np.arange(-20, 21))[:n_cuts] / 8.0 + 0.37 * (1 if rng.random() < 0.5 else -1)) for j in used]
    est.leaf_scores_ = rng.normal(size=((n_cuts + 1) ** len(used), K)) * 2
    cpl, S = cpl_of(est), np.asarray(est.leaf_scores_)
    base = {"d": d, "mask": None if mask is None else [int(v) for v in mask], "n_cuts": n_cuts, "K": K, "temperature": temp, "data": kind,
            "cut_points_list": [[j, c.tolist()] for j, c in cpl], "leaf_scores": S.tolist(), "X": ref.tolist()}
    P0 = np.asarray(est.predict_proba(ref.copy()))
    L0 = np.asarray(est.predict(ref.copy()))
    A0 = [int(v) for v in est.find_active_points(ref.copy())]
    s0 = float(est.score(ref.copy()))
    mod = model_infer(chk, temp, K, cpl, S, ref)
    for r in range(n):
        if mod[r] is None or not close(P0[r], mod[r][1], float(np.abs(S).max())):
            chk.fail("repr:model-mismatch", f"row {r}: float64 reference prediction differs from the model", dict(base, row=r))
            break
    if A0 != spec_active(cpl, ref):
        chk.fail("repr:active-points", f"find_active_points={A0}, spec={spec_active(cpl, ref)}", base, layer="L3")
    variants = repr_variants(ref, kind, rng)
    for label, v, tol in variants:
        replay = dict(base, representation=label)
        before = snapshot(v)
        try:
            P = np.asarray(est.predict_proba(v))
            L = np.asarray(est.predict(v))
            A = [int(a) for a in est.find_active_points(v)]
            sc = float(est.score(v))
        except Exception as e:  # noqa
            chk.fail(f"repr:exception:{type(e).__name__}", f"{label} input raised {type(e).__name__}: {e} where the float64 reference call succeeds", replay, layer="L3")
            continue
        if snapshot(v) != before:
            chk.fail("repr:argument-modified", f"the caller's {label} array was modified by predict_proba/predict/score/find_active_points", replay, layer="L3")
        if P.shape != P0.shape or np.abs(P - P0).max() > tol:
            chk.fail("repr:predict_proba", f"predict_proba of the same values as {label} differs from the float64 reference by "
                     f"{np.abs(P - P0).max() if P.shape == P0.shape else 'shape'} (temperature {temp})", replay, layer="L3")
        elif not np.array_equal(L, L0):
            chk.fail("repr:predict", f"predict of the same values as {label} gives other labels than the float64 reference", replay, layer="L3")
        if A != A0:
            chk.fail("repr:find_active_points", f"find_active_points of the same values as {label} = {A}, float64 reference {A0}", replay, layer="L3")
        # score = GEMINI of the predictions with an affinity computed from the raw input: scikit-learn keeps float32 inputs in
        # float32 there (float32 resolution), and the MMD takes a square root of a cancelling sum (1e-16 noise -> 1e-8)
        # (with a float32 affinity the cancelling sum carries 1e-8 noise -> up to ~3e-4 on a score that is exactly 0 in float64)
        if not abs(sc - s0) <= (2e-3 if label == "float32" else 1e-7) * (1 + abs(s0)):
            chk.fail("repr:score", f"score of the same values as {label} = {sc}, float64 reference {s0}", replay, layer="L3")
        chk.dist[f"repr:{label}"] += 1
    # fit on another representation of the same data: same fitted parameters and labels
    label, v, _ = variants[int(rng.integers(0, len(variants)))]
    kw = dict(n_clusters=K, gemini="mmd_ova", n_cuts=n_cuts, feature_mask=mask, temperature=max(temp, 0.05), max_iter=2, random_state=seed)
    f0 = Douglas(**kw).fit(ref.copy())
    before = snapshot(v)
    try:
        f1 = Douglas(**kw).fit(v)
        same = (np.array_equal(f0.labels_, f1.labels_) and np.allclose(f0.leaf_scores_, f1.leaf_scores_, rtol=0, atol=1e-12)
                and all(a[0] == b[0] and np.allclose(a[1], b[1], rtol=0, atol=1e-12) for a, b in zip(f0.cut_points_list_, f1.cut_points_list_)))
        if not same:
            chk.fail("repr:fit", f"fit on the same values as {label} ends with other parameters / labels than on the float64 reference", dict(base, representation=label), layer="L3")
        if snapshot(v) != before:
            chk.fail("repr:argument-modified", f"the caller's {label} array was modified by fit", dict(base, representation=label), layer="L3")
    except Exception as e:  # noqa
        chk.fail(f"repr:exception:{type(e).__name__}", f"fit on {label} input raised {type(e).__name__}: {e} where the float64 reference call succeeds", dict(base, representation=label), layer="L3")
    chk.dist[f"repr:data={kind}"] += 1
    chk.dist[f"repr:fit:{label}"] += 1
    chk.traces += 1
    chk.count(("repr", kind, d, tuple(used), n_cuts, round(math.log10(temp)), i))


def fresh_copy(est, K, n_cuts, mask, temp, cpl, S):
    """A newly constructed object given identical hyper-parameters and parameters (no history)."""
    f = Douglas(n_clusters=K, gemini="mmd_ova", n_cuts=n_cuts, feature_mask=None if mask is None else np.array(mask, copy=True),
                temperature=temp, max_iter=1)
    f.cut_points_list_ = [(int(j), np.array(c, dtype=float, copy=True)) for j, c in cpl]
    f.leaf_scores_ = np.array(S, dtype=float, copy=True)
    return f


TEMPS = [1.0, 1e-4, 10.0, 1e-3, 0.1, 3e-2, 1e-2, 5.0]


def stream_reuse(chk, i, rng):
    """History independence: a sequence of set temperature / set cut_points_list_ (also with another number of cuts) /
    set leaf_scores_ / set feature_mask / refit / predict operations on ONE Douglas object; after every step predict_proba
    must equal (a) the extracted model on the current parameters, (b) a freshly constructed object holding identical
    parameters, (c) at small temperature softmax(leaf_scores_[cell]) for the rows away from the cut points."""
    d = int(rng.integers(1, 5))
    mask, used = gen_mask(rng, d)
    n_cuts = int(rng.integers(1, 4))
    while (n_cuts + 1) ** len(used) > 81 and n_cuts > 1:
        n_cuts -= 1
    K = int(rng.integers(2, 5))
    temp = float(TEMPS[int(rng.integers(0, len(TEMPS)))])
    seed = int(rng.integers(0, 2 ** 31 - 1))
    est = Douglas(n_clusters=K, gemini="mmd_ova", n_cuts=n_cuts, feature_mask=mask, temperature=temp, max_iter=1, random_state=seed)
    Xtr = rng.normal(size=(K + 3, d))
    est.fit(Xtr)
    n = 4
    ops_done = ["fit"]
    nops = int(rng.integers(4, 8))
    for step in range(nops + 1):
        if step > 0:
            op = ["temp", "temp", "cuts", "ncuts", "scores", "mask", "refit", "binning", "predict"][int(rng.integers(0, 9))]
            if step == 1:
                op = "temp"            # the very first change after the fit is always the temperature
            if op == "temp":
                cands = [t for t in TEMPS if abs(math.log10(t / temp)) >= 1]
                temp = float(cands[int(rng.integers(0, len(cands)))])
                est.set_params(temperature=temp)
            elif op == "cuts":
                est.cut_points_list_ = [(j, gen_cuts(rng, len(c))[0]) for j, c in cpl_of(est)]
            elif op in ("ncuts", "mask"):
                if op == "mask":
                    mask, used = gen_mask(rng, d)
                    est.set_params(feature_mask=mask)
                m2 = int(rng.integers(1, 4))
                while (m2 + 1) ** len(used) > 81 and m2 > 1:
                    m2 -= 1
                if op == "ncuts" and m2 == n_cuts:
                    m2 = n_cuts % 3 + 1 if (n_cuts % 3 + 2) ** len(used) <= 81 else 1
                n_cuts = m2
                est.set_params(n_cuts=n_cuts)
                est.cut_points_list_ = [(j, np.round(rng.uniform(-2, 2, size=n_cuts), 2)) for j in used]
                est.leaf_scores_ = rng.normal(size=((n_cuts + 1) ** len(used), K)) * 2
            elif op == "scores":
                est.leaf_scores_ = rng.normal(size=est.leaf_scores_.shape) * float(10.0 ** rng.uniform(-1, 0.7))
            elif op == "refit":
                est.fit(Xtr)
                n_cuts = est.n_cuts
            elif op == "binning":      # a direct call with another number of cut points in between
                est._leaf_binning(rng.normal(size=(3, 1)), rng.normal(size=int(rng.integers(1, 6))))
            ops_done.append(f"{op}:{temp:g}" if op == "temp" else op)
        cpl = cpl_of(est)
        S = np.asarray(est.leaf_scores_, dtype=float)
        X = rng.normal(size=(n, d)) * 1.5
        if rng.random() < 0.5:          # rows well inside grid cells (useful at small temperature)
            for j, c in cpl:
                X[:, j] = np.round(X[:, j], 1) + 0.05
        replay = {"ops": list(ops_done), "d": d, "mask": None if mask is None else [int(v) for v in mask], "n_cuts": n_cuts, "K": K,
                  "temperature": temp, "cut_points_list": [[j, c.tolist()] for j, c in cpl], "leaf_scores": S.tolist(), "X": X.tolist()}
        if [j for j, _ in cpl] != used or S.shape != ((n_cuts + 1) ** len(used), K):
            chk.fail("reuse:structure", f"after {ops_done}: features {[j for j, _ in cpl]} / leaf_scores_ shape {S.shape} do not match mask {used} and n_cuts {n_cuts}", replay, layer="L3")
            break
        P = np.asarray(est.predict_proba(X.copy()))
        mod = model_infer(chk, temp, K, cpl, S, X)
        sscale = float(np.abs(S).max())
        bad = False
        for r in range(n):
            if mod[r] is None or not close(P[r], mod[r][1], sscale):
                chk.fail("reuse:model-mismatch", f"after {ops_done}: row {r} prediction {P[r].tolist()} differs from the model on the CURRENT parameters "
                         f"{None if mod[r] is None else mod[r][1]}", dict(replay, row=r))
                bad = True
                break
        Pf = np.asarray(fresh_copy(est, K, n_cuts, mask, temp, cpl, S).predict_proba(X.copy()))
        if Pf.shape != P.shape or np.abs(Pf - P).max() > TOL * (1 + sscale):
            chk.fail("reuse:fresh-mismatch", f"after {ops_done}: the reused object predicts differently from a fresh object holding identical parameters "
                     f"(max diff {np.abs(Pf - P).max() if Pf.shape == P.shape else 'shape'})", replay, layer="L3")
            bad = True
        if np.any(P < 0) or np.any(np.abs(P.sum(1) - 1) > 1e-9):
            chk.fail("reuse:simplex", f"after {ops_done}: predictions are not probability vectors", replay, layer="L3")
            bad = True
        if temp <= 1e-2:                # grid cells
            for r in range(n):
                if all(np.min(np.abs(c - X[r, j])) >= 45 * temp for j, c in cpl):
                    idx = 0
                    for j, c in cpl:
                        idx = idx * (len(c) + 1) + count_below(X[r, j], c)
                    want = impl.softmax_rows(S[idx:idx + 1])[0]
                    if np.abs(P[r] - want).max() > 1e-9:
                        chk.fail("reuse:cell", f"after {ops_done}: at temperature {temp} row {r} is not softmax(leaf_scores_[{idx}]) of its grid cell "
                                 f"(diff {np.abs(P[r] - want).max()})", dict(replay, row=r), layer="L3")
                        bad = True
                        break
                    chk.dist["reuse:cell-checked"] += 1
        # find_active_points on the reused object
        got = [int(v) for v in est.find_active_points(X.copy())]
        if got != spec_active(cpl, X):
            chk.fail("reuse:active-points", f"after {ops_done}: find_active_points={got}, spec={spec_active(cpl, X)}", replay, layer="L3")
            bad = True
        chk.dist[f"reuse:op={ops_done[-1].split(':')[0]}"] += 1
        if bad:
            break
    chk.traces += 1
    chk.count(("reuse", d, tuple(used), tuple(ops_done), i) if len(ops_done) >= 3 else None)
    chk.sample({"stream": "reuse", "ops": ops_done, "d": d, "final_temperature": temp})


STREAMS = {"binning": (stream_binning, 900, 9000), "infer": (stream_infer, 800, 8000), "init": (stream_init, 250, 2500),
           "cells": (stream_cells, 400, 4000), "active": (stream_active, 1500, 15000),
           "active_malformed": (stream_active_malformed, 120, 1200), "nomask": (stream_nomask, 5, 20),
           "reuse": (stream_reuse, 250, 2500), "repr": (stream_repr, 60, 600)}


def main():
    chk = Check("C15")
    chk.build()
    chk.proofs()
    if chk.replay_path:
        rp = json.load(open(chk.replay_path))
        st, case = rp["input"].get("stream"), rp["input"].get("case")
        chk.seed = rp.get("seed", chk.seed)
        if st in STREAMS:
            chk.run_stream(st, STREAMS[st][0], 0, only=case)
    else:
        for name, (fn, q, th) in STREAMS.items():
            cnt = q if chk.tier == "quick" else th
            if chk.l1_broken:
                cnt *= 3
            chk.run_stream(name, fn, cnt)
    chk.finish(rule="streams: _leaf_binning on generated cut points (normal/sorted/reversed/duplicated/on the data grid/wide scale; n_cuts 1..7; T in 1e-3..10); "
                    "_infer/predict_proba of Douglas objects after a real 1-epoch fit with handcrafted or fitted parameters (d<=4, masks None/all/some/one, n_cuts 1..4) "
                    "incl. bit-identical predictions under random/huge perturbation of masked columns; _init_params (mask handling, leaf count, wrong-length masks); "
                    "small-temperature grid cells (constant prediction = softmax(leaf_scores_[cell]), cell digit = #cuts below); find_active_points vs model and "
                    "vs an independent spec on ranges between two cuts / touching a cut / constant / outside, and on data with too few columns; "
                    "reuse: operation sequences on ONE object (fit, set_params(temperature) over orders of magnitude, hand-set cut points / number of cuts / leaf scores / mask, refit, "
                    "direct _leaf_binning) with predict_proba compared after every step with the model on the current parameters, a fresh object with identical parameters and the grid-cell value; "
                    "half of the fitted objects of the infer/cells streams are trained at another temperature and switched with set_params; "
                    "repr: the same integral / 0-1 / multiple-of-1/8 values as int64, int32, bool, float32, Fortran, strided, reversed view, read-only, list and tuple inputs to "
                    "predict_proba, predict, score, find_active_points (fractional negative cut points) and fit must reproduce the float64 reference and the model and leave the argument unchanged. "
                    "non-trivial = a masked feature exists or cut points are unsorted/duplicated/on the data grid (binning, infer), a mask is given (init), every cells case, "
                    ">=2 cuts with a between/touch feature (active); distinct = distinct case signature")


if __name__ == "__main__":
    main()
