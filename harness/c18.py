"""C18 — predictions are per-sample functions of the fitted model.

L1  Props/C18.v (forward passes, predict, KernelRIM, Douglas, Tree.predict commute with row selection).
L2  the extracted models (Model/Forward.v + Model/Rowwise.v) evaluated on the recorded fitted parameters and on
    X[r] are compared with predict_proba / predict / Tree.predict of the implementation.
L3  the property itself on the implementation: whole array vs subsets / permutations / single rows / arrays
    with duplicated rows, training data vs labels_ (and KernelRIM's fit-time probabilities), an independent
    single-row router for the trees, the retained hidden state H_.
"""
import copy
import inspect
import json
import os
import traceback
import numpy as np
from core import Check, enc_list, enc_mat, enc_vec, enc_opt, hx
import impl

TOL_P = 1e-12          # row-wise probabilities: exact unless BLAS changes the summation order
TOL_M = 1e-9           # extracted model vs implementation
MARGIN = 1e-9          # arg-max decisions are compared exactly only above this margin
TOL_F32 = 1e-5         # float32 queries / float32-fitted models: float32 resolution

LINEAR = ["LinearModel", "LinearMMD", "LinearWasserstein", "RIM", "SparseLinearModel", "SparseLinearMMD", "SparseLinearMI"]
MLP = ["MLPModel", "MLPMMD", "MLPWasserstein"]
SPMLP = ["SparseMLPModel", "SparseMLPMMD"]
GRADIENT = LINEAR + MLP + SPMLP
STATS = {}             # family -> [cases, exact, within tol, max diff]
OBS = {}               # observations on the examined tree that are reported, not failed (message -> count)


def stat(fam, diff):
    s = STATS.setdefault(fam, [0, 0, 0, 0.0])
    s[0] += 1
    s[1] += diff == 0.0
    s[2] += 0.0 < diff <= TOL_P
    s[3] = max(s[3], float(diff))


# ---------------------------------------------------------------------------------------------- instrumentation
class HarnessError(Exception):
    """a failure of the harness's own recording code (never a verdict about the implementation)"""


def record_calls(obj, attr, rec, rec_err):
    """Install a signature-agnostic recorder on the bound method obj.<attr>: arguments are forwarded unchanged
    (positional or keyword), the first declared argument and the result are appended to rec; an exception of the
    recording code itself goes to rec_err and never reaches the implementation.  Returns the un-installer."""
    orig = getattr(obj, attr)
    try:
        sig = inspect.signature(orig)          # bound method: self is already bound
    except (TypeError, ValueError):
        sig = None

    def wrapper(*args, **kwargs):
        out = orig(*args, **kwargs)
        try:
            if sig is not None:
                ba = sig.bind(*args, **kwargs)
                ba.apply_defaults()
                first = ba.arguments[next(iter(sig.parameters))]
            else:
                first = args[0] if args else next(iter(kwargs.values()))
            rec.append((np.array(first, copy=True), np.array(out, copy=True)))
        except Exception as e:  # noqa
            rec_err.append(f"{type(e).__name__}: {e}")
        return out
    setattr(obj, attr, wrapper)

    def restore():
        try:
            delattr(obj, attr)
        except AttributeError:
            pass
    return restore


HERE = os.path.abspath(__file__)


def guarded(name, fn):
    """Exceptions escaping a case: raised by the harness's own code (innermost frame in this file, or a HarnessError) ->
    key harness-error:...; for an instrumented stream the case is first re-run WITHOUT instrumentation and only if the
    implementation does not raise there is the original exception blamed on the harness.  Everything else is left to
    core.run_stream (key <stream>:exception:<type>)."""
    instrumented = "instrument" in inspect.signature(fn).parameters

    def run(chk, i, rng):
        try:
            return fn(chk, i, rng)
        except Exception as e:  # noqa
            tb = traceback.extract_tb(e.__traceback__)
            own = isinstance(e, HarnessError) or (tb and os.path.abspath(tb[-1].filename) == HERE)
            info = {"traceback": traceback.format_exc(limit=8)}
            if instrumented:
                fn(chk, i, chk.rng(name, i), instrument=False)     # raises again if the implementation itself raises
                chk.fail(f"harness-error:{name}:{type(e).__name__}", f"instrumented case raised {type(e).__name__}: {e}; the same case without "
                         "instrumentation ran through, so this is a defect of the harness recorder, not of the implementation", info, layer="harness")
            elif own:
                chk.fail(f"harness-error:{name}:{type(e).__name__}", f"the harness's own code raised {type(e).__name__}: {e}", info, layer="harness")
            else:
                raise
    return run


# ---------------------------------------------------------------------------------------------- generators
def gen_data(chk, rng, nmax=None):
    big = chk.tier == "thorough"
    n = int(rng.integers(3, nmax or (60 if big else 26)))
    d = int(rng.integers(1, 7 if big else 6))
    kind = rng.choice(["blobs", "blobs", "normal", "grid", "scaled"])
    if kind == "blobs":
        X = impl.blobs(rng, n, d, k=int(rng.integers(2, 5)))
    elif kind == "normal":
        X = rng.normal(size=(n, d))
    elif kind == "grid":                       # small integers: duplicates and threshold ties
        X = rng.integers(-2, 3, size=(n, d)).astype(float)
    else:
        X = impl.blobs(rng, n, d) * float(rng.choice([1e-3, 30.0]))
    if n > 4 and rng.random() < 0.3:           # duplicated training rows
        X[int(rng.integers(0, n))] = X[int(rng.integers(0, n))]
    return np.ascontiguousarray(X), kind


def fresh_array(rng, X, lo=1):
    """new points: fresh rows, copies of training rows, duplicated rows, in random order"""
    n, d = X.shape
    m = int(rng.integers(lo, 22))
    sc = float(np.abs(X).max()) + 1e-3
    rows = []
    for _ in range(m):
        u = rng.random()
        if u < 0.55 or not rows:
            rows.append(rng.normal(size=d) * sc * rng.choice([0.3, 1.0, 2.0]))
        elif u < 0.8:
            rows.append(X[int(rng.integers(0, n))].copy())
        else:
            rows.append(rows[int(rng.integers(0, len(rows)))].copy())
    return np.ascontiguousarray(np.array(rows, dtype=float).reshape(m, d))


def index_maps(rng, m, singles=True):
    """(kind, index list) — subset, permutation, repetitions, single rows, reversed"""
    maps = []
    if m >= 2:
        k = int(rng.integers(1, m))
        maps.append(("subset", sorted(rng.choice(m, size=k, replace=False).tolist())))
        maps.append(("permutation", rng.permutation(m).tolist()))
        maps.append(("reversed", list(range(m - 1, -1, -1))))
    maps.append(("duplicates", rng.integers(0, m, size=int(rng.integers(1, m + 4))).tolist()))
    if singles:
        maps += [("single", [i]) for i in range(m)]
    return maps


def margins(P):
    if P.shape[1] < 2:
        return np.full(len(P), np.inf)
    s = np.sort(P, axis=1)
    return s[:, -1] - s[:, -2]


# ---------------------------------------------------------------------------------------------- L3 suite
def rowwise_suite(chk, key, fam, est, A, rng, replay, proba=True, tolscale=1.0, margin=MARGIN):
    """the property on the implementation: rows of predict(_proba)(A[r]) are rows r of predict(_proba)(A)"""
    try:
        L = np.asarray(est.predict(A))
        P = np.asarray(est.predict_proba(A)) if proba else None
    except Exception as e:  # noqa
        chk.fail(key + ":raises", f"predict / predict_proba of a valid {A.shape} array raised {type(e).__name__}: {e}", replay, layer="L3")
        return None, None, False
    ok = True
    if L.shape != (len(A),) or (proba and (P.ndim != 2 or P.shape[0] != len(A))):
        chk.fail(key + ":shape", f"predict/predict_proba of {len(A)} rows returned shapes {L.shape}/{None if P is None else P.shape}", replay, layer="L3")
        return L, P, False
    if proba:
        if not np.array_equal(L, P.argmax(1)):
            chk.fail(key + ":argmax", "predict is not the row-wise argmax of predict_proba", replay, layer="L3")
            ok = False
        mg = margins(P)
    for kind, r in index_maps(rng, len(A)):
        Ar = np.ascontiguousarray(A[r])
        rp = dict(replay, selection=kind, r=r)
        try:
            Lr = np.asarray(est.predict(Ar))
            Pr = np.asarray(est.predict_proba(Ar)) if proba else None
        except Exception as e:  # noqa
            chk.fail(f"{key}:{kind}:raises", f"predict / predict_proba of {len(r)} selected rows raised {type(e).__name__}: {e}", rp, layer="L3")
            ok = False
            continue
        if Lr.shape != (len(r),):
            chk.fail(f"{key}:{kind}:shape", f"predict of {len(r)} selected rows returned shape {Lr.shape}", rp, layer="L3")
            ok = False
            continue
        bad = np.nonzero(Lr != L[r])[0]
        if proba:
            if Pr.shape != (len(r), P.shape[1]):
                chk.fail(f"{key}:{kind}:shape", f"predict_proba of {len(r)} selected rows returned shape {Pr.shape}", rp, layer="L3")
                ok = False
                continue
            diff = float(np.max(np.abs(Pr - P[r]))) if len(r) else 0.0
            stat(fam, diff)
            if not diff <= TOL_P * tolscale:
                chk.fail(f"{key}:{kind}:proba", f"predict_proba of the selected rows differs from the rows of the whole-array result by {diff:.3e}", rp, layer="L3")
                ok = False
            bad = [b for b in bad if mg[r[b]] > margin]
        if len(bad):
            chk.fail(f"{key}:{kind}:labels", f"predict of the selected rows differs from the labels of the whole array at positions {list(map(int, bad))[:5]}", rp, layer="L3")
            ok = False
    return L, P, ok


def train_labels(chk, key, est, X, L, P, replay, margin=MARGIN):
    lab = np.asarray(est.labels_)
    if lab.shape != L.shape:
        chk.fail(key + ":train-labels", f"predict(X_train) has shape {L.shape}, labels_ {lab.shape}", replay, layer="L3")
        return
    bad = np.nonzero(lab != L)[0]
    if P is not None:
        mg = margins(P)
        bad = [b for b in bad if mg[b] > margin]
    if len(bad):
        chk.fail(key + ":train-labels", f"predict(X_train) does not reproduce labels_ (rows {list(map(int, bad))[:5]})", replay, layer="L3")


# ---------------------------------------------------------------------------------------------- model side
def enc_model(name, est):
    if name in LINEAR:
        d, K = est.W_.shape
        return 0, f"0 {d} {K} {enc_mat(est.W_)} {enc_vec(np.ravel(est.b_))}"
    d, h = est.W1_.shape
    K = est.W2_.shape[1]
    s = f"{d} {h} {K} {enc_mat(est.W1_)} {enc_vec(np.ravel(est.b1_))} {enc_mat(est.W2_)} {enc_vec(np.ravel(est.b2_))}"
    if name in SPMLP:
        return 2, "2 " + s + " " + enc_mat(est.W_skip_)
    return 1, "1 " + s


def read_pl(t, nr, K):
    P = np.array(t.floats(nr * K)).reshape(nr, K)
    L = np.array([t.int() for _ in range(nr)], dtype=int)
    return P, L


def compare_model(chk, key, Pm, Lm, Pi, Li, replay, scale=1.0):
    if Pm.shape != Pi.shape:
        chk.fail(key + ":model-shape", f"model shape {Pm.shape} vs implementation {Pi.shape}", replay)
        return
    diff = float(np.max(np.abs(Pm - Pi))) if Pm.size else 0.0
    if not diff <= TOL_M * scale:
        chk.fail(key + ":model-proba", f"extracted forward pass differs from predict_proba by {diff:.3e}", replay)
    mg = margins(Pi)
    bad = [int(b) for b in np.nonzero(Lm != Li)[0] if mg[b] > MARGIN]
    if bad:
        chk.fail(key + ":model-labels", f"extracted predict differs from predict at rows {bad[:5]}", replay)


def gemini_for(name, i, rng):
    if name in impl.GENERIC_GEMINI:
        gs = impl.all_geminis()
        label, fac = gs[int(rng.integers(0, len(gs)))]
        return label, {"gemini": fac()}
    kw = {}
    if "MMD" in name:
        kw["kernel"] = str(rng.choice(["linear", "rbf", "laplacian"]))
        kw["ovo"] = bool(rng.random() < 0.5)
    if "Wasserstein" in name:
        kw["metric"] = str(rng.choice(["euclidean", "manhattan"]))
        kw["ovo"] = bool(rng.random() < 0.5)
    return json.dumps(kw, sort_keys=True), kw


# ---------------------------------------------------------------------------------------------- streams
def stream_gradient(chk, i, rng):
    name = GRADIENT[i % len(GRADIENT)]
    X, kind = gen_data(chk, rng)
    n, d = X.shape
    K = 1 if rng.random() < 0.06 else int(rng.integers(2, max(min(n, 5), 2) + 1))
    glabel, gkw = gemini_for(name, i, rng)
    if "ovo=True" in glabel and "TV" in glabel and K == 1:
        K = 2
    bs = None if rng.random() < 0.3 else int(rng.integers(1, n + 1))
    kw = dict(n_clusters=K, max_iter=int(rng.integers(2, 4)), batch_size=bs, solver=str(rng.choice(["sgd", "adam"])),
              learning_rate=float(rng.choice([1e-3, 1e-2, 0.1])), n_hidden_dim=int(rng.integers(1, 9)),
              random_state=int(rng.integers(0, 10 ** 6)), alpha=float(rng.choice([1e-3, 0.05])), **gkw)
    est = impl.make(name, **kw)
    replay = {"estimator": name, "gemini": glabel, "n": n, "d": d, "K": K, "data": kind,
              "kw": {k: (v if isinstance(v, (int, float, str, bool, type(None))) else str(v)) for k, v in kw.items()}}
    est.fit(X)
    fam = "linear" if name in LINEAR else "mlp"
    key = "gradient:" + fam
    Xn = fresh_array(rng, X)
    H0 = np.array(est.H_, copy=True) if fam == "mlp" else None
    Lt, Pt, _ = rowwise_suite(chk, key + ":train", fam, est, X, rng, dict(replay, array="train"))
    if Pt is not None:
        train_labels(chk, key, est, X, Lt, Pt, replay)
    Ln, Pn, _ = rowwise_suite(chk, key + ":fresh", fam, est, Xn, rng, dict(replay, array="fresh", m=len(Xn)))
    if Pt is None or Pn is None or Pt.shape != (n, K) or Pn.shape != (len(Xn), K):
        chk.count(None)
        return
    if H0 is not None and not (est.H_.shape == H0.shape and np.array_equal(est.H_, H0)):
        chk.fail(key + ":retained-state", "predict / predict_proba overwrote the retained hidden activations H_", replay, layer="L3")
    # L2: the extracted forward pass on the recorded weights, evaluated on X[r]
    kindno, ms = enc_model(name, est)
    calls = [("train", X, list(range(n)), X)]
    r = rng.integers(0, len(Xn), size=int(rng.integers(1, len(Xn) + 3))).tolist()
    calls.append(("fresh", Xn, r, X[:0]))
    calls.append(("fresh-single", Xn, [int(rng.integers(0, len(Xn)))], X[:0]))
    for tag, A, r, Xtr in calls:
        t = chk.ask(f"c18.model {ms} {enc_mat(A)} {enc_list(r)} {enc_mat(Xtr)}")
        Pm, Lm = read_pl(t, len(r), K)
        fl = np.array([t.int() for _ in range(len(Xtr))], dtype=int)
        Pi = np.asarray(est.predict_proba(np.ascontiguousarray(A[r])))
        Li = np.asarray(est.predict(np.ascontiguousarray(A[r])))
        compare_model(chk, f"{key}:{tag}", Pm, Lm, Pi, Li, dict(replay, array=tag, r=r))
        if len(Xtr):
            mg = margins(Pt)
            bad = [int(b) for b in np.nonzero(fl != np.asarray(est.labels_))[0] if mg[b] > MARGIN]
            if bad:
                chk.fail(key + ":model-fit-labels", f"labels_ differs from the model's argmax of infer on the training rows at {bad[:5]}", replay)
    if fam == "mlp":
        # state-passing _infer: retain=False leaves H_ alone, retain=True stores the hidden layer of the call
        body = ms.split(" ", 1)[1]
        for retain in (False, True):
            Pi = np.asarray(est._infer(Xn, retain=retain))
            t = chk.ask(f"c18.mlp_st {kindno} {body} {enc_opt(H0, enc_mat)} {int(retain)} {enc_mat(Xn)}")
            Pm = np.array(t.floats(len(Xn) * K)).reshape(len(Xn), K)
            st = t.opt(lambda: (lambda rr, cc: np.array(t.floats(rr * cc)).reshape(rr, cc))(t.int(), t.int()))
            if np.max(np.abs(Pm - Pi)) > TOL_M:
                chk.fail(key + ":infer-st", f"_infer(retain={retain}) differs from the state-passing model", replay)
            Hi = np.asarray(est.H_)
            if st is None or st.shape != Hi.shape or np.max(np.abs(st - Hi)) > TOL_M * (1 + np.abs(Hi).max()):
                chk.fail(key + ":infer-st-H", f"H_ after _infer(retain={retain}) is not what the state-passing model stores", replay)
    distinct = len(set(Lt.tolist()) | set(Ln.tolist()))
    chk.traces += 1
    chk.dist[name] += 1
    chk.dist[f"K={K}"] += 1
    chk.dist["labels-distinct>=2" if distinct >= 2 else "labels-constant"] += 1
    chk.count((name, glabel, n, d, K, len(Xn)) if distinct >= 2 and n >= 2 else None)
    chk.sample({"stream": "gradient", **replay, "m": len(Xn), "labels_train": Lt.tolist()[:8]})


def _callable_kernel(A, B):
    A, B = np.asarray(A, dtype=float), np.asarray(B, dtype=float)
    return np.exp(-0.3 * np.abs(A[:, None, :] - B[None, :, :]).sum(-1))


def stream_krim(chk, i, rng, instrument=True):
    X, kind = gen_data(chk, rng, nmax=22)
    if kind == "scaled":
        X = X / np.abs(X).max()
    n, d = X.shape
    K = int(rng.integers(1, min(n, 4) + 1))
    kname = ["linear", "rbf", "polynomial", "sigmoid", "laplacian", "cosine", "callable"][i % 7]
    params = None
    if kname == "rbf" and rng.random() < 0.5:
        params = {"gamma": float(rng.uniform(0.05, 1.0))}
    if kname == "polynomial":
        params = {"degree": 2, "gamma": 0.2, "coef0": 1.0}
    if kname == "cosine":
        X = X + 0.1
    bs = None if rng.random() < 0.4 else int(rng.integers(1, n + 1))
    est = impl.make("KernelRIM", n_clusters=K, max_iter=int(rng.integers(2, 4)), batch_size=bs, reg=float(rng.choice([0.0, 0.1, 1.0])),
                    learning_rate=float(rng.choice([1e-3, 1e-2])), solver=str(rng.choice(["sgd", "adam"])),
                    base_kernel=_callable_kernel if kname == "callable" else kname, base_kernel_params=params,
                    random_state=int(rng.integers(0, 10 ** 6)))
    replay = {"estimator": "KernelRIM", "kernel": kname, "kernel_params": params, "n": n, "d": d, "K": K, "batch_size": bs, "data": kind}
    rec, rec_err = [], []
    if instrument:
        restore = record_calls(est, "_infer", rec, rec_err)
        try:
            est.fit(X)
        finally:
            restore()
        if rec_err or not rec:
            raise HarnessError("the _infer recorder failed: " + (rec_err[0] if rec_err else "no call recorded"))
        fitK, fitP = rec[-1]                   # the labelling pass of fit: _infer(training_kernel_)
    else:                                      # fallback without instrumentation (only after the recorder itself failed)
        est.fit(X)
        fitK = np.array(est.training_kernel_, copy=True)
        fitP = np.asarray(est._infer(est.training_kernel_, retain=False))
    key = "krim"
    Xn = fresh_array(rng, X)
    if kname == "cosine":
        Xn = Xn + 0.1
    kscale = 1.0 + float(np.abs(est.training_kernel_).max()) * (1.0 + float(np.abs(est.W_).max()))
    # L3: kernel against the stored training points; training predictions = fit's
    if not (np.array_equal(np.asarray(est.input_data_), X) and fitK.shape == (n, n)):
        chk.fail(key + ":stored-data", "input_data_ is not the training array / fit did not infer on an n x n kernel", replay, layer="L3")
    for tag, A in (("train", X), ("fresh", Xn)):
        Kw = np.asarray(est._compute_kernel(A))
        if Kw.shape != (len(A), n):
            chk.fail(key + ":kernel-shape", f"_compute_kernel of {len(A)} rows has shape {Kw.shape}, expected ({len(A)}, {n})", dict(replay, array=tag), layer="L3")
            continue
        # the hypothesis made on the oracle in C18_kernel_rim_rowwise, spot-checked
        r = rng.integers(0, len(A), size=len(A) + 2).tolist()
        Kr = np.asarray(est._compute_kernel(np.ascontiguousarray(A[r])))
        if Kr.shape != (len(r), n):
            chk.fail(key + ":kernel-shape", f"_compute_kernel of {len(r)} rows has shape {Kr.shape}, expected ({len(r)}, {n})", dict(replay, array=tag, r=r), layer="L3")
        elif np.max(np.abs(Kr - Kw[r])) > 1e-12 * (1 + np.abs(Kw).max()):
            chk.fail(key + ":oracle-rowwise", "the kernel oracle itself is not row-wise on this input", dict(replay, array=tag, r=r), layer="L3")
    Lt, Pt, _ = rowwise_suite(chk, key + ":train", "krim", est, X, rng, dict(replay, array="train"), tolscale=kscale)
    Ln, Pn, _ = rowwise_suite(chk, key + ":fresh", "krim", est, Xn, rng, dict(replay, array="fresh", m=len(Xn)), tolscale=kscale)
    if Pt is None or Pn is None or Pt.shape != fitP.shape:
        if Pt is not None and Pt.shape != fitP.shape:
            chk.fail(key + ":train-proba", f"predict_proba(X_train) has shape {Pt.shape}, fit computed {fitP.shape}", replay, layer="L3")
        chk.count(None)
        return
    dfit = float(np.max(np.abs(Pt - fitP)))
    stat("krim:train-vs-fit", dfit)
    if dfit > TOL_P * kscale:
        chk.fail(key + ":train-proba", f"predict_proba(X_train) differs from the probabilities computed during fit by {dfit:.3e}", replay, layer="L3")
    dk = float(np.max(np.abs(np.asarray(est._compute_kernel(X)) - fitK)))
    if dk > 1e-12 * (1 + np.abs(fitK).max()):
        chk.fail(key + ":train-kernel", f"the kernel rows of the training points at prediction time differ from fit's by {dk:.3e}", replay, layer="L3")
    train_labels(chk, key, est, X, Lt, Pt, replay)
    # L2
    calls = [("train", X, list(range(n))), ("fresh", Xn, rng.integers(0, len(Xn), size=int(rng.integers(1, len(Xn) + 3))).tolist()),
             ("fresh-single", Xn, [int(rng.integers(0, len(Xn)))])]
    for tag, A, r in calls:
        KA = np.asarray(est._compute_kernel(A))
        t = chk.ask(f"c18.krim {d} {n} {K} {enc_mat(X)} {enc_mat(est.training_kernel_)} {enc_mat(est.W_)} {enc_vec(np.ravel(est.b_))} "
                    f"{enc_mat(A)} {enc_mat(KA)} {enc_list(r)}")
        unknown = t.int()
        Pm, Lm = read_pl(t, len(r), K)
        Pf, Lf = read_pl(t, n, K)
        rp = dict(replay, array=tag, r=r)
        if unknown:
            chk.fail(key + ":model-oracle", "the model asked the recorded kernel oracle for a row it never saw", rp)
        Ar = np.ascontiguousarray(A[r])
        compare_model(chk, f"{key}:{tag}", Pm, Lm, np.asarray(est.predict_proba(Ar)), np.asarray(est.predict(Ar)), rp, scale=kscale)
        compare_model(chk, f"{key}:fit", Pf, Lf, fitP, np.asarray(est.labels_), rp, scale=kscale)
    if i % 7 == 0:       # the model's own linear kernel against sklearn's (witness of the oracle hypothesis)
        t = chk.ask(f"c18.linkern {d} {enc_mat(Xn)} {enc_mat(X)}")
        Km = np.array(t.floats(len(Xn) * n)).reshape(len(Xn), n)
        if np.max(np.abs(Km - np.asarray(est._compute_kernel(Xn)))) > TOL_M * (1 + np.abs(Km).max()):
            chk.fail(key + ":linear-kernel", "linear kernel of the model differs from pairwise_kernels", replay)
    distinct = len(set(Lt.tolist()) | set(Ln.tolist()))
    chk.traces += 1
    chk.dist["KernelRIM:" + kname] += 1
    chk.count(("krim", kname, n, d, K, len(Xn)) if distinct >= 2 and len(Xn) != n else None)
    chk.sample({"stream": "krim", **replay, "m": len(Xn)}, limit=6)


def stream_douglas(chk, i, rng):
    X, kind = gen_data(chk, rng)
    X = X[:, :3]
    n, d = X.shape
    K = int(rng.integers(1, min(n, 4) + 1))
    nc = int(rng.integers(1, 4))
    mask = None
    if rng.random() < 0.4 and d > 1:
        mask = rng.random(d) < 0.6
        if not mask.any():
            mask[int(rng.integers(0, d))] = True
    gs = impl.all_geminis()
    glabel, fac = gs[int(rng.integers(0, len(gs)))]
    if "TV" in glabel and "ovo=True" in glabel and K == 1:
        K = 2
    temp = float(rng.choice([0.1, 0.5, 1.0, 3.0]))
    est = impl.make("Douglas", n_clusters=K, gemini=fac(), n_cuts=nc, feature_mask=mask, temperature=temp, max_iter=int(rng.integers(2, 4)),
                    batch_size=None if rng.random() < 0.4 else int(rng.integers(1, n + 1)), learning_rate=float(rng.choice([1e-2, 0.1])),
                    solver=str(rng.choice(["sgd", "adam"])), random_state=int(rng.integers(0, 10 ** 6)))
    replay = {"estimator": "Douglas", "gemini": glabel, "n": n, "d": d, "K": K, "n_cuts": nc, "temperature": temp,
              "feature_mask": None if mask is None else mask.tolist(), "data": kind}
    est.fit(X)
    key = "douglas"
    Xn = fresh_array(rng, X)
    Lt, Pt, _ = rowwise_suite(chk, key + ":train", "douglas", est, X, rng, dict(replay, array="train"))
    Ln, Pn, _ = rowwise_suite(chk, key + ":fresh", "douglas", est, Xn, rng, dict(replay, array="fresh", m=len(Xn)))
    if Pt is None or Pn is None:
        chk.count(None)
        return
    train_labels(chk, key, est, X, Lt, Pt, replay)
    cuts = enc_list(est.cut_points_list_, lambda fc: f"{int(fc[0])} {enc_vec(np.sort(np.asarray(fc[1], dtype=float)))}")
    nleaf = est.leaf_scores_.shape[0]
    head = f"c18.douglas {nc} {hx(temp)} {cuts} {nleaf} {K} {enc_mat(est.leaf_scores_)}"
    calls = [("train", X, list(range(n))), ("fresh", Xn, rng.integers(0, len(Xn), size=int(rng.integers(1, len(Xn) + 3))).tolist())]
    for tag, A, r in calls:
        t = chk.ask(f"{head} {enc_mat(A)} {enc_list(r)}")
        Pm, Lm = read_pl(t, len(r), K)
        Ar = np.ascontiguousarray(A[r])
        compare_model(chk, f"{key}:{tag}", Pm, Lm, np.asarray(est.predict_proba(Ar)), np.asarray(est.predict(Ar)), dict(replay, array=tag, r=r))
    distinct = len(set(Lt.tolist()) | set(Ln.tolist()))
    chk.traces += 1
    chk.dist["Douglas"] += 1
    chk.dist[f"douglas-leaves={nleaf}"] += 1
    chk.count(("douglas", glabel, n, d, K, nc, len(Xn)) if distinct >= 2 else None)


# ---------------------------------------------------------------------------------------------- trees
def tree_arrays(tr):
    return dict(n_nodes=int(tr.n_nodes), left=[int(v) for v in tr.children_left], right=[int(v) for v in tr.children_right],
                target=[int(v) for v in tr.target], feat=[None if v is None else int(v) for v in tr.features],
                thr=[None if v is None else float(v) for v in tr.thresholds], cat=[bool(v) for v in tr.categorical_nodes])


def enc_tree(ta):
    return (f"{ta['n_nodes']} {enc_list(ta['left'])} {enc_list(ta['right'])} {enc_list(ta['target'])} "
            f"{enc_list(ta['feat'], enc_opt)} {enc_list(ta['thr'], lambda v: enc_opt(v, hx))} {enc_list(ta['cat'], lambda b: str(int(b)))}")


def tree_wellformed(ta):
    n = ta["n_nodes"]
    if not all(len(ta[k]) == n for k in ("left", "right", "target", "feat", "thr", "cat")) or any(ta["cat"]):
        return False
    for a in range(n):
        if ta["left"][a] == -1:
            continue
        if not (a < ta["left"][a] < n and a < ta["right"][a] < n and ta["feat"][a] is not None and ta["thr"][a] is not None):
            return False
    return True


def route_reference(ta, x, node=0):
    """independent single-row router (iterative, no masks)"""
    while ta["left"][node] != -1:
        node = ta["left"][node] if x[ta["feat"][node]] <= ta["thr"][node] else ta["right"][node]
    return ta["target"][node], node


def model_tree(chk, ta, A, r, node=0, fuel=None):
    t = chk.ask(f"c18.tree {enc_tree(ta)} {enc_mat(A)} {enc_list(r)} {node} {enc_opt(fuel)}")
    st = t.int()
    vec = t.list(t.int) if st == 0 else None
    rows = []
    for _ in r:
        s = t.int()
        rows.append((s, t.int() if s == 0 else None))
    return st, vec, rows


def check_tree(chk, key, tr, A, rng, replay, predict, maps=None):
    """tr: gemclus Tree; predict(B) -> labels of the rows of B.  Returns (labels, set of leaves reached)."""
    ta = tree_arrays(tr)
    if not tree_wellformed(ta):
        chk.fail(key + ":wf", "the fitted/constructed tree arrays are not well formed (lengths, child indices, feature/threshold, categorical flag)", dict(replay, tree=ta), layer="L3")
        return None, set()
    L = np.asarray(predict(A))
    ref = [route_reference(ta, x) for x in A]
    if L.shape != (len(A),) or [int(v) for v in L] != [a for a, _ in ref]:
        chk.fail(key + ":route", "Tree.predict differs from routing each row alone through the tree", dict(replay, tree=ta), layer="L3")
    for kind, r in (maps if maps is not None else index_maps(rng, len(A))):
        Lr = np.asarray(predict(np.ascontiguousarray(A[r])))
        if Lr.shape != (len(r),) or not np.array_equal(Lr, L[r]):
            chk.fail(f"{key}:{kind}:labels", "predict of the selected rows differs from the labels of the whole array", dict(replay, selection=kind, r=r, tree=ta), layer="L3")
    # L2: the mask recursion of the model on A[r], and the model's single-row routing
    r = rng.integers(0, len(A), size=int(rng.integers(1, len(A) + 3))).tolist() if len(A) else []
    for rr in ([list(range(len(A)))] + ([r] if len(A) else [])):
        st, vec, rows = model_tree(chk, ta, A, rr)
        Li = np.asarray(predict(np.ascontiguousarray(A[rr]))) if len(rr) else np.zeros(0, dtype=int)
        if st != 0 or vec != [int(v) for v in Li]:
            chk.fail(key + ":model", f"model of Tree.predict: status {st}, labels {vec} vs implementation {Li.tolist()}", dict(replay, r=rr, tree=ta))
        if any(s != 0 or lab != int(Li[k]) for k, (s, lab) in enumerate(rows)):
            chk.fail(key + ":model-route", "model single-row routing differs from the implementation's labels", dict(replay, r=rr, tree=ta))
    return L, {leaf for _, leaf in ref}


def stream_kauri(chk, i, rng):
    X, kind = gen_data(chk, rng, nmax=41 if chk.tier == "quick" else 100)
    n, d = X.shape
    kw = dict(max_clusters=int(rng.integers(1, 6)), max_depth=None if rng.random() < 0.5 else int(rng.integers(1, 5)),
              min_samples_leaf=int(rng.integers(1, 3)), max_leaves=None if rng.random() < 0.6 else int(rng.integers(2, 8)),
              max_features=None if rng.random() < 0.7 else int(rng.integers(1, d + 1)),
              kernel=str(rng.choice(["linear", "rbf", "laplacian", "polynomial"])), random_state=int(rng.integers(0, 10 ** 6)))
    kw["min_samples_split"] = max(2 * kw["min_samples_leaf"], int(rng.integers(2, 5)))
    est = impl.make("Kauri", **kw)
    replay = {"estimator": "Kauri", "n": n, "d": d, "data": kind, "kw": kw}
    est.fit(X)
    key = "kauri"
    Lt, leaves = check_tree(chk, key + ":train", est.tree_, X, rng, dict(replay, array="train"), est.predict)
    if Lt is not None and not np.array_equal(Lt, np.asarray(est.labels_)):
        chk.fail(key + ":train-labels", "Kauri.predict(X_train) does not reproduce labels_", replay, layer="L3")
    if Lt is not None:
        partition_consistency(chk, key, est, X, replay)
    Xn = fresh_array(rng, X)
    if rng.random() < 0.5:                      # values exactly on thresholds
        ths = [(f, t) for f, t in zip(est.tree_.features, est.tree_.thresholds) if f is not None]
        for f, t in ths[:len(Xn)]:
            Xn[int(rng.integers(0, len(Xn))), f] = t
    Ln, leaves_n = check_tree(chk, key + ":fresh", est.tree_, Xn, rng, dict(replay, array="fresh", m=len(Xn)), est.predict)
    if Lt is not None and hasattr(est, "leaves_"):
        ref_leaf = [route_reference(tree_arrays(est.tree_), x)[1] for x in X]
        # leaves_ numbers leaves in creation order; only the induced partition is compared
        if len(set(zip(ref_leaf, np.asarray(est.leaves_).tolist()))) != len(set(ref_leaf)):
            chk.fail(key + ":train-leaves", "the partition of the training rows by routed leaf differs from leaves_", replay, layer="L3")
    chk.traces += 1
    nn = int(est.tree_.n_nodes)
    chk.dist[f"kauri-nodes={min(nn, 9)}{'+' if nn > 9 else ''}"] += 1
    chk.count(("kauri", n, d, nn, len(Xn), tuple(sorted(kw.items(), key=str))) if nn >= 3 and len(leaves | leaves_n) >= 2 else None)
    chk.sample({"stream": "kauri", **replay, "tree": tree_arrays(est.tree_)}, limit=6)


def random_tree(rng, d, splits):
    from gemclus.tree.kauri import Tree
    from gemclus.tree._utils import Split
    tr = Tree()
    leaves = [0]
    for _ in range(splits):
        leaf = leaves.pop(int(rng.integers(0, len(leaves))))
        thr = float(rng.integers(-2, 3)) + float(rng.choice([0.0, 0.0, 0.5]))
        tr._add_child(leaf, Split(float(rng.random()), 0, int(rng.integers(0, 5)), int(rng.integers(0, 5)), int(rng.integers(0, d)), thr, False))
        leaves += [tr.n_nodes - 2, tr.n_nodes - 1]
    return tr


def stream_tree(chk, i, rng):
    """Tree.predict called directly on hand-grown trees (through the real _add_child), any start node, empty arrays, NaN"""
    d = int(rng.integers(1, 4))
    splits = int(rng.integers(0, 13 if chk.tier == "quick" else 40))
    tr = random_tree(rng, d, splits)
    m = int(rng.integers(0, 16))
    A = rng.integers(-3, 4, size=(m, d)).astype(float)
    if m and rng.random() < 0.2:
        A[int(rng.integers(0, m)), int(rng.integers(0, d))] = np.nan      # nan <= t is False: right branch
    if m and rng.random() < 0.2:
        A[int(rng.integers(0, m)), int(rng.integers(0, d))] = np.inf * rng.choice([-1, 1])
    replay = {"splits": splits, "d": d, "m": m, "A": A.tolist()}
    node = 0 if rng.random() < 0.5 else int(rng.integers(0, tr.n_nodes))
    ta = tree_arrays(tr)
    if m and np.isfinite(A).all() and splits:
        # Tree.predict itself on other representations of the same (integer-valued) rows; thresholds are fractional
        ref = np.asarray(tr.predict(A, node))
        for vtag, V in representations(A, rng):
            if isinstance(V, np.ndarray):
                snap = snapshot(V)
                try:
                    got = np.asarray(tr.predict(V, node))
                except Exception as e:  # noqa
                    chk.fail(f"tree:repr:{vtag}:raises", f"Tree.predict raised {type(e).__name__}: {e} on the rows as {vtag}", dict(replay, node=node, tree=ta), layer="L3")
                    continue
                if not np.array_equal(got, ref) or not unchanged(V, snap):
                    chk.fail(f"tree:repr:{vtag}", f"Tree.predict on the rows as {vtag} differs from the float64 reference (or modified its argument)", dict(replay, node=node, tree=ta), layer="L3")
        chk.dist["tree-repr"] += 1
    if node == 0:
        L, leaves = check_tree(chk, "tree", tr, A, rng, replay, tr.predict, maps=index_maps(rng, m, singles=m <= 8) if m else [])
    else:
        # start at an inner node: vectorised result vs the model from that node
        Li = np.asarray(tr.predict(A, node))
        st, vec, rows = model_tree(chk, ta, A, list(range(m)), node=node)
        refl = [route_reference(ta, x, node)[0] for x in A]
        leaves = {route_reference(ta, x, node)[1] for x in A}
        if st != 0 or vec != Li.tolist() or [lab for _, lab in rows] != Li.tolist():
            chk.fail("tree:model-node", f"Tree.predict(X, node={node}) differs from the model", dict(replay, node=node, tree=ta))
        if refl != Li.tolist():
            chk.fail("tree:route-node", f"Tree.predict(X, node={node}) differs from routing each row alone", dict(replay, node=node, tree=ta), layer="L3")
    chk.dist[f"tree-nodes={min(tr.n_nodes, 9)}{'+' if tr.n_nodes > 9 else ''}"] += 1
    chk.dist["tree-empty-array" if m == 0 else "tree-rows"] += 1
    chk.count(("tree", splits, d, m, node, hash(A.tobytes())) if splits >= 1 and len(leaves) >= 2 else None)


# ---------------------------------------------------------------------------------------------- adversarial floats
def partition_consistency(chk, key, est, X, replay):
    """stored rule == training partition: with the leaf numbering of Kauri.fit (left child keeps the leaf number, the
    right child of the k-th split gets number k) leaves_ gives the training samples under every node; every stored
    threshold t must have x <= t for all training samples fit sent left and x > t for all it sent right.
    Returns the number of splits that separate two ADJACENT doubles."""
    ta = tree_arrays(est.tree_)
    n = ta["n_nodes"]
    leaf_id, counter = {0: 0}, 1
    for a in sorted((a for a in range(n) if ta["left"][a] != -1), key=lambda a: ta["left"][a]):
        if a not in leaf_id:
            chk.fail(key + ":numbering", "tree nodes are not created in split order", dict(replay, tree=ta), layer="L3")
            return 0
        leaf_id[ta["left"][a]] = leaf_id[a]
        leaf_id[ta["right"][a]] = counter
        counter += 1
    lv = np.asarray(est.leaves_)
    under = {}

    def samples(a):
        if a not in under:
            under[a] = np.nonzero(lv == leaf_id[a])[0] if ta["left"][a] == -1 else np.concatenate([samples(ta["left"][a]), samples(ta["right"][a])])
        return under[a]
    if len(samples(0)) != len(X):
        chk.fail(key + ":leaves", "leaves_ does not cover the training samples through the leaves of tree_", dict(replay, tree=ta), layer="L3")
        return 0
    adjacent = 0
    for a in range(n):
        if ta["left"][a] == -1:
            continue
        f, t = ta["feat"][a], ta["thr"][a]
        xl, xr = X[samples(ta["left"][a]), f], X[samples(ta["right"][a]), f]
        if len(xl) == 0 or len(xr) == 0 or not (xl <= t).all() or not (xr > t).all():
            chk.fail(key + ":threshold", f"node {a}: stored rule x[{f}] <= {t!r} does not reproduce the partition made by fit "
                     f"(left max {xl.max() if len(xl) else None!r}, right min {xr.min() if len(xr) else None!r})", dict(replay, node=a, tree=ta), layer="L3")
        elif xr.min() == np.nextafter(xl.max(), np.inf):
            adjacent += 1
    return adjacent


ADV_MODERATE = [0.3, 0.1, 1.0, -1.0, 1.0 / 3.0, 0.7, -0.30000000000000004, 2.0 ** -20, 123456.789, -2.5]
ADV_EXTREME = [-5e-324, 5e-324, 1e-300, -1e-300, 2.0 ** 53, 1e300, -1e300, 1e308, 2.2250738585072014e-308]


def adversarial_feature(rng, n, g, extreme):
    """values in g ordered groups whose neighbouring groups are separated by two ADJACENT doubles (a, nextafter(a, +inf)),
    with duplicates of the border values; returns (values, group index)"""
    pool = ADV_MODERATE + (ADV_EXTREME if extreme else [])
    bases = sorted(set(float(v) for v in rng.choice(pool, size=min(g - 1, len(pool)), replace=False)))
    g = len(bases) + 1
    lo = [None] + [float(np.nextafter(a, np.inf)) for a in bases]       # smallest value of group j (j >= 1)
    hi = bases + [None]                                                  # largest value of group j (j < g-1)
    vals, grp = [], []
    for j in range(g):
        l = lo[j] if lo[j] is not None else hi[j] - min(abs(hi[j]), 1e300) - 1.0
        h = hi[j] if hi[j] is not None else lo[j] + min(abs(lo[j]), 1e300) + 1.0
        cnt = max(2, n // g + int(rng.integers(-1, 2)))
        mine = [v for v in (lo[j], hi[j]) if v is not None]
        while len(mine) < cnt:
            u = rng.random()
            if u < 0.35:
                mine.append(mine[int(rng.integers(0, len(mine)))])            # exact duplicates / ties
            elif u < 0.5 and l <= 0.0 <= h:
                mine.append(float(rng.choice([0.0, -0.0])))                   # negative zero
            else:
                w = h - l
                v = float(l + w * rng.random()) if np.isfinite(w) else float(rng.choice([l, h]))
                mine.append(min(max(v, l), h))
        vals += mine
        grp += [j] * len(mine)
    return np.array(vals), np.array(grp)


def stream_kauri_adv(chk, i, rng):
    """trees on adversarial float data: splits forced between adjacent doubles (0.3 | 0.1+0.2, x | nextafter(x)), ties,
    duplicates, negative zero, denormal and huge magnitudes; predict(X_train) == labels_, stored thresholds == the partition
    made by fit, extracted routing model on the stored tree == labels_.  Every 5th case: Douglas on the same kind of data."""
    douglas = i % 5 == 4
    kern = "precomputed" if (i % 5) in (0, 1, 2) else str(rng.choice(["linear", "rbf", "laplacian", "polynomial"]))
    extreme = kern == "precomputed" and not douglas and rng.random() < 0.6
    g = int(rng.integers(2, 5))
    vals, grp = adversarial_feature(rng, int(rng.integers(5, 25)), g, extreme)
    n = len(vals)
    cols = [vals]
    if kern != "precomputed" or rng.random() < 0.3:
        cols.append(grp * 4.0 + (0.0 if rng.random() < 0.5 else 0.25 * rng.random(n)))   # a signal feature the named kernels can see
    if rng.random() < 0.3:
        cols.append(rng.integers(-1, 2, size=n).astype(float))
    fadv = 0
    if rng.random() < 0.3 and len(cols) > 1:
        cols = cols[1:] + cols[:1]
        fadv = len(cols) - 1
    perm = rng.permutation(n)
    X = np.ascontiguousarray(np.stack(cols, axis=1)[perm])
    grp = grp[perm]
    replay = {"n": n, "d": X.shape[1], "groups": int(grp.max()) + 1, "kernel": kern, "extreme": bool(extreme),
              "X": [[float(v).hex() for v in row] for row in X.tolist()]}
    if douglas:
        K = int(rng.integers(2, 4))
        est = impl.make("Douglas", n_clusters=K, n_cuts=int(rng.integers(1, 3)), max_iter=2, temperature=float(rng.choice([0.1, 1.0])),
                        batch_size=None if rng.random() < 0.5 else int(rng.integers(1, n + 1)), random_state=int(rng.integers(0, 10 ** 6)))
        est.fit(X)
        Lt, Pt, _ = rowwise_suite(chk, "kauri-adv:douglas", "douglas-adv", est, X, rng, dict(replay, estimator="Douglas"))
        if Pt is not None and Pt.shape == (n, K):
            train_labels(chk, "kauri-adv:douglas", est, X, Lt, Pt, dict(replay, estimator="Douglas"))
        chk.dist["kauri-adv:Douglas"] += 1
        chk.count(("adv-douglas", n, X.shape[1], K, hash(X.tobytes())) if Lt is not None and len(set(Lt.tolist())) >= 2 else None)
        return
    y = None
    if kern == "precomputed":
        coarse = grp // 2
        y = (grp[:, None] == grp[None, :]).astype(float) + float(rng.choice([0.0, 0.5])) * (coarse[:, None] == coarse[None, :])
    kw = dict(max_clusters=int(grp.max()) + 1 + int(rng.integers(0, 3)), min_samples_leaf=1, min_samples_split=2, kernel=kern,
              max_depth=None, max_leaves=None, random_state=int(rng.integers(0, 10 ** 6)))
    est = impl.make("Kauri", **kw)
    replay.update(estimator="Kauri", kw=kw)
    est.fit(X, y)
    key = "kauri-adv"
    Lt, leaves = check_tree(chk, key + ":train", est.tree_, X, rng, replay, est.predict)
    if Lt is None:
        chk.count(None)
        return
    lab = np.asarray(est.labels_)
    if not np.array_equal(Lt, lab):
        bad = np.nonzero(Lt != lab)[0]
        chk.fail(key + ":train-labels", f"Kauri.predict(X_train) does not reproduce labels_ at rows {bad.tolist()[:6]} "
                 f"(values {[X[b, :].tolist() for b in bad[:3]]})", dict(replay, tree=tree_arrays(est.tree_)), layer="L3")
    st, vec, rows = model_tree(chk, tree_arrays(est.tree_), X, list(range(n)))
    if st != 0 or vec != lab.tolist() or [l for _, l in rows] != lab.tolist():
        chk.fail(key + ":model-vs-labels", "the extracted routing model on the stored tree does not reproduce labels_", dict(replay, tree=tree_arrays(est.tree_)))
    adjacent = partition_consistency(chk, key, est, X, replay)
    # fresh points sitting on, just below and just above every stored threshold
    ths = [(f, t) for f, t in zip(est.tree_.features, est.tree_.thresholds) if f is not None]
    if ths:
        rows_new = []
        for f, t in ths:
            for v in (t, np.nextafter(t, -np.inf), np.nextafter(t, np.inf), -t):
                r0 = X[int(rng.integers(0, n))].copy()
                r0[f] = v
                rows_new.append(r0)
        Xn = np.array(rows_new)[rng.permutation(len(rows_new))][:24]
        Xn = np.ascontiguousarray(Xn[np.isfinite(Xn).all(1)])
        if len(Xn):
            check_tree(chk, key + ":fresh", est.tree_, Xn, rng, dict(replay, array="fresh"), est.predict,
                       maps=index_maps(rng, len(Xn), singles=len(Xn) <= 10))
    on_adv = sum(1 for f, _ in ths if f == fadv)
    chk.traces += 1
    chk.dist["kauri-adv:" + kern] += 1
    chk.dist[f"kauri-adv:adjacent-double-splits={min(adjacent, 3)}{'+' if adjacent > 3 else ''}"] += 1
    chk.dist["kauri-adv:extreme-magnitudes" if extreme else "kauri-adv:moderate"] += 1
    chk.count(("kauri-adv", kern, n, X.shape[1], int(est.tree_.n_nodes), adjacent, on_adv, hash(X.tobytes())) if adjacent >= 1 else None)
    chk.sample({"stream": "kauri_adv", "kernel": kern, "n": n, "adjacent_double_splits": adjacent, "thresholds": [float(t).hex() for _, t in ths][:4]}, limit=10)


# ---------------------------------------------------------------------------------------------- refit
ALL_INDUCTIVE = GRADIENT + ["KernelRIM", "Douglas", "Kauri"]


def refit_factory(name, rng, nmin, same_d):
    """(label, factory): factory() builds a NEW estimator (and a new GEMINI object) with identical hyper-parameters"""
    seed = int(rng.integers(0, 10 ** 6))
    K = int(rng.integers(2, max(min(nmin, 4), 2) + 1))
    base = dict(n_clusters=K, max_iter=int(rng.integers(2, 4)), batch_size=None if rng.random() < 0.4 else int(rng.integers(1, nmin + 1)),
                solver=str(rng.choice(["sgd", "adam"])), learning_rate=float(rng.choice([1e-2, 0.1])), random_state=seed)
    if name == "Kauri":
        kw = dict(max_clusters=int(rng.integers(2, 5)), max_depth=None if rng.random() < 0.5 else int(rng.integers(1, 4)),
                  kernel=str(rng.choice(["linear", "rbf"])), random_state=seed)
        return json.dumps(kw, sort_keys=True), K, (lambda: impl.make("Kauri", **kw))
    if name == "KernelRIM":
        kern = "linear" if rng.random() < 0.6 else str(rng.choice(["rbf", "laplacian", "polynomial"]))
        kw = dict(base, base_kernel=kern, reg=float(rng.choice([0.0, 0.1])))
        return kern, K, (lambda: impl.make("KernelRIM", **kw))
    if name == "Douglas":
        gs = impl.all_geminis()
        gi = int(rng.integers(0, len(gs)))
        kw = dict(base, n_cuts=int(rng.integers(1, 3)), temperature=float(rng.choice([0.1, 1.0])))
        return gs[gi][0], K, (lambda: impl.make("Douglas", gemini=gs[gi][1](), **kw))
    kw = dict(base, n_hidden_dim=int(rng.integers(1, 7)), alpha=float(rng.choice([1e-3, 0.05])))
    if name in impl.GENERIC_GEMINI:
        gs = impl.all_geminis()
        gi = int(rng.integers(0, len(gs)))
        return gs[gi][0], K, (lambda: impl.make(name, gemini=gs[gi][1](), **kw))
    glabel, gkw = gemini_for(name, 0, rng)
    return glabel, K, (lambda: impl.make(name, **kw, **gkw))


def model_on_current_fit(chk, key, name, est, B, r, K, replay, train=True):
    """L2: the extracted model evaluated on the attributes the estimator holds NOW vs predict_proba / predict / labels_"""
    Br = np.ascontiguousarray(B[r])
    n, d = B.shape
    if name == "Kauri":
        st, vec, rows = model_tree(chk, tree_arrays(est.tree_), B, r)
        Li = np.asarray(est.predict(Br))
        if st != 0 or vec != [int(v) for v in Li] or [lab for _, lab in rows] != [int(v) for v in Li]:
            chk.fail(key + ":model", f"model of Tree.predict on the current tree_: status {st}, labels {vec} vs implementation {Li.tolist()}", replay)
        return
    Pi, Li = np.asarray(est.predict_proba(Br)), np.asarray(est.predict(Br))
    if name == "KernelRIM":
        if not train:
            n = len(np.asarray(est.input_data_))
        if np.asarray(est.input_data_).shape != (n, d) or np.asarray(est.training_kernel_).shape != (n, n) or est.W_.shape != (n, K):
            chk.fail(key + ":stale-attributes", f"after fit on a {B.shape} array: input_data_ {np.asarray(est.input_data_).shape}, "
                     f"training_kernel_ {np.asarray(est.training_kernel_).shape}, W_ {est.W_.shape}", replay, layer="L3")
            return
        kscale = 1.0 + float(np.abs(est.training_kernel_).max()) * (1.0 + float(np.abs(est.W_).max()))
        t = chk.ask(f"c18.krim {d} {n} {K} {enc_mat(est.input_data_)} {enc_mat(est.training_kernel_)} {enc_mat(est.W_)} {enc_vec(np.ravel(est.b_))} "
                    f"{enc_mat(B)} {enc_mat(np.asarray(est._compute_kernel(B)))} {enc_list(r)}")
        if t.int():
            chk.fail(key + ":model-oracle", "the model asked the recorded kernel oracle for a row it never saw", replay)
        Pm, Lm = read_pl(t, len(r), K)
        Pf, Lf = read_pl(t, n, K)
        compare_model(chk, key, Pm, Lm, Pi, Li, replay, scale=kscale)
        mgf = margins(Pf)
        bad = [int(b) for b in np.nonzero(Lf != np.asarray(est.labels_))[0] if mgf[b] > MARGIN] if len(Lf) == len(est.labels_) else [-1]
        if bad:
            chk.fail(key + ":model-fit-labels", f"labels_ differs from the model's fit labels on the current attributes at {bad[:5]}", replay)
        return
    if name == "Douglas":
        cuts = enc_list(est.cut_points_list_, lambda fc: f"{int(fc[0])} {enc_vec(np.sort(np.asarray(fc[1], dtype=float)))}")
        t = chk.ask(f"c18.douglas {est.n_cuts} {hx(est.temperature)} {cuts} {est.leaf_scores_.shape[0]} {K} {enc_mat(est.leaf_scores_)} {enc_mat(B)} {enc_list(r)}")
        Pm, Lm = read_pl(t, len(r), K)
        compare_model(chk, key, Pm, Lm, Pi, Li, replay)
        return
    _, ms = enc_model(name, est)
    t = chk.ask(f"c18.model {ms} {enc_mat(B)} {enc_list(r)} {enc_mat(B if train else B[:0])}")
    Pm, Lm = read_pl(t, len(r), K)
    fl = np.array([t.int() for _ in range(n if train else 0)], dtype=int)
    compare_model(chk, key, Pm, Lm, Pi, Li, replay)
    if not train:
        return
    PB = np.asarray(est.predict_proba(B))
    mg = margins(PB) if PB.shape == (n, K) else np.full(n, np.inf)
    bad = [int(b) for b in np.nonzero(fl != np.asarray(est.labels_))[0] if mg[b] > MARGIN] if len(est.labels_) == n else [-1]
    if bad:
        chk.fail(key + ":model-fit-labels", f"labels_ differs from the model's argmax of infer on the current weights at {bad[:5]}", replay)


def stream_refit(chk, i, rng):
    """fit(A); predict / predict_proba / score; fit(B) on the SAME object (other n, sometimes other d): predictions must be
    those of the last fit alone — labels_, the extracted model on the current attributes, row-wise, and a fresh estimator"""
    name = ALL_INDUCTIVE[i % len(ALL_INDUCTIVE)]
    A, kindA = gen_data(chk, rng, nmax=22)
    same_d = rng.random() < 0.6
    for _ in range(20):
        B, kindB = gen_data(chk, rng, nmax=22)
        if len(B) != len(A) and (B.shape[1] == A.shape[1]) == same_d:
            break
    if same_d and B.shape[1] != A.shape[1]:
        B = impl.blobs(rng, len(B), A.shape[1], k=3)
    if len(B) == len(A):
        B = np.ascontiguousarray(B[:-1]) if len(B) > 3 else np.vstack([B, B[:1] + 0.5])
    if name == "Douglas":
        A, B = np.ascontiguousarray(A[:, :3]), np.ascontiguousarray(B[:, :3])
    glabel, K, factory = refit_factory(name, rng, min(len(A), len(B)), same_d)
    proba = name != "Kauri"
    key = "refit:" + ("linear" if name in LINEAR else "mlp" if name in MLP + SPMLP else name.lower())
    replay = {"estimator": name, "config": glabel, "K": K, "A": list(A.shape), "B": list(B.shape), "dataA": kindA, "dataB": kindB}
    est = factory()
    est.fit(A)
    used = []
    est.predict(A)
    used.append("predict")
    if proba:
        est.predict_proba(A[:max(1, len(A) // 2)])
        used.append("predict_proba")
    try:
        est.score(A)
        used.append("score")
    except Exception as e:  # noqa  (score is not what this property is about)
        chk.dist[f"refit-score-raised:{type(e).__name__}"] += 1
    est.fit(B)
    fresh = factory().fit(B)
    n = len(B)
    # L3: the training predictions of the LAST fit, row-wise behaviour on B, agreement with a fresh object
    if name == "Kauri":
        LB, leaves = check_tree(chk, key + ":B", est.tree_, B, rng, replay, est.predict)
        PB = None
        if LB is None:
            chk.count(None)
            return
    else:
        LB, PB, _ = rowwise_suite(chk, key + ":B", "refit", est, B, rng, replay,
                                  tolscale=1.0 if name != "KernelRIM" else 1.0 + float(np.abs(est.training_kernel_).max()) * (1.0 + float(np.abs(est.W_).max())))
        if LB is None or PB.shape != (n, K):
            if LB is not None:
                chk.fail(key + ":B:shape", f"predict_proba(B) has shape {PB.shape}, expected {(n, K)}", replay, layer="L3")
            chk.count(None)
            return
    train_labels(chk, key, est, B, LB, PB, replay)
    try:
        Lf = np.asarray(fresh.predict(B))
        Pf = np.asarray(fresh.predict_proba(B)) if proba else None
    except Exception as e:  # noqa
        chk.fail(key + ":fresh-raises", f"a fresh estimator fitted on B raised on predict: {type(e).__name__}: {e}", replay, layer="L3")
        chk.count(None)
        return
    if proba:
        dfr = float(np.max(np.abs(Pf - PB))) if Pf.shape == PB.shape else float("inf")
        stat("refit-vs-fresh", dfr)
        if not dfr <= TOL_P:
            chk.fail(key + ":vs-fresh:proba", f"the refitted estimator and a fresh one (same data, same random_state) differ in predict_proba by {dfr:.3e}", replay, layer="L3")
        mg = margins(PB)
        bad = [int(b) for b in np.nonzero(Lf != LB)[0] if mg[b] > MARGIN]
    else:
        bad = [int(b) for b in np.nonzero(Lf != LB)[0]]
    if bad or not np.array_equal(np.asarray(fresh.labels_), np.asarray(est.labels_)) and not proba:
        chk.fail(key + ":vs-fresh:labels", f"the refitted estimator and a fresh one (same data, same random_state) predict differently at rows {bad[:5]}", replay, layer="L3")
    # L2: the extracted model on the attributes the object holds now
    for r in (list(range(n)), rng.integers(0, n, size=int(rng.integers(1, n + 3))).tolist()):
        model_on_current_fit(chk, key, name, est, B, r, K, dict(replay, r=r))
    distinct = len(set(LB.tolist()))
    chk.traces += 1
    chk.dist["refit:" + name] += 1
    chk.dist["refit-same-d" if A.shape[1] == B.shape[1] else "refit-other-d"] += 1
    chk.count(("refit", name, glabel, tuple(A.shape), tuple(B.shape), K, tuple(used)) if distinct >= 2 and "predict" in used else None)
    chk.sample({"stream": "refit", **replay, "used_between_fits": used}, limit=8)


# ---------------------------------------------------------------------------------------------- representations (round-3 lessons)
def obs(msg):
    OBS[msg] = OBS.get(msg, 0) + 1


def snapshot(a):
    if isinstance(a, np.ndarray):
        return (a.dtype.str, a.shape, a.tobytes())
    return copy.deepcopy(a)


def unchanged(a, snap):
    if isinstance(a, np.ndarray):
        return (a.dtype.str, a.shape, a.tobytes()) == snap
    return a == snap


def representations(Q, rng):
    """the same values in other representations (Q: float64 C-contiguous, values exactly representable in float32)"""
    m, d = Q.shape
    big = rng.normal(size=(2 * m, d))
    big[::2] = Q
    wide = rng.normal(size=(m, 2 * d))
    wide[:, ::2] = Q
    ro = Q.copy()
    ro.setflags(write=False)
    out = [("fortran", np.asfortranarray(Q)), ("strided-rows", big[::2]), ("strided-cols", wide[:, ::2]),
           ("negative-strides", np.ascontiguousarray(Q[::-1, ::-1])[::-1, ::-1]), ("read-only", ro),
           ("list", Q.tolist()), ("tuple", tuple(tuple(r) for r in Q.tolist())), ("float32", Q.astype(np.float32))]
    if np.all(Q == np.round(Q)):
        out += [("int64", Q.astype(np.int64)), ("int32", Q.astype(np.int32)), ("int-list", Q.astype(int).tolist())]
        if np.all((Q == 0) | (Q == 1)):
            out.append(("bool", Q.astype(bool)))
    return out


def take(V, r):
    if isinstance(V, np.ndarray):
        return V[r]
    return type(V)(V[k] for k in r)


def compare_to_reference(chk, key, est, V, Lref, Pref, replay, tolscale=1.0, tol=TOL_P, margin=MARGIN):
    """predict / predict_proba of the representation V must be the float64 reference, V itself untouched"""
    snap = snapshot(V)
    try:
        L = np.asarray(est.predict(V))
        P = np.asarray(est.predict_proba(V)) if Pref is not None else None
    except Exception as e:  # noqa
        chk.fail(key + ":raises", f"predict / predict_proba raised {type(e).__name__}: {e} although the float64 C-contiguous reference call succeeds", replay, layer="L3")
        return
    if not unchanged(V, snap):
        chk.fail(key + ":argument-modified", "predict / predict_proba modified the caller's array", replay, layer="L3")
    if L.shape != Lref.shape or (P is not None and P.shape != Pref.shape):
        chk.fail(key + ":shape", f"result shapes {L.shape}/{None if P is None else P.shape} differ from the reference {Lref.shape}", replay, layer="L3")
        return
    bad = np.nonzero(L != Lref)[0]
    if P is not None:
        diff = float(np.max(np.abs(P - Pref))) if P.size else 0.0
        stat("repr" if tol == TOL_P else "repr-float32-queries", diff)
        if not diff <= tol * tolscale:
            chk.fail(key + ":proba", f"predict_proba differs from the float64 reference by {diff:.3e}", replay, layer="L3")
        mg = margins(Pref)
        bad = [b for b in bad if mg[b] > max(margin, 10 * tol * tolscale if tol != TOL_P else 0.0)]
    if len(bad):
        chk.fail(key + ":labels", f"predict differs from the float64 reference at rows {[int(b) for b in bad][:6]}", replay, layer="L3")


def repr_training_data(rng, n, d):
    X = np.clip(np.round(impl.blobs(rng, n, d, k=3) * 8.0) / 8.0, -12.0, 12.0)
    X[int(rng.integers(0, n)), int(rng.integers(0, d))] = -5.5
    return np.ascontiguousarray(X)


REPR_NAMES = ALL_INDUCTIVE + ["Kauri", "Douglas", "Kauri"]


def stream_repr(chk, i, rng):
    name = REPR_NAMES[i % len(REPR_NAMES)]
    n, d = int(rng.integers(8, 20)), int(rng.integers(1, 4))
    X = repr_training_data(rng, n, d)
    if name == "Kauri":
        # every training value (hence every threshold) is an odd multiple of 1/8; half of the time mostly negative
        X = np.ascontiguousarray(np.clip((2.0 * np.round(impl.blobs(rng, n, d, k=3) * 4.0) + 1.0) / 8.0 - float(rng.choice([0.0, 6.0])), -12.875, 12.875))
    glabel, K, factory = refit_factory(name, rng, n, True)
    est = factory().fit(X)
    key = "repr:" + ("linear" if name in LINEAR else "mlp" if name in MLP + SPMLP else name.lower())
    replay = {"estimator": name, "config": glabel, "K": K, "n": n, "d": d}
    proba = name != "Kauri"
    tolscale = 1.0 if name != "KernelRIM" else 1.0 + float(np.abs(est.training_kernel_).max()) * (1.0 + float(np.abs(est.W_).max()))
    m = int(rng.integers(4, 10))
    queries = [("integers", rng.integers(-6, 7, size=(m, d)).astype(float)), ("zero-one", rng.integers(0, 2, size=(m, d)).astype(float)),
               ("eighths", rng.integers(-48, 49, size=(m, d)) / 8.0)]
    if name == "Kauri":      # integer queries on both sides of every (fractional, often negative) threshold: each feature sweeps -13..13
        ths = [(f, t) for f, t in zip(est.tree_.features, est.tree_.thresholds) if f is not None]
        m = 27
        sweep = np.stack([rng.permutation(np.arange(-13, 14)) for _ in range(d)], axis=1).astype(float)
        queries = [("integers", sweep), ("zero-one", rng.integers(0, 2, size=(m, d)).astype(float)), ("eighths", rng.integers(-48, 49, size=(m, d)) / 8.0)]
        frac = sum(1 for _, t in ths if t != np.round(t) and t < 0)
    elif name == "Douglas":
        frac = sum(int(np.sum(np.asarray(c) != np.round(c))) for _, c in est.cut_points_list_)
    else:
        frac = 1
    distinct = set()
    for qtag, Q in queries:
        Q = np.ascontiguousarray(Q)
        Lref = np.asarray(est.predict(Q))
        Pref = np.asarray(est.predict_proba(Q)) if proba else None
        distinct |= set(Lref.tolist())
        for vtag, V in representations(Q, rng):
            rp = dict(replay, query=qtag, representation=vtag, Q=Q.tolist())
            f32 = vtag == "float32" and name != "Kauri"      # one float64-fitted model, float32 queries: float32 resolution; Kauri converts to float64: exact
            tkw = dict(tol=TOL_F32, margin=10 * TOL_F32) if f32 else {}
            compare_to_reference(chk, f"{key}:{vtag}", est, V, Lref, Pref, rp, tolscale, **tkw)
            sels = [("subset", sorted(rng.choice(m, size=int(rng.integers(1, m)), replace=False).tolist())), ("permutation", rng.permutation(m).tolist()),
                    ("single", [int(rng.integers(0, m))]), ("single", [int(rng.integers(0, m))])]
            for stag, r in sels:
                compare_to_reference(chk, f"{key}:{vtag}:{stag}", est, take(V, r), Lref[r], None if Pref is None else Pref[r], dict(rp, selection=stag, r=r), tolscale, **tkw)
            chk.dist["repr-variant:" + vtag] += 1
        model_on_current_fit(chk, key + ":" + qtag, name, est, Q, list(range(m)), K, dict(replay, query=qtag), train=False)
    # fit on another representation of the training values: same labels_, predictions, training array untouched
    reps = representations(X, rng)
    for k in rng.choice(len(reps), size=2, replace=False):
        vtag, V = reps[int(k)]
        rp = dict(replay, fit_representation=vtag)
        snap = snapshot(V)
        try:
            e2 = factory().fit(V)
            L2 = np.asarray(e2.predict(V))
        except Exception as e:  # noqa
            chk.fail(f"{key}:fit:{vtag}:raises", f"fit / predict on the training values as {vtag} raised {type(e).__name__}: {e}", rp, layer="L3")
            continue
        if not unchanged(V, snap):
            chk.fail(f"{key}:fit:{vtag}:argument-modified", "fit / predict modified the caller's training array", rp, layer="L3")
        if vtag == "float32":
            # a model REFITTED on single-precision data is another model (kernels / products in float32, amplified by training):
            # it is not compared with the float64 fit; the property must hold on the float32-fitted model itself
            V32 = np.ascontiguousarray(V)
            f32scale = TOL_F32 / TOL_P * tolscale
            Ls, Ps, _ = rowwise_suite(chk, f"{key}:fit:float32", "repr-fit-float32", e2, V32, rng, rp, proba=proba, tolscale=f32scale, margin=10 * TOL_F32 * tolscale)
            if Ls is not None:
                if Ls.shape != (n,) or (proba and (Ps.shape != (n, K) or not np.isfinite(Ps).all())):
                    chk.fail(f"{key}:fit:float32:shape", "the model fitted on float32 data returns wrongly shaped or non-finite predictions for its training data", rp, layer="L3")
                elif proba:
                    train_labels(chk, f"{key}:fit:float32", e2, V32, Ls, Ps, rp, margin=10 * TOL_F32 * tolscale)
                elif not np.array_equal(Ls, np.asarray(e2.labels_)):
                    chk.fail(f"{key}:fit:float32:train-labels", "Kauri fitted on float32 data: predict(X_train) does not reproduce labels_", rp, layer="L3")
            chk.dist["repr-fit:" + vtag] += 1
            continue
        Pt = np.asarray(est.predict_proba(X)) if proba else None
        mg = margins(Pt) if proba else np.full(n, np.inf)
        for what, a, b in (("labels_ vs reference fit", np.asarray(e2.labels_), np.asarray(est.labels_)), ("predict(X_train) vs labels_", L2, np.asarray(e2.labels_))):
            bad = [int(v) for v in np.nonzero(a != b)[0] if mg[v] > MARGIN] if a.shape == b.shape else [-1]
            if bad:
                chk.fail(f"{key}:fit:{vtag}:labels", f"fitted on the training values as {vtag}: {what} differ at rows {bad[:6]}", rp, layer="L3")
        if proba:
            P2 = np.asarray(e2.predict_proba(V))
            if P2.shape != Pt.shape or np.max(np.abs(P2 - Pt)) > 1e-9:
                chk.fail(f"{key}:fit:{vtag}:proba", "fitted on another representation of the same training values: predict_proba differs from the reference fit", rp, layer="L3")
        chk.dist["repr-fit:" + vtag] += 1
    chk.traces += 1
    chk.dist["repr:" + name] += 1
    chk.count(("repr", name, glabel, n, d, K, frac) if frac >= 1 and len(distinct) >= 2 else None)


# ---------------------------------------------------------------------------------------------- degenerate sizes / boundary values
DEGENERATE = ["K=1", "K=n", "d=1", "n=1", "batch=n", "batch>n", "huge-query", "tiny-query", "cuts-on-data"]


def stream_degenerate(chk, i, rng):
    name = ALL_INDUCTIVE[i % len(ALL_INDUCTIVE)]
    case = DEGENERATE[(i // len(ALL_INDUCTIVE) * 4 + i) % len(DEGENERATE)]
    n, d = int(rng.integers(6, 16)), int(rng.integers(1, 4))
    K, bs = int(rng.integers(2, 4)), None
    if case == "K=1":
        K = 1
    elif case == "K=n":
        n = int(rng.integers(2, 5))
        K = n
    elif case == "d=1":
        d = 1
    elif case == "n=1":
        n, K = 1, 1
    elif case == "batch=n":
        bs = n
    elif case == "batch>n":
        bs = n + int(rng.integers(1, 5))
    X = np.ascontiguousarray(impl.blobs(rng, n, d, k=max(K, 2)))
    kw = dict(n_clusters=K, max_clusters=K, max_iter=2, batch_size=bs, learning_rate=0.05, n_hidden_dim=int(rng.integers(1, 5)),
              random_state=int(rng.integers(0, 10 ** 6)))
    glabel = ""
    if name in impl.GENERIC_GEMINI:
        gs = impl.all_geminis()
        glabel, fac = gs[int(rng.integers(0, len(gs)))]
        kw["gemini"] = fac()
    if name == "Kauri" and case == "cuts-on-data":
        kw.update(max_depth=1, max_leaves=2)
    replay = {"estimator": name, "case": case, "gemini": glabel, "n": n, "d": d, "K": K, "batch_size": bs}
    est = impl.make(name, **kw)
    try:
        est.fit(X)
    except Exception as e:  # noqa  (whether fit succeeds here is not this property; reported, not failed)
        obs(f"{name}.fit raised {type(e).__name__} in the degenerate configuration '{case}' (gemini {glabel or 'default'}): {str(e)[:90]}")
        chk.dist["degenerate-fit-raised"] += 1
        chk.count(None)
        return
    key = "degenerate:" + case
    Xn = fresh_array(rng, X)
    if case == "tiny-query":
        pool = np.array([5e-324, -5e-324, -0.0, 0.0, 1e-300, -1e-300, 2.2250738585072014e-308, np.nextafter(0.3, 1), 0.3])
        Xn = np.ascontiguousarray(rng.choice(pool, size=Xn.shape))
    if name == "Kauri":
        Lt, _ = check_tree(chk, key + ":train", est.tree_, X, rng, replay, est.predict)
        if Lt is not None:
            if not np.array_equal(Lt, np.asarray(est.labels_)):
                chk.fail(key + ":train-labels", "Kauri.predict(X_train) does not reproduce labels_", replay, layer="L3")
            partition_consistency(chk, key, est, X, replay)
        if case == "huge-query":
            Xn[int(rng.integers(0, len(Xn)))] = rng.choice([1e300, -1e300, 1.7e308], size=d)
        check_tree(chk, key + ":fresh", est.tree_, Xn, rng, dict(replay, array="fresh"), est.predict)
        chk.dist["degenerate:" + case] += 1
        chk.count(("degenerate", name, case, n, d, K))
        return
    if name == "Douglas" and case == "cuts-on-data":
        # cut points sitting exactly on the feature minimum / maximum / on two adjacent doubles of the data
        newcuts = []
        for f, c in est.cut_points_list_:
            col = X[:, f]
            cand = [col.min(), col.max(), float(np.nextafter(col.max(), np.inf)), float(np.median(col))]
            newcuts.append((f, np.array([cand[int(rng.integers(0, len(cand)))] for _ in range(len(c))])))
        est.cut_points_list_ = newcuts
    tolscale = 1.0 if name != "KernelRIM" else 1.0 + float(np.abs(est.training_kernel_).max()) * (1.0 + float(np.abs(est.W_).max()))
    Lt, Pt, _ = rowwise_suite(chk, key + ":train", "degenerate", est, X, rng, dict(replay, array="train"), tolscale=tolscale)
    if Pt is not None and Pt.shape == (n, K):
        if not (name == "Douglas" and case == "cuts-on-data"):
            train_labels(chk, key, est, X, Lt, Pt, replay)
            model_on_current_fit(chk, key, name, est, X, list(range(n)), K, replay)
        else:
            model_on_current_fit(chk, key, name, est, X, list(range(n)), K, replay, train=False)
    if case == "huge-query":
        # a row that overflows must not change any other row, and gives the same (possibly nan) result alone
        j = int(rng.integers(0, len(Xn)))
        Xh = Xn.copy()
        Xh[j] = rng.choice([1e300, -1e300, 1e200], size=d)
        try:
            Pn, Ph, Pj = np.asarray(est.predict_proba(Xn)), np.asarray(est.predict_proba(Xh)), np.asarray(est.predict_proba(Xh[j:j + 1]))
            Lh, Lj = np.asarray(est.predict(Xh)), np.asarray(est.predict(Xh[j:j + 1]))
            keep = [k for k in range(len(Xn)) if k != j]
            if not np.all(np.abs(Ph[keep] - Pn[keep]) <= TOL_P * tolscale):
                chk.fail(key + ":other-rows", "a query row of magnitude 1e300 changed the probabilities of OTHER rows of the array", dict(replay, row=j, Xh=Xh.tolist()), layer="L3")
            fin = np.isfinite(Ph[j]).all() and np.isfinite(Pj[0]).all()
            if not (np.array_equal(Ph[j], Pj[0], equal_nan=True) or (fin and np.max(np.abs(Ph[j] - Pj[0])) <= TOL_P * tolscale)):
                chk.fail(key + ":own-row", "a query row of magnitude 1e300 gets different probabilities alone and inside the array", dict(replay, row=j, Xh=Xh.tolist()), layer="L3")
            if fin and margins(Ph[j:j + 1])[0] > MARGIN and Lh[j] != Lj[0]:
                chk.fail(key + ":own-label", "a query row of magnitude 1e300 gets different labels alone and inside the array", dict(replay, row=j), layer="L3")
            if not np.isfinite(Ph[j]).all():
                obs(f"predict_proba returns non-finite probabilities for a finite query row of magnitude 1e300 ({'KernelRIM' if name == 'KernelRIM' else 'Douglas' if name == 'Douglas' else 'gradient models'}); the other rows are unaffected")
        except Exception as e:  # noqa
            chk.fail(key + ":raises", f"predict_proba on a finite array containing a 1e300 row raised {type(e).__name__}: {e}", replay, layer="L3")
    else:
        Ln, Pn, _ = rowwise_suite(chk, key + ":fresh", "degenerate", est, Xn, rng, dict(replay, array="fresh"), tolscale=tolscale)
        if Pn is not None and Pn.shape == (len(Xn), K) and np.isfinite(Pn).all():
            model_on_current_fit(chk, key + ":fresh", name, est, Xn, list(range(len(Xn))), K, dict(replay, array="fresh"), train=False)
    chk.traces += 1
    chk.dist["degenerate:" + case] += 1
    chk.count(("degenerate", name, case, glabel, n, d, K))


# ---------------------------------------------------------------------------------------------- other public routes to the predictions
def stream_routes(chk, i, rng):
    """fit_predict vs fit / predict, score vs predict_proba, precomputed affinities, sparse path() then predict;
    every argument array is compared with a copy taken before the calls (also passed read-only)"""
    name = ALL_INDUCTIVE[i % len(ALL_INDUCTIVE)]
    n, d = int(rng.integers(8, 18)), int(rng.integers(2, 5))
    if name == "Douglas":
        d = min(d, 3)
    X = np.ascontiguousarray(impl.blobs(rng, n, d, k=3))
    K = int(rng.integers(2, 4))
    bs = [None, n, n + 2, max(1, n // 3)][int(rng.integers(0, 4))]
    seed = int(rng.integers(0, 10 ** 6))
    y = None
    kw = dict(n_clusters=K, max_clusters=K, max_iter=2, batch_size=bs, learning_rate=0.05, n_hidden_dim=3, random_state=seed, alpha=0.3)
    pre = rng.random() < 0.5 and (name in impl.GENERIC_GEMINI or name == "Kauri")
    if pre:
        y = X @ X.T - 0.3                                   # a precomputed affinity with negative entries
        if name == "Kauri":
            kw["kernel"] = "precomputed"

    def factory():
        k2 = dict(kw)
        if pre and name != "Kauri":
            k2["gemini"] = impl.G.MMDGEMINI(kernel="precomputed", ovo=bool(seed % 2))
        return impl.make(name, **k2)
    replay = {"estimator": name, "n": n, "d": d, "K": K, "batch_size": bs, "precomputed": bool(pre)}
    key = "routes:" + ("linear" if name in LINEAR else "mlp" if name in MLP + SPMLP else name.lower())
    Xro = X.copy()
    Xro.setflags(write=False)
    yro = None if y is None else y.copy()
    if yro is not None:
        yro.setflags(write=False)
    sx, sy = snapshot(X), snapshot(y)
    try:
        e1 = factory().fit(X, y)
        e2 = factory()
        lp = np.asarray(e2.fit_predict(X, y))
        e3 = factory().fit(Xro, yro)
        L1 = np.asarray(e1.predict(X))
        L3 = np.asarray(e3.predict(Xro))
        P1 = np.asarray(e1.predict_proba(X)) if name != "Kauri" else None
        sc = e1.score(X, y)
    except Exception as e:  # noqa
        chk.fail(key + ":raises", f"fit / fit_predict / predict / score on valid (read-only) arguments raised {type(e).__name__}: {e}", replay, layer="L3")
        chk.count(None)
        return
    if not (unchanged(X, sx) and unchanged(y, sy)):
        chk.fail(key + ":argument-modified", "fit / fit_predict / predict / predict_proba / score modified X or the precomputed affinity", replay, layer="L3")
    mg = margins(P1) if P1 is not None else np.full(n, np.inf)
    for what, a, b in (("fit_predict(X) vs its labels_", lp, np.asarray(e2.labels_)), ("fit_predict(X) vs fit(X).labels_ (same random_state)", lp, np.asarray(e1.labels_)),
                       ("predict(X) vs labels_", L1, np.asarray(e1.labels_)), ("read-only fit: predict(X) vs labels_ of the writable fit", L3, np.asarray(e1.labels_))):
        bad = [int(v) for v in np.nonzero(a != b)[0] if mg[v] > MARGIN] if a.shape == b.shape else [-1]
        if bad:
            chk.fail(key + ":fit-predict", f"{what}: differ at rows {bad[:6]}", replay, layer="L3")
    # score is the objective of predict_proba(X) / predict(X) on the affinity of X
    try:
        if name == "Kauri":
            from gemclus.tree._utils import gemini_objective
            expect = float(gemini_objective(L1, np.ascontiguousarray(e1._compute_kernel(X, y), dtype=float)))
        else:
            g = e1.get_gemini()
            expect = float(np.asarray(g(P1, g.compute_affinity(X, y))).item())
        if not abs(float(sc) - expect) <= 1e-9 * (1 + abs(expect)):
            chk.fail(key + ":score", f"score(X) = {sc!r} is not the objective of the predictions of X ({expect!r})", replay, layer="L3")
    except Exception as e:  # noqa
        raise HarnessError(f"reference score computation failed: {type(e).__name__}: {e}")
    model_on_current_fit(chk, key, name, e1, X, list(range(n)), K, replay)
    stale = None
    if name in impl.SPARSE:
        e4 = factory()
        try:
            e4.path(X, y, alpha_multiplier=2.0, min_features=max(1, d - 1), max_patience=2)
        except Exception as e:  # noqa
            chk.fail(key + ":path-raises", f"path() raised {type(e).__name__}: {e}", replay, layer="L3")
            e4 = None
        if e4 is not None:
            if not (unchanged(X, sx) and unchanged(y, sy)):
                chk.fail(key + ":argument-modified", "path() modified X or the precomputed affinity", replay, layer="L3")
            L4, P4, _ = rowwise_suite(chk, key + ":after-path", "routes", e4, X, rng, dict(replay, after="path"))
            if P4 is not None and P4.shape == (n, K):
                model_on_current_fit(chk, key + ":after-path", name, e4, X, list(range(n)), K, dict(replay, after="path"), train=False)
                if hasattr(e4, "labels_"):
                    m4 = margins(P4)
                    stale = any(m4[v] > MARGIN for v in np.nonzero(np.asarray(e4.labels_) != L4)[0])
                    if stale:
                        obs("after path() the sparse estimators keep the labels_ of the initial fit: predict(X_train) differs from labels_ "
                            "(the weights moved along the path; labels_ is not refreshed)")
    chk.traces += 1
    chk.dist["routes:" + name] += 1
    chk.dist["routes:precomputed" if pre else "routes:named-affinity"] += 1
    chk.count(("routes", name, n, d, K, bs, bool(pre), stale))


def stream_malformed(chk, i, rng):
    """start nodes outside the tree, truncated arrays, too little fuel; unfitted / wrongly shaped predict input"""
    d = 2
    tr = random_tree(rng, d, int(rng.integers(0, 5)))
    ta = tree_arrays(tr)
    A = rng.integers(-3, 4, size=(int(rng.integers(0, 5)), d)).astype(float)
    which = i % 4
    replay = {"tree": ta, "A": A.tolist(), "which": which}
    if which == 0:
        node = int(rng.choice([-1, -2, tr.n_nodes, tr.n_nodes + 1, tr.n_nodes + 5]))
        try:
            tr.predict(A, node)
            raised = None
        except (ValueError, IndexError) as e:
            raised = type(e).__name__
        st, _, _ = model_tree(chk, ta, A, list(range(len(A))), node=node)
        if (raised is None) != (st == 0) or st == 2:
            chk.fail("malformed:node", f"start node {node}: implementation raised {raised}, model status {st}", dict(replay, node=node))
        chk.dist[f"malformed-node:{raised}"] += 1
    elif which == 1:
        if tr.n_nodes >= 3:
            fuel = int(rng.integers(0, 2))
            st, _, _ = model_tree(chk, ta, A, list(range(len(A))), fuel=fuel)
            if st != 2:
                chk.fail("malformed:fuel", f"model with fuel {fuel} on a {tr.n_nodes}-node tree returned status {st}, expected out-of-fuel", replay)
        chk.dist["malformed-fuel"] += 1
    elif which == 2:
        name = (GRADIENT + ["KernelRIM", "Douglas", "Kauri"])[int(rng.integers(0, len(GRADIENT) + 3))]
        est = impl.make(name, n_clusters=2, max_clusters=2, max_iter=2, random_state=0)
        try:
            est.predict(np.zeros((3, 2)))
            chk.fail("malformed:unfitted", f"{name}.predict on an unfitted estimator did not raise", {"estimator": name}, layer="L3")
        except Exception as e:
            chk.dist[f"unfitted:{type(e).__name__}"] += 1
    else:
        name = (GRADIENT + ["KernelRIM", "Douglas", "Kauri"])[int(rng.integers(0, len(GRADIENT) + 3))]
        est = impl.make(name, n_clusters=2, max_clusters=2, max_iter=2, random_state=0)
        X = rng.normal(size=(8, 3))
        est.fit(X)
        for bad in (np.zeros(3), np.zeros((0, 3))):
            try:
                est.predict(bad)
                chk.fail("malformed:shape", f"{name}.predict accepted an array of shape {bad.shape}", {"estimator": name}, layer="L3")
            except ValueError:
                chk.dist["bad-shape:ValueError"] += 1
    chk.count(None)


STREAMS = {"gradient": (stream_gradient, 390, 3900), "krim": (stream_krim, 84, 840), "douglas": (stream_douglas, 60, 600),
           "kauri": (stream_kauri, 120, 1800), "tree": (stream_tree, 300, 4500), "kauri_adv": (stream_kauri_adv, 120, 2000), "refit": (stream_refit, 150, 1800), "repr": (stream_repr, 54, 720), "degenerate": (stream_degenerate, 54, 720), "routes": (stream_routes, 30, 450),
           "malformed": (stream_malformed, 24, 240)}


def main():
    chk = Check("C18", props_files=["Props/C18.v", "Props/C18gen.v"])
    chk.build()
    chk.proofs()
    if chk.replay_path:
        rp = json.load(open(chk.replay_path))
        st, case = rp["input"].get("stream"), rp["input"].get("case")
        chk.seed = rp.get("seed", chk.seed)
        if st in STREAMS:
            chk.run_stream(st, guarded(st, STREAMS[st][0]), 0, only=case)
    else:
        for name, (fn, q, th) in STREAMS.items():
            cnt = q if chk.tier == "quick" else th
            if chk.l1_broken:
                cnt *= 3
            chk.run_stream(name, guarded(name, fn), cnt)
    for k, v in sorted(OBS.items()):
        chk.notes.append(f"observation on the examined tree (not a failure of this check): {k} [{v} case(s)]")
    fams = {f: {"selections": s[0], "bitwise_equal": s[1], "within_1e-12": s[2], "max_abs_diff": s[3]} for f, s in STATS.items()}
    chk.notes.append("row-wise probabilities, measured: " + "; ".join(
        f"{f}: {s[1]}/{s[0]} selections bit-identical, {s[2]} within 1e-12, max |diff| {s[3]:.2e}" for f, s in STATS.items()))
    chk.finish(rule="streams: real fits (2-3 epochs, every GEMINI on the generic estimators, all 12 gradient estimators, KernelRIM with 6 named kernels and a callable, "
                    "Douglas, Kauri) then predict / predict_proba on the training array and on a fresh array (fresh rows, copies of training rows, duplicated rows) "
                    "as a whole vs a random subset, a permutation, the reversed array, a selection with repetitions and every single row; extracted forward pass / "
                    "Tree.predict model on the recorded parameters vs the implementation on X[r]; refit stream: every inductive estimator fitted on A, used (predict / predict_proba / score), fitted again on B (other n, sometimes other d) on the same object, then the same checks on B plus agreement with a fresh estimator; kauri_adv stream: Kauri (precomputed block kernels and named kernels) on training sets whose groups are separated by adjacent doubles (0.3 | 0.1+0.2, x | nextafter x), with ties, duplicates, negative zero, denormal and huge magnitudes: predict(X_train) = labels_, every stored threshold reproduces the partition made by fit (from leaves_), routing model on the stored tree = labels_, fresh points on / next to every threshold (non-trivial = at least one split between adjacent doubles); repr stream: queries (integer-valued, 0/1-valued, multiples of 1/8) against models with fractional parameters presented as int64/int32/bool/float32/Fortran/strided views/read-only/list/tuple, whole, in subsets, permuted and row by row = the float64 C-contiguous reference, caller arrays unchanged; fit on the same representations; degenerate stream: K=1, K=n, d=1, n=1, batch_size=n and >n, 1e300 / denormal / -0.0 / adjacent-double query rows (a row that overflows must not change other rows), Douglas cut points on the feature min/max; routes stream: fit_predict vs fit, score vs predict_proba, precomputed affinities, sparse path() then predict, arguments compared with copies; hand-grown trees through Tree._add_child with any start node, "
                    "empty arrays, NaN/inf entries, values on thresholds. non-trivial = at least two distinct labels (gradient models) / two distinct leaves reached "
                    "(trees) so that a constant predictor would not pass; distinct = distinct (estimator, objective, n, d, K, m, ...) signature",
               extra={"rowwise_probability_differences": fams})


if __name__ == "__main__":
    main()
