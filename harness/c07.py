"""C07 — the regularisation path honours its stopping, history and best-weights contract.

L1  Props/C07.v (state machine of _path/_run_path over an abstract training oracle, rules regenerated
    from the source by translator/tr_pathrules.py).
L2  real path() runs are traced (every compute_val_score call: score, weighted and unweighted penalty,
    selected-feature count, clf.alpha, a copy of the weights; warnings) and the trace is replayed as
    the oracle through the extracted model: histories, per-step epoch counts, index of the returned
    weights, restored state, final clf.alpha, warning flags and the kind of outcome must coincide.
L3  the contract itself, checked directly on the returned tuple / the estimator with plain Python.
Runs are wall-clock bounded (signal timer): non-termination is detected, not suffered.
"""
import json
import math
import signal
import time
import warnings
import numpy as np
from core import Check, hx
import impl
import gemclus.sparse._base_sparse as B

G = impl.G
WALL_NORMAL = 20.0      # a legitimate small run takes well under a second
WALL_DIVERGE = 0.5      # budget given to runs that the model predicts to diverge (alpha = 0)


class PathTimeout(BaseException):       # not an Exception: library code must not swallow it
    pass


class _Timer:
    armed = False
    fired = False


def _alarm(signum, frame):
    # repeating timer: keeps interrupting until the run unwinds (an interrupt raised inside C code that
    # calls back into Python can be replaced by another exception or dropped)
    if _Timer.armed:
        _Timer.fired = True
        raise PathTimeout()


WARN_KINDS = [("alpha multiplier is lower", "mult"), ("threshold to keep the best", "keep"),
              ("min_features to stop the path", "minf"), ("min_features param is greater", "minf_ge_d"),
              ("converged to nan", "nan"), ("Dynamic mode is incompatible with a precomputed", "dyn_pre"),
              ("restore_best_weights is incompatible", "restore_dyn")]


def classify_warnings(ws):
    out = {k: 0 for _, k in WARN_KINDS}
    other = 0
    for w in ws:
        msg = str(w.message)
        for frag, k in WARN_KINDS:
            if frag in msg:
                out[k] += 1
                break
        else:
            other += 1
    return out, other


def snap(est):
    return [np.array(w, copy=True) for w in est._get_weights()]


def same_weights(a, b):
    return len(a) == len(b) and all(x.shape == y.shape and np.array_equal(x, y, equal_nan=True) for x, y in zip(a, b))


def documented_score(est, X, y, batch_size=None):
    """The validation score of the current weights as the documented procedure defines it: GEMINI of the predictions on
    sequential blocks of the estimator's batch_size (whole data when None), averaged with the block sizes; the affinity
    is the block of the precomputed matrix, or computed on the block (selected features only in dynamic mode).
    Independent of compute_val_score."""
    gem = est.get_gemini()
    saved = getattr(gem, "calls", None)
    bs = batch_size if batch_size is not None else (est.batch_size if est.batch_size is not None else len(X))
    sel = np.arange(X.shape[1])
    if est.dynamic and y is None:
        cur = est.get_selection()
        if len(cur):
            sel = cur
    tot, j = 0.0, 0
    while j < len(X):
        Xb = X[j:j + bs]
        aff = y[j:j + bs][:, j:j + bs] if y is not None else gem.compute_affinity(Xb[:, sel])
        tot += gem(est.predict_proba(Xb), aff) * len(Xb)
        j += bs
    if saved is not None:
        gem.calls = saved           # stateful test GEMINI (NanAfter): the extra evaluations must not count
    return float(tot / len(X))


def find_function(name):
    """The function object bound to `name` in the loaded gemclus modules (wherever it is defined now)."""
    import sys
    f = getattr(B, name, None)
    if callable(f):
        return f
    for mn, mod in list(sys.modules.items()):
        if mod is not None and (mn == "gemclus" or mn.startswith("gemclus.")) and callable(getattr(mod, name, None)):
            return getattr(mod, name)
    return None


def patch_everywhere(func, wrapper):
    """Rebind every name of every loaded gemclus.* module that refers to the function object `func` (its defining
    module, modules that imported it, aliases) -- callers resolve the name in their own module globals, so where the
    function lives does not matter.  Returns the list to hand to unpatch()."""
    import sys
    done = []
    for mn, mod in list(sys.modules.items()):
        if mod is None or not (mn == "gemclus" or mn.startswith("gemclus.")):
            continue
        d = getattr(mod, "__dict__", None)
        if not isinstance(d, dict):
            continue
        for nm, val in list(d.items()):
            if val is func:
                d[nm] = wrapper
                done.append((d, nm))
    return done


def unpatch(done, func):
    for d, nm in done:
        d[nm] = func


def run_traced(est, X, y, kwargs, wall):
    """Run est.path(X, y, **kwargs) with compute_val_score and est._batchify wrapped.  Returns a dict with the
    events, the outcome ('returned' / 'timeout' / exception class name), the result tuple, the warnings.
    The wrappers are signature-agnostic: they forward whatever they receive and read the state from the estimator,
    so keyword calls or new defaulted parameters of the wrapped functions are harmless."""
    events = []
    trained = [False]
    orig_cvs = find_function("compute_val_score")
    orig_batchify = est._batchify
    out = {"events": events, "outcome": None, "result": None, "error": None, "doc_init": None, "doc_init_full": None, "foreign_calls": 0}

    class _BatchifyProxy:
        """Transparent callable: forwards the call and every attribute access (decorations such as the mlcl one keep
        state on the wrapped function, e.g. `_batchify.indices`)."""

        def __call__(self, *a, **k):
            trained[0] = True
            return orig_batchify(*a, **k)

        def __getattr__(self, name):
            return getattr(orig_batchify, name)

        def __setattr__(self, name, value):
            setattr(orig_batchify, name, value)

    rec_batchify = _BatchifyProxy()
    had_inst = "_batchify" in est.__dict__

    def rec_cvs(*args, **kwargs):
        ret = orig_cvs(*args, **kwargs)
        if not any(v is est for v in list(args) + list(kwargs.values())):
            out["foreign_calls"] += 1       # not a call about the traced estimator
            return ret
        try:
            score, l1 = float(ret[0]), float(ret[1])
        except Exception:  # noqa
            score, l1 = float("nan"), float("nan")
            out["bad_return"] = True
        kind = "init" if not events else ("epoch" if trained[0] else "val")
        trained[0] = False
        if kind == "init" and not isinstance(getattr(est, "gemini", None), NanAfter):   # stateful test GEMINI: not recomputable
            try:
                out["doc_init"] = documented_score(est, X, y)
                out["doc_init_full"] = documented_score(est, X, y, batch_size=len(X))
            except Exception as e:  # noqa
                out["doc_init_error"] = f"{type(e).__name__}: {e}"[:200]
        events.append({"kind": kind, "score": score, "l1": l1, "pen": float(est._group_lasso_penalty()),
                       "nsel": int(est._n_selected_features()), "alpha": float(est.alpha), "w": snap(est)})
        return ret

    est._batchify = rec_batchify
    patched = patch_everywhere(orig_cvs, rec_cvs) if orig_cvs is not None else []
    out["recorder_sites"] = len(patched)
    t0 = time.time()
    old = signal.signal(signal.SIGALRM, _alarm)
    _Timer.fired = False
    _Timer.armed = True
    signal.setitimer(signal.ITIMER_REAL, wall, 0.05)
    try:
        with warnings.catch_warnings(record=True) as ws:
            warnings.simplefilter("always")
            try:
                out["result"] = est.path(X, y, **kwargs)
                _Timer.armed = False
                out["outcome"] = "returned"
            except BaseException as e:  # noqa
                _Timer.armed = False
                if _Timer.fired:
                    out["outcome"] = "timeout"      # whatever the interrupt was turned into on its way up
                elif isinstance(e, Exception):
                    out["outcome"] = type(e).__name__
                    out["error"] = str(e)[:200]
                else:
                    raise
            finally:
                _Timer.armed = False
                signal.setitimer(signal.ITIMER_REAL, 0)
        out["warn"], out["other_warnings"] = classify_warnings(ws)
    finally:
        _Timer.armed = False
        signal.setitimer(signal.ITIMER_REAL, 0)
        signal.signal(signal.SIGALRM, old)
        unpatch(patched, orig_cvs)
        if had_inst:
            est.__dict__["_batchify"] = orig_batchify       # keep the caller's decoration
        else:
            est.__dict__.pop("_batchify", None)
    out["wall"] = time.time() - t0
    out["final_w"] = snap(est) if hasattr(est, "n_features_in_") else None
    return out


def _freeze(v):
    import copy
    if isinstance(v, np.ndarray):
        return ("nd", v.dtype.str, v.shape, v.tobytes(), v.flags.writeable)
    return ("py", copy.deepcopy(v))


def _same(fz, v):
    if fz[0] == "nd":
        return isinstance(v, np.ndarray) and v.dtype.str == fz[1] and v.shape == fz[2] and v.tobytes() == fz[3] and v.flags.writeable == fz[4]
    return fz[1] == v


def freeze_args(X, y, groups, pk):
    return {"X": _freeze(X), "y": _freeze(y), "groups": _freeze(groups), "kwargs": _freeze(dict(pk))}


def args_changed(fz, X, y, groups, pk):
    for name, v in (("X", X), ("y", y), ("groups", groups), ("kwargs", dict(pk))):
        if not _same(fz[name], v):
            return name
    return None


def steps_of(events):
    """[(val event, [epoch events])] and the init event."""
    init = events[0] if events else None
    steps = []
    for e in events[1:]:
        if e["kind"] == "val":
            steps.append((e, []))
        elif e["kind"] == "epoch" and steps:
            steps[-1][1].append(e)
        else:
            return init, None       # an epoch before any validation call: the skeleton changed
    return init, steps


def enc_score(x):
    return "nan" if x != x else hx(x)


def model_replay(chk, a, init, steps, fuel):
    toks = ["c07.path", hx(a["alpha"]), hx(a["mult"]), str(a["minf"]), hx(a["keep"]), hx(a["esf"]), str(a["patience"]),
            str(a["max_iter"]), str(a["d"]), str(fuel), enc_score(init["score"]), hx(init["pen"]), str(init["nsel"]), str(len(steps))]
    for v, eps in steps:
        toks += [enc_score(v["score"]), hx(v["pen"]), str(len(eps))]
        for e in eps:
            toks += [enc_score(e["score"]), hx(e["pen"]), str(e["nsel"])]
    t = chk.ask(" ".join(toks))
    m = {"tag": t.next(), "nan": t.bool(), "t": t.int(), "alpha_after": t.float(), "s_alpha": t.float(),
         "bidx": t.opt(t.int), "alphas": t.list(t.float), "nfeat": t.list(t.int), "gem": t.list(t.float),
         "pens": t.list(t.float), "epochs": t.list(t.int), "exhausted": t.bool(),
         "w_mult": t.bool(), "w_keep": t.bool(), "w_minf": t.bool(), "w_minf_ge_d": t.bool(),
         "eff_mult": t.float(), "eff_keep": t.float(), "eff_minf": t.int()}
    return m


def close(a, b):
    a, b = float(a), float(b)
    if a != a or b != b:
        return a != a and b != b
    if math.isinf(a) or math.isinf(b):
        return a == b
    return abs(a - b) <= 1e-9 * (1 + max(abs(a), abs(b)))


def close_list(xs, ys):
    return len(xs) == len(ys) and all(close(x, y) for x, y in zip(xs, ys))


# ------------------------------------------------------------------ case construction
def gemini_choices(rng, precomputed):
    """(label, gemini argument for the generic sparse models)"""
    if precomputed:
        return [("MMD-ova-precomputed", G.MMDGEMINI(kernel="precomputed")), ("MMD-ovo-precomputed", G.MMDGEMINI(ovo=True, kernel="precomputed")),
                ("Wasserstein-ova-precomputed", G.WassersteinGEMINI(metric="precomputed"))]
    out = [(n, n) for n in impl.GEMINI_NAMES]
    out += [(lbl, f()) for lbl, f in impl.all_geminis()]
    return out


def make_case(rng, i, tier, force=None):
    """A random but structured path() case.  force: dict overriding fields."""
    force = force or {}
    name = force.get("estimator", impl.SPARSE[i % len(impl.SPARSE)])
    n = int(rng.integers(8, 26))
    d = int(rng.integers(3, 7))
    k = int(rng.integers(2, 4))
    precomputed = force.get("precomputed", bool(rng.random() < 0.2)) and name != "SparseLinearMI"
    dynamic = force.get("dynamic", bool(rng.random() < 0.15)) and name != "SparseLinearMI"
    case = {
        "estimator": name, "n": n, "d": d, "k": k, "data_seed": int(rng.integers(0, 2 ** 31 - 1)),
        "scale": float(rng.choice([0.5, 1.0, 3.0])), "precomputed": precomputed, "dynamic": dynamic,
        "max_iter": int(rng.integers(1, 7)), "learning_rate": float(rng.choice([0.01, 0.05, 0.2])),
        "batch_size": None if rng.random() < 0.4 else int(rng.choice([max(2, n // 2), 7, n, n + 3, 3])),
        "solver": str(rng.choice(["adam", "sgd"])), "random_state": int(rng.integers(0, 1000)),
        "alpha": float(rng.choice([0.05, 0.2, 0.5, 1.0, 2.0])),
        "alpha_multiplier": float(rng.choice([1.05, 1.3, 1.5, 2.0, 3.0])),
        "min_features": int(rng.choice([1, 2, 2, max(1, d - 1), max(1, d - 2)])),
        "keep_threshold": float(rng.choice([0.9, 0.9, 0.5, 0.0, 1.0, 0.99])),
        "early_stopping_factor": float(rng.choice([0.99, 0.99, 0.9, 0.5, 1.0, 1.2])),
        "max_patience": int(rng.choice([1, 2, 3, 10])),
        "restore_best_weights": bool(rng.random() < 0.7),
        "groups": bool(rng.random() < 0.15) and name != "SparseLinearMI" and d >= 4,
        "nan_after": None,
    }
    if name in ("SparseLinearModel", "SparseMLPModel"):
        ch = gemini_choices(rng, precomputed)
        case["gemini"] = ch[int(rng.integers(0, len(ch)))][0]
    elif name in ("SparseLinearMMD", "SparseMLPMMD"):
        case["gemini"] = ("precomputed" if precomputed else str(rng.choice(["linear", "rbf"]))) + ("-ovo" if rng.random() < 0.5 else "-ova")
    else:
        case["gemini"] = "mi"
    case.update({k2: v for k2, v in force.items() if k2 not in ("estimator", "precomputed", "dynamic")})
    return case


class NanAfter(G.MMDGEMINI):
    """MMD GEMINI whose score becomes NaN after a number of score-only evaluations (public extension point: a
    GEMINI instance passed to the constructor)."""

    def __init__(self, after, ovo=False):
        super().__init__(ovo=ovo)
        self.after = after
        self.calls = 0

    def evaluate(self, y_pred, affinity, return_grad=False):
        r = super().evaluate(y_pred, affinity, return_grad)
        if not return_grad:
            self.calls += 1
            if self.calls > self.after:
                return float("nan")
        return r


def build(case):
    rng = np.random.default_rng(case["data_seed"])
    X = impl.blobs(rng, case["n"], case["d"], case["k"], case["scale"])
    q = case.get("quant")
    if q == "eighth":
        X = np.round(X * 8) / 8          # exactly representable in float32
    elif q == "int":
        X = np.round(X)
    elif q == "bool":
        X = (X > np.median(X, axis=0)).astype(float)
    tw = case.get("twist")
    if tw == "const-col":
        X[:, -1] = 1.5
    elif tw == "dup-rows":
        X[1::2] = X[::2][:len(X[1::2])]
    elif tw == "negzero-col":
        X[:, 0] = -0.0
    elif tw == "denormal-col":
        X[:, 0] = 5e-324 * np.arange(len(X))
    elif tw == "huge":
        X = X * 1e150                    # X @ X.T overflows
    elif tw == "ties":
        X = np.round(X)                  # many exactly equal rows / distances
    name = case["estimator"]
    kw = dict(n_clusters=case["k"], max_iter=case["max_iter"], learning_rate=case["learning_rate"], alpha=case["alpha"],
              batch_size=case["batch_size"], dynamic=case["dynamic"], solver=case["solver"], random_state=case["random_state"])
    if case.get("groups") == "one":
        kw["groups"] = [list(range(case["d"]))]
    elif case.get("groups") == "singletons":
        kw["groups"] = [[j] for j in range(case["d"])]
    elif case.get("groups"):
        kw["groups"] = [[0, 1], [2]]
    y = None
    g = case["gemini"]
    if name in ("SparseLinearModel", "SparseMLPModel"):
        if case.get("nan_after") is not None:
            kw["gemini"] = NanAfter(case["nan_after"])
        elif case["precomputed"]:
            kw["gemini"] = dict(gemini_choices(None, True))[g]
            if "Wasserstein" in g:
                from sklearn.metrics import pairwise_distances
                y = pairwise_distances(X)
            else:
                y = X @ X.T
        else:
            kw["gemini"] = dict(gemini_choices(None, False))[g]
    elif name in ("SparseLinearMMD", "SparseMLPMMD"):
        kern, mode = g.split("-")
        kw["kernel"] = kern
        kw["ovo"] = mode == "ovo"
        if kern == "precomputed":
            y = X @ X.T
    if name in ("SparseMLPModel", "SparseMLPMMD"):
        kw["n_hidden_dim"] = 4
    est = impl.make(name, **kw)
    if case.get("mlcl"):
        impl.add_mlcl_constraint(est, case["mlcl"].get("ml") or None, case["mlcl"].get("cl") or None)
    if case.get("prefit"):
        with warnings.catch_warnings():
            warnings.simplefilter("ignore")
            est.fit(X, y)
    pk = {}
    for key in ("alpha_multiplier", "min_features", "keep_threshold", "early_stopping_factor", "max_patience", "restore_best_weights"):
        if case.get(key, "absent") != "absent":
            pk[key] = case[key]
    return est, X, y, pk


def model_args(case, sig=None):
    g = lambda k, dv: case[k] if case.get(k, "absent") != "absent" else dv  # noqa
    sig = sig or {}
    return {"alpha": float(case["alpha"]), "mult": float(g("alpha_multiplier", sig.get("mult"))), "minf": int(g("min_features", sig.get("minf"))),
            "keep": float(g("keep_threshold", sig.get("keep"))), "esf": float(g("early_stopping_factor", sig.get("esf"))),
            "patience": int(g("max_patience", sig.get("patience"))), "max_iter": int(case["max_iter"]), "d": int(case["d"])}


def slim(case):
    return {k: v for k, v in case.items()}


def unpenalised_fit_weights(est, X, y):
    """Weights of an independent fit of the same configuration with alpha = 0 (what path() starts from)."""
    from sklearn.base import clone
    ref = clone(est).set_params(alpha=0)
    with warnings.catch_warnings():
        warnings.simplefilter("ignore")
        ref.fit(X, y)
    return snap(ref)


def check_zero_steps(chk, case, est, X, y, run, replay):
    """No step recorded: the returned best weights must be those of the unpenalised initial fit (recomputed independently)."""
    if case.get("mlcl"):       # a clone would lose the decoration
        return
    try:
        want = unpenalised_fit_weights(est, X, y)
    except Exception:  # noqa
        return
    if not same_weights(run["result"][0], want):
        chk.fail("path:zero-steps-not-unpenalised-fit", "path() recorded no step but the returned best weights are not those of the initial fit "
                 "with alpha = 0 (independent fit of the same configuration)", replay, layer="L3")


def oracle_without_trace(chk, case, est, X, y, run, replay):
    """The part of the contract that needs no trace: history lengths, alpha schedule, zero-step rule."""
    try:
        best_w, geminis, pens, alphas, nfeat = run["result"]
    except Exception:  # noqa
        chk.fail("path:return-shape", "path() did not return the 5-tuple (best_weights, geminis, penalties, alphas, n_features)", replay, layer="L3")
        return
    T = len(alphas)
    if not (len(geminis) == len(pens) == len(nfeat) == T):
        chk.fail("path:lengths", f"history lengths differ: {len(geminis)}, {len(pens)}, {T}, {len(nfeat)}", replay, layer="L3")
        return
    mult = case.get("alpha_multiplier", "absent")
    mult = 1.05 if mult == "absent" or mult <= 1 else mult
    if T and float(alphas[0]) != case["alpha"]:
        chk.fail("path:alpha-start", f"alphas[0]={alphas[0]} but the model's alpha was {case['alpha']}", replay, layer="L3")
    for t in range(1, T):
        if not close(alphas[t], alphas[t - 1] * mult):
            chk.fail("path:alpha-geometric", f"alphas[{t}]={alphas[t]} is not alphas[{t - 1}]*{mult}", replay, layer="L3")
            break
    if T == 0:
        check_zero_steps(chk, case, est, X, y, run, replay)


# ------------------------------------------------------------------ the comparison (L2) and the oracle (L3)
def check_case(chk, case, stream, sig=None, est_xy=None, expect_same_as=None):
    """Run one traced path(), compare it with the model (L2) and check the contract (L3).  Returns the run."""
    est, X, y, pk = est_xy or build(case)
    if sig is None and any(case.get(k, "absent") == "absent" for k in ("alpha_multiplier", "min_features", "keep_threshold", "early_stopping_factor", "max_patience")):
        t = chk.ask("c07.sig")
        sig = {"mult": t.float(), "minf": t.int(), "keep": t.float(), "esf": t.float(), "patience": t.int()}
    a = model_args(case, sig)
    diverge_expected = a["alpha"] == 0.0 and a["minf"] < a["d"]
    alpha_before = est.alpha
    arg_copies = freeze_args(X, y, getattr(est, "groups", None), pk)
    run = run_traced(est, X, y, pk, WALL_DIVERGE if diverge_expected else WALL_NORMAL)
    replay = slim(case)
    changed = args_changed(arg_copies, X, y, getattr(est, "groups", None), pk)
    if changed:
        chk.fail("path:argument-mutated:" + changed, f"path() modified its argument `{changed}` in place", replay, layer="L3")
    mode = "dynamic" if (case["dynamic"] and y is None) else "static"
    ev = run["events"]
    init, steps = steps_of(ev)
    outcome = run["outcome"]
    chk.dist["outcome:" + outcome] += 1
    chk.dist["est:" + case["estimator"]] += 1
    chk.dist["gemini:" + str(case["gemini"])] += 1
    for flag in ("dynamic", "precomputed", "groups"):
        if case.get(flag):
            chk.dist[flag] += 1
    chk.dist["batch:" + ("full" if case["batch_size"] is None else "mini" if case["batch_size"] < case["n"] else ">=n")] += 1

    # clf.alpha is a hyper-parameter: whatever happened it must be back (L3)
    if est.alpha != alpha_before:
        chk.fail("path:alpha-not-restored", f"clf.alpha is {est.alpha!r} after path(), was {alpha_before!r} (outcome {outcome})", replay, layer="L3")

    if init is None or steps is None:
        if outcome in ("returned", "timeout", "UnboundLocalError"):
            if outcome == "returned":
                oracle_without_trace(chk, case, est, X, y, run, replay)
            if not ev:
                chk.fail("harness-error:path:recorder-saw-no-compute_val_score-call",
                         f"the recorder installed at {run.get('recorder_sites')} binding(s) of compute_val_score saw no call although path() ended with "
                         f"outcome {outcome}: the trace correspondence could not be run (the contract was still checked on the returned tuple)", replay)
            else:
                chk.fail("path:trace-shape", f"compute_val_score was not called in the modelled order (outcome {outcome}, {len(ev)} calls)", replay)
        else:
            chk.fail(f"path:raised:{outcome}:{mode}:initial-fit", f"path() raised {outcome}: {run['error']} before the initial validation", replay, layer="L3")
        chk.count(None)
        return run

    # every traced call: weighted penalty = unweighted penalty * clf.alpha (model: `weighted`)
    for e in ev:
        if not close(e["l1"], e["pen"] * e["alpha"]):
            chk.fail("path:weighted-penalty", f"compute_val_score returned l1={e['l1']} but penalty*alpha={e['pen'] * e['alpha']}", replay)
            break
    # the reference score of the initial unpenalised fit must be the validation score the documented procedure gives
    # (batch-averaged over the estimator's batch_size, like every other score of the path): recomputed independently
    traced_init_score = init["score"]
    doc = run.get("doc_init")
    if doc is None:
        if run.get("doc_init_error"):
            chk.notes.append("documented initial score unavailable: " + str(run.get("doc_init_error")))
    elif not close(doc, traced_init_score):
        chk.fail("path:initial-score-not-batch-averaged",
                 f"the initial fit is scored {traced_init_score!r} by path() but its validation score over blocks of batch_size="
                 f"{case['batch_size']} is {doc!r} (full-data value {run.get('doc_init_full')!r}): the best-score reference is not comparable "
                 f"with the scores of the steps", replay, layer="L3")
        init = dict(init, score=doc)        # the model and the oracle use the documented reference
    if init["alpha"] != 0.0:
        chk.fail("path:initial-fit-alpha", f"the initial fit was validated with clf.alpha={init['alpha']} instead of 0", replay)

    nsteps_traced = len(steps)
    if outcome == "timeout":
        complete = max(0, nsteps_traced - 1)
        m = model_replay(chk, a, init, steps[:complete], complete)
        agree = m["tag"] == "F" and m["t"] == complete and not m["exhausted"] and \
            close_list(m["alphas"], [v["alpha"] for v, _ in steps[:complete]])
        if not agree:
            chk.fail("path:timeout-model-mismatch", f"path() still running after {run['wall']:.2f}s/{complete} steps but the model says {m['tag']} t={m['t']}", replay)
        elif a["alpha"] == 0.0 and all(v["alpha"] == 0.0 for v, _ in steps) and complete >= 1:
            chk.fail("path:alpha-zero-nontermination",
                     f"path() with alpha=0 did not terminate: {complete} steps in {run['wall']:.2f}s, alpha stays 0, {steps[-1][0]['nsel']} features "
                     f"> min_features; the model returns OutOfFuel for this fuel (theorem C07_alpha_zero_diverges_refuted)", replay, layer="L3")
        else:
            chk.fail("path:nontermination", f"path() did not return within {run['wall']:.1f}s ({complete} steps, alpha0={a['alpha']})", replay, layer="L3")
        chk.count(("timeout", case["estimator"], case["gemini"]))
        chk.traces += 1
        return run

    m = model_replay(chk, a, init, steps, nsteps_traced + 2)
    wn = run["warn"]
    # argument warnings are raised before anything else: compare in every outcome
    for key, mk in (("mult", "w_mult"), ("keep", "w_keep"), ("minf", "w_minf"), ("minf_ge_d", "w_minf_ge_d")):
        if wn[key] != (1 if m[mk] else 0):
            chk.fail("path:warning-" + key, f"warning '{key}' raised {wn[key]} time(s), model flag {m[mk]}", replay)
    t = chk.ask(f"c07.wrap {int(case.get('restore_best_weights', True) if case.get('restore_best_weights', 'absent') != 'absent' else 1)} "
                f"{int(case['dynamic'])} {int(y is not None)}")
    restores, w_restore_dyn, w_dyn_pre = t.bool(), t.bool(), t.bool()
    if wn["dyn_pre"] != int(w_dyn_pre):
        chk.fail("path:warning-dyn_pre", f"dynamic/precomputed warning raised {wn['dyn_pre']} time(s), model {w_dyn_pre}", replay)

    if outcome == "UnboundLocalError":
        if m["tag"] == "U" and not m["exhausted"]:
            chk.fail("path:max-patience-zero-unbound",
                     f"path(max_patience={a['patience']}) raised UnboundLocalError ({run['error']}): the inner loop never runs; "
                     f"the model predicts it (theorem C07_max_patience_zero_unbound_refuted)", replay, layer="L3")
        else:
            chk.fail("path:exception-mismatch", f"path() raised UnboundLocalError but the model says {m['tag']}", replay)
        chk.count(("unbound", case["estimator"], a["patience"]))
        chk.traces += 1
        return run
    if outcome != "returned":
        chk.fail(f"path:raised:{outcome}:{mode}", f"path() raised {outcome}: {run['error']} (model: {m['tag']} after {m['t']} steps; "
                 f"{int(est._n_selected_features())} features selected when it raised)", replay, layer="L3")
        chk.count(("exception", outcome, case["estimator"]))
        return run

    best_w, geminis, pens, alphas, nfeat = run["result"]
    geminis, pens, alphas, nfeat = [float(x) for x in geminis], [float(x) for x in pens], [float(x) for x in alphas], [int(x) for x in nfeat]
    epochs_traced = [len(eps) for _, eps in steps]
    nan_traced = bool(steps and steps[-1][1] and steps[-1][1][-1]["score"] != steps[-1][1][-1]["score"])
    # ---------------- L2
    ok = True
    if m["tag"] != "R" or m["exhausted"]:
        chk.fail("path:outcome-mismatch", f"path() returned after {len(alphas)} steps but the model says {m['tag']} (asked for more trace: {m['exhausted']})", replay)
        ok = False
    if ok and m["epochs"] != epochs_traced:
        chk.fail("path:epochs-mismatch", f"epochs per step: impl {epochs_traced} model {m['epochs']}", replay)
        ok = False
    if ok and not (close_list(m["alphas"], alphas) and close_list(m["gem"], geminis) and close_list(m["pens"], pens) and m["nfeat"] == nfeat):
        chk.fail("path:history-mismatch", f"histories differ: impl alphas={alphas[:6]} n={nfeat[:6]} model alphas={m['alphas'][:6]} n={m['nfeat'][:6]}", replay)
        ok = False
    if ok and m["nan"] != nan_traced:
        chk.fail("path:nan-mismatch", f"NaN abort: impl {nan_traced} model {m['nan']}", replay)
        ok = False
    if ok and wn["nan"] != (1 if m["nan"] else 0):
        chk.fail("path:warning-nan", f"NaN warning raised {wn['nan']} time(s), model nan={m['nan']}", replay)
    if ok:
        want = init["w"] if m["bidx"] is None else steps[m["bidx"]][1][-1]["w"]
        if not same_weights(best_w, want):
            chk.fail("path:best-weights-mismatch", f"returned best_weights are not those of the model's step {m['bidx']}", replay)
        after = want if restores else ev[-1]["w"]
        if not same_weights(run["final_w"], after):
            chk.fail("path:restored-state-mismatch",
                     f"estimator weights after path() are not {'the best weights (step %s)' % m['bidx'] if restores else 'the last trained weights'}", replay)
        if wn["restore_dyn"] != int(w_restore_dyn):
            chk.fail("path:warning-restore_dyn", f"restore/dynamic warning raised {wn['restore_dyn']} time(s), model {w_restore_dyn}", replay)
        if not close(m["alpha_after"], est.alpha):
            chk.fail("path:alpha-after-mismatch", f"clf.alpha after path {est.alpha}, model {m['alpha_after']}", replay)

    # ---------------- L3: the contract, in plain Python, independent of the Coq model
    mult = case.get("alpha_multiplier", "absent")
    mult = 1.05 if mult == "absent" or mult <= 1 else mult
    keep = case.get("keep_threshold", "absent")
    keep = 0.9 if keep == "absent" or keep < 0 or keep > 1 else keep
    minf = case.get("min_features", "absent")
    minf = 2 if minf == "absent" or minf <= 0 else minf
    T = len(alphas)
    if not (len(geminis) == len(pens) == len(nfeat) == T):
        chk.fail("path:lengths", f"history lengths differ: {len(geminis)}, {len(pens)}, {T}, {len(nfeat)}", replay, layer="L3")
    else:
        if T and alphas[0] != case["alpha"]:
            chk.fail("path:alpha-start", f"alphas[0]={alphas[0]} but the model's alpha was {case['alpha']}", replay, layer="L3")
        for s in range(1, T):
            if not close(alphas[s], alphas[s - 1] * mult) or abs(alphas[s] - case["alpha"] * mult ** s) > 1e-9 * (1 + s) * abs(alphas[s]):
                chk.fail("path:alpha-geometric", f"alphas[{s}]={alphas[s]} is not alphas[{s - 1}]*{mult} = alpha0*{mult}^{s}", replay, layer="L3")
                break
        for s in range(min(T, len(steps))):
            last = steps[s][1][-1] if steps[s][1] else None
            if last is None or nfeat[s] != last["nsel"] or not close(pens[s], last["pen"]) or not close(geminis[s], last["score"]):
                chk.fail("path:recorded-not-model-state", f"step {s}: recorded (n={nfeat[s]}, pen={pens[s]}, score={geminis[s]}) is not the state of the model at the end of that step", replay, layer="L3")
                break
        if T == 0:
            check_zero_steps(chk, case, est, X, y, run, replay)
        if not nan_traced and wn["nan"] == 0:
            lastc = nfeat[-1] if T else init["nsel"]
            if lastc > minf:
                chk.fail("path:stop-rule", f"path ended with {lastc} features > min_features={minf} and no NaN abort", replay, layer="L3")
        if any(len(eps) > case["max_iter"] or len(eps) < 1 for _, eps in steps):
            chk.fail("path:inner-bound", f"a step ran {max(len(eps) for _, eps in steps)} epochs, max_iter={case['max_iter']}", replay, layer="L3")
        # best-weights rule
        best = init["score"]
        idx = None
        for s in range(T):
            if geminis[s] >= best and nfeat[s] == case["d"]:
                best = geminis[s]
            if geminis[s] >= keep * best:
                idx = s
        if len(steps) >= T:
            want3 = init["w"] if idx is None else steps[idx][1][-1]["w"]
            if not same_weights(best_w, want3):
                chk.fail("path:best-weights-rule", f"best_weights are not those of the last step (#{idx}) whose score reached {keep} x the best all-features score", replay, layer="L3")
            rb = case.get("restore_best_weights", True) if case.get("restore_best_weights", "absent") != "absent" else True
            if rb and not case["dynamic"] and not same_weights(run["final_w"], want3):
                chk.fail("path:restore-rule", "restore_best_weights=True on a non-dynamic model but the estimator does not hold the best weights", replay, layer="L3")
        # out-of-range arguments: replaced by the default AND warned
        for key, bad in (("mult", case.get("alpha_multiplier", 2) != "absent" and case.get("alpha_multiplier", 2) <= 1),
                         ("keep", case.get("keep_threshold", 0.5) != "absent" and not (0 <= case.get("keep_threshold", 0.5) <= 1)),
                         ("minf", case.get("min_features", 2) != "absent" and case.get("min_features", 2) <= 0)):
            if wn[key] != (1 if bad else 0):
                chk.fail("path:bad-argument-warning", f"argument class '{key}' out of range={bad} but {wn[key]} warning(s)", replay, layer="L3")

    sig_nt = None
    if T >= 1:
        sig_nt = (case["estimator"], str(case["gemini"]), T, m["bidx"], nan_traced, case["dynamic"], case["precomputed"],
                  wn["mult"], wn["keep"], wn["minf"], wn["minf_ge_d"], case.get("restore_best_weights"), case["batch_size"] is None)
    chk.count(sig_nt)
    chk.dist["steps:" + ("0" if T == 0 else "1" if T == 1 else "2-5" if T <= 5 else "6-20" if T <= 20 else ">20")] += 1
    chk.dist["best:" + ("initial" if m["bidx"] is None else "last" if m["bidx"] == T - 1 else "middle")] += 1
    if nan_traced:
        chk.dist["nan-abort"] += 1
    if mode == "dynamic" and any(e["nsel"] == 0 for e in ev):
        chk.dist["dynamic-all-features-eliminated"] += 1
    chk.traces += 1
    chk.sample({"stream": stream, "case": {k: case[k] for k in ("estimator", "gemini", "alpha", "alpha_multiplier", "min_features", "keep_threshold", "max_patience", "dynamic") if k in case},
                "alphas": alphas[:4], "n_features": nfeat[:8], "best_step": m["bidx"], "epochs": epochs_traced[:8]})
    return run


# ------------------------------------------------------------------ streams
def stream_grid(chk, i, rng):
    check_case(chk, make_case(rng, i, chk.tier), "grid")


def stream_badargs(chk, i, rng):
    force = {}
    which = i % 7
    if which in (0, 3, 6):
        force["alpha_multiplier"] = float(rng.choice([1.0, 0.5, 0.0, -2.0, 0.999]))
    if which in (1, 3, 5, 6):
        force["keep_threshold"] = float(rng.choice([-0.1, 1.5, -3.0, 1.0000001]))
    if which in (2, 5, 6):
        force["min_features"] = int(rng.choice([0, -1, -5]))
    case = make_case(rng, i, chk.tier, force)
    if which == 4:
        case["min_features"] = int(case["d"] + rng.integers(0, 3))     # >= d: warning only, no step
    if "alpha_multiplier" in force:
        case["alpha"] = float(rng.choice([0.5, 1.0, 2.0]))               # 1.05 per step: start high enough to stay short
        case["learning_rate"] = 0.2
    check_case(chk, case, "badargs")


def stream_dynamic(chk, i, rng):
    case = make_case(rng, i, chk.tier, {"dynamic": True, "precomputed": bool(i % 3 == 0),
                                        "estimator": [s for s in impl.SPARSE if s != "SparseLinearMI"][i % 4]})
    check_case(chk, case, "dynamic")


def stream_dynzero(chk, i, rng):
    """Dynamic mode, no precomputed affinity, aggressive penalty: an epoch eliminates every feature, so the validation
    score is evaluated with an empty selection (regression scenario of the repaired defect F18)."""
    case = make_case(rng, i, chk.tier, {"dynamic": True, "precomputed": False, "estimator": ["SparseMLPMMD", "SparseLinearMMD", "SparseMLPModel", "SparseLinearModel"][i % 4]})
    case.update({"alpha": float(rng.choice([1.0, 2.0, 5.0])), "alpha_multiplier": float(rng.choice([3.0, 5.0])), "learning_rate": float(rng.choice([0.2, 0.5])),
                 "solver": "sgd", "max_iter": int(rng.integers(3, 7)), "scale": 3.0, "groups": False})
    check_case(chk, case, "dynzero")


def rule_index(keep, s0, geminis, nfeat, d):
    best, idx = s0, None
    for t, (g, n) in enumerate(zip(geminis, nfeat)):
        if g >= best and n == d:
            best = g
        if g >= keep * best:
            idx = t
    return idx


def stream_keepwindow(chk, i, rng):
    """Mini-batches (batch_size < n), a large initial alpha (the initial fit stays the best all-features score) and a
    keep_threshold drawn next to a ratio score/reference, where the returned step is most sensitive to the reference
    score of the initial fit: a probe run gives the histories (they do not depend on keep_threshold), then the real
    run uses the chosen threshold."""
    case = make_case(rng, i, chk.tier, {"dynamic": False, "precomputed": bool(i % 5 == 4)})
    case["n"] = int(rng.integers(24, 41))
    case["batch_size"] = int(rng.choice([case["n"] // 3, case["n"] // 2, 7, 5]))
    case.update({"alpha": float(rng.choice([2.0, 5.0, 10.0, 20.0])), "alpha_multiplier": float(rng.choice([1.3, 1.5, 2.0])),
                 "learning_rate": float(rng.choice([0.05, 0.2])), "max_iter": int(rng.integers(3, 7)), "restore_best_weights": True,
                 "min_features": 1, "keep_threshold": 0.9, "scale": float(rng.choice([0.3, 1.0]))})
    est, X, y, pk = build(case)
    probe = run_traced(est, X, y, dict(pk, restore_best_weights=False), WALL_NORMAL)
    keep, kind = 0.9, "default"
    if probe["outcome"] == "returned" and probe["doc_init"] is not None and len(probe["result"][1]) > 0:
        g, nf = [float(v) for v in probe["result"][1]], [int(v) for v in probe["result"][4]]
        s0, s0f = probe["doc_init"], probe["doc_init_full"]
        cands = []
        if s0 == s0 and s0f == s0f and s0 + s0f != 0:
            mid = 0.5 * (s0 + s0f)
            for t in range(len(g)):       # thresholds for which the answer depends on how the initial fit is scored
                k = g[t] / mid
                if 0 <= k <= 1 and rule_index(k, s0, g, nf, case["d"]) != rule_index(k, s0f, g, nf, case["d"]):
                    cands.append((k, "reference-sensitive"))
        if not cands and s0 == s0:
            best = s0
            for t in range(len(g)):       # thresholds next to a ratio score / running best
                if g[t] >= best and nf[t] == case["d"]:
                    best = g[t]
                if best != 0:
                    k = (g[t] / best) * (1 + float(rng.choice([-1, 1])) * float(rng.choice([1e-6, 1e-3, 2e-2])))
                    if 0 <= k <= 1:
                        cands.append((k, "near-ratio"))
        if cands:
            keep, kind = cands[int(rng.integers(0, len(cands)))]
    case["keep_threshold"] = float(keep)
    chk.dist["keepwindow:" + kind] += 1
    check_case(chk, case, "keepwindow")


# ------------------------------------------------------------------ round-3 streams: representation, boundaries, decorated route
def representations(A):
    """(label, object holding exactly the same values as the float64 C-contiguous array A); dtype variants only when
    the values are representable in that dtype."""
    out = [("fortran", np.asfortranarray(A)),
           ("strided-rows", np.repeat(A, 2, axis=0)[::2]),
           ("reversed-cols-view", np.ascontiguousarray(A[:, ::-1])[:, ::-1]),
           ("transposed-transpose", np.ascontiguousarray(A.T).T),
           ("list", A.tolist()), ("tuple", tuple(tuple(r) for r in A.tolist()))]
    ro = A.copy()
    ro.setflags(write=False)
    out.append(("read-only", ro))
    if np.array_equal(A.astype(np.float32).astype(np.float64), A):
        out.append(("float32", A.astype(np.float32)))
    if np.array_equal(np.round(A), A) and np.all(np.abs(A) < 2 ** 30):
        out += [("int64", A.astype(np.int64)), ("int32", A.astype(np.int32))]
        if np.all((A == 0) | (A == 1)):
            out.append(("bool", A.astype(bool)))
    return out


DTYPE_REPS = ("int64", "int32", "bool")     # dtype-changing: other arithmetic routes, rounding differs (1e-9 .. 1e-7 observed)


def unclear_margins(run):
    """True when a discrete decision of the run was close: a selected feature whose group norm is tiny (the proximal
    step nearly removed it, or nearly did not)."""
    for e in run["events"]:
        w = e["w"][2] if len(e["w"]) == 5 else e["w"][0]
        nrm = np.linalg.norm(w, axis=1)
        if np.any((nrm != 0) & (nrm < 1e-5)):
            return True
    return False


def same_path_result(ref, var, tol=1e-10, dtype_changed=False):
    """ref/var: runs of run_traced.  Layout-only representations: identical histories, best weights and estimator
    weights at 1e-10.  Dtype-changing ones: 1e-6, and the discrete outputs (n_features, epochs per step) only when the
    selected-feature margins are clear and both runs made the same early-stopping decisions."""
    if ref["outcome"] != var["outcome"]:
        return f"outcome {var['outcome']} ({var['error']}) instead of {ref['outcome']}"
    if ref["outcome"] != "returned":
        return None
    (bw, g, p, a, nf), (bw2, g2, p2, a2, nf2) = ref["result"], var["result"]
    if dtype_changed:
        tol = 1e-6
        ep = [len(eps) for _, eps in (steps_of(ref["events"])[1] or [])]
        ep2 = [len(eps) for _, eps in (steps_of(var["events"])[1] or [])]
        if unclear_margins(ref) or unclear_margins(var) or ep != ep2:
            return "unclear"        # a discrete decision was within rounding: the two paths may legitimately part
    if [int(v) for v in nf] != [int(v) for v in nf2]:
        return f"n_features {list(nf2)[:8]} instead of {list(nf)[:8]}"
    for nm, u, v in (("geminis", g, g2), ("penalties", p, p2), ("alphas", a, a2)):
        u, v = np.asarray(u, float), np.asarray(v, float)
        if len(u) != len(v):
            return f"{nm} differ in length"
        ok = np.isclose(u, v, rtol=tol, atol=tol, equal_nan=True)
        if nm == "geminis":      # a square-root distance at its zero (constant predictions) only carries rounding noise ~sqrt(1e-16)
            ok |= (np.abs(u) <= 1e-7) & (np.abs(v) <= 1e-7)
        if not ok.all():
            return f"{nm} differ: {u[~ok][:3].tolist()} vs {v[~ok][:3].tolist()}"
    if any(abs(float(v)) <= 1e-7 for v in list(g) + list(g2)):
        # a step ended on constant predictions (score = square root of rounding noise): its gradient is 0/0-like, the
        # weights trained there are ill-conditioned functions of the input; only the discrete outputs and histories are compared
        return None
    for nm, U, V in (("best weights", bw, bw2), ("estimator weights", ref["final_w"], var["final_w"])):
        if U is None or V is None or len(U) != len(V) or not all(np.allclose(x, z, rtol=tol, atol=tol, equal_nan=True) for x, z in zip(U, V)):
            return f"{nm} differ"
    return None


def float32_sane(ref, var):
    """float32 input: values are never compared; only no new exception, same shapes, finite where the reference is."""
    if ref["outcome"] != var["outcome"]:
        return f"outcome {var['outcome']} ({var['error']}) instead of {ref['outcome']}"
    if ref["outcome"] != "returned":
        return None
    (bw, g, p, a, nf), (bw2, g2, p2, a2, nf2) = ref["result"], var["result"]
    if not (len(g2) == len(p2) == len(a2) == len(nf2)):
        return "history lengths differ"
    if len(bw) != len(bw2) or any(np.shape(x) != np.shape(z) for x, z in zip(bw, bw2)):
        return "best weights have other shapes"
    if np.all(np.isfinite(np.asarray(g, float))) and all(np.all(np.isfinite(x)) for x in bw):
        if not (np.all(np.isfinite(np.asarray(g2, float))) and np.all(np.isfinite(np.asarray(p2, float))) and all(np.all(np.isfinite(z)) for z in bw2)):
            return "non-finite results where the float64 run is finite"
    return None


def note_once(chk, text):
    if text not in chk.notes:
        chk.notes.append(text)


def stream_repr(chk, i, rng):
    """Metamorphic: the same values in another representation (dtype, memory layout, read-only, list/tuple) must give
    the same path, raise nothing new and leave the caller's objects untouched."""
    kind = ["eighth", "int", "bool", "eighth"][i % 4]
    names = impl.SPARSE
    case = make_case(rng, i, chk.tier, {"estimator": names[i % len(names)], "precomputed": bool(i % 3 == 1), "dynamic": bool(i % 7 == 3)})
    case.update({"quant": kind, "n": int(rng.integers(10, 19)), "scale": 1.0, "max_iter": int(rng.integers(2, 5)),
                 "alpha": float(rng.choice([0.5, 1.0])), "alpha_multiplier": float(rng.choice([1.5, 2.0])), "learning_rate": 0.1})
    est, X, y, pk = build(case)
    ref = check_case(chk, case, "repr", est_xy=(est, X, y, pk))
    if ref["outcome"] != "returned" or ref["final_w"] is None:
        return
    which_arg = ["X", "y"] if y is not None else ["X"]
    for arg in which_arg:
        base = X if arg == "X" else y
        reps = representations(base)
        for lbl, obj in [reps[j] for j in rng.permutation(len(reps))[:(4 if chk.tier == "quick" else len(reps))]]:
            est2, _, _, pk2 = build(case)
            Xv, yv = (obj, y) if arg == "X" else (X, obj)
            fz = freeze_args(Xv, yv, getattr(est2, "groups", None), pk2)
            var = run_traced(est2, Xv, yv, pk2, WALL_NORMAL)
            chk.dist[f"repr:{arg}:{lbl}"] += 1
            chk.evaluations += 1
            replay = dict(slim(case), representation=lbl, argument=arg)
            changed = args_changed(fz, Xv, yv, getattr(est2, "groups", None), pk2)
            if changed:
                chk.fail(f"path:repr:argument-mutated:{changed}", f"path() modified the caller's `{changed}` ({lbl} {arg})", replay, layer="L3")
            if lbl == "float32":
                diff = float32_sane(ref, var)
                if same_path_result(ref, var) is not None:
                    chk.dist["repr:float32-differs-from-float64"] += 1
                    note_once(chk, "observation: float32 input is not upcast by path(); results differ from the float64 run of the same values "
                                   "(from ~1e-7 relative up to a different path)")
            else:
                diff = same_path_result(ref, var, dtype_changed=lbl in DTYPE_REPS)
            if diff == "unclear":
                chk.dist["repr:dtype-unclear-margin-not-compared"] += 1
                continue
            if diff is None:
                continue
            # observations on the unchanged tree (reported to the coordinator, recorded, not alarms)
            if arg == "y" and lbl in ("list", "tuple") and var["outcome"] == "TypeError":
                chk.dist["repr:y-as-list-TypeError"] += 1
                note_once(chk, "observation: a precomputed affinity given as a list of lists makes path() raise TypeError in compute_val_score "
                               "(y[j:j+bs][:, j:j+bs]); the docstring asks for an ndarray")
                continue
            chk.fail(f"path:repr:{arg}:{lbl}", f"path() on the same values as {lbl} {arg}: {diff}", replay, layer="L3")


BOUNDARY_KINDS = ["K=1", "d=1", "d=1-default-minf", "d=2", "n=k", "bs=n", "bs>n", "bs=1", "keep=1", "keep=0", "keep=-0.0", "keep=1+ulp", "keep=-denormal",
                  "keep=denormal", "mult=1", "mult=1-ulp", "mult=1e300", "minf=d-1", "minf=d", "minf=d+1", "one-group", "singleton-groups",
                  "alpha=denormal,minf=d", "alpha=1e300", "esf=1e300", "esf=-0.0", "esf=denormal", "esf=1-ulp", "const-col", "dup-rows", "negzero-col",
                  "denormal-col", "huge", "ties", "prefit", "max_iter=1,patience=1", "keep=ratio-exact"]


def stream_boundary(chk, i, rng):
    """Degenerate sizes, inclusive interval ends and adversarial floats, all through the public path() and the full
    model/contract comparison."""
    kind = BOUNDARY_KINDS[i % len(BOUNDARY_KINDS)]
    est_i = int(rng.integers(0, len(impl.SPARSE)))
    case = make_case(rng, est_i, chk.tier, {"precomputed": False, "dynamic": False})
    case.update({"alpha": float(rng.choice([0.5, 1.0, 2.0])), "alpha_multiplier": float(rng.choice([1.5, 2.0])), "learning_rate": 0.1,
                 "min_features": 1, "groups": False})
    d, n = case["d"], case["n"]
    one = 1.0
    if kind == "K=1":
        case["k"] = 1
    elif kind == "d=1":
        case["d"] = 1
    elif kind == "d=1-default-minf":
        case["d"], case["min_features"] = 1, "absent"
    elif kind == "d=2":
        case["d"] = 2
    elif kind == "n=k":
        case["n"], case["batch_size"] = case["k"], None
    elif kind == "bs=n":
        case["batch_size"] = n
    elif kind == "bs>n":
        case["batch_size"] = n + int(rng.integers(1, 9))
    elif kind == "bs=1":
        case["batch_size"], case["n"] = 1, min(n, 10)
    elif kind == "keep=1":
        case["keep_threshold"] = 1.0
    elif kind == "keep=0":
        case["keep_threshold"] = 0.0
    elif kind == "keep=-0.0":
        case["keep_threshold"] = -0.0
    elif kind == "keep=1+ulp":
        case["keep_threshold"] = float(np.nextafter(one, 2.0))
    elif kind == "keep=-denormal":
        case["keep_threshold"] = -5e-324
    elif kind == "keep=denormal":
        case["keep_threshold"] = 5e-324
    elif kind == "mult=1":
        case["alpha_multiplier"], case["alpha"] = 1.0, 2.0
    elif kind == "mult=1-ulp":
        case["alpha_multiplier"], case["alpha"] = float(np.nextafter(one, 0.0)), 2.0
    elif kind == "mult=1e300":
        case["alpha_multiplier"] = 1e300
    elif kind == "minf=d-1":
        case["min_features"] = max(1, d - 1)
    elif kind == "minf=d":
        case["min_features"] = d
    elif kind == "minf=d+1":
        case["min_features"] = d + 1
    elif kind == "one-group" and case["estimator"] != "SparseLinearMI":
        case["groups"] = "one"
    elif kind == "singleton-groups" and case["estimator"] != "SparseLinearMI":
        case["groups"] = "singletons"
    elif kind == "alpha=denormal,minf=d":
        case["alpha"], case["min_features"] = 5e-324, d
    elif kind == "alpha=1e300":
        case["alpha"] = 1e300
    elif kind == "esf=1e300":
        case["early_stopping_factor"] = 1e300
    elif kind == "esf=-0.0":
        case["early_stopping_factor"] = -0.0
    elif kind == "esf=denormal":
        case["early_stopping_factor"] = 5e-324
    elif kind == "esf=1-ulp":
        case["early_stopping_factor"] = float(np.nextafter(one, 0.0))
    elif kind in ("const-col", "dup-rows", "negzero-col", "denormal-col", "huge", "ties"):
        case["twist"] = kind
    elif kind == "prefit":
        case["prefit"] = True
    elif kind == "max_iter=1,patience=1":
        case["max_iter"], case["max_patience"] = 1, 1
    elif kind == "keep=ratio-exact":
        # keep_threshold = score of a step / reference exactly (tie in the keep test), found by a probe run
        est, X, y, pk = build(case)
        probe = run_traced(est, X, y, dict(pk, restore_best_weights=False), WALL_NORMAL)
        if probe["outcome"] == "returned" and len(probe["result"][1]) > 0 and probe["doc_init"]:
            g = [float(v) for v in probe["result"][1]]
            nf = [int(v) for v in probe["result"][4]]
            best, cands = probe["doc_init"], []
            for t in range(len(g)):
                if g[t] >= best and nf[t] == case["d"]:
                    best = g[t]
                if best > 0 and 0 <= g[t] / best <= 1:
                    k = g[t] / best
                    cands += [k, float(np.nextafter(k, 2.0)), float(np.nextafter(k, -1.0))]
            cands = [k for k in cands if 0 <= k <= 1]
            if cands:
                case["keep_threshold"] = float(cands[int(rng.integers(0, len(cands)))])
    chk.dist["boundary:" + kind] += 1
    check_case(chk, case, "boundary")


def stream_mlcl(chk, i, rng):
    """path() has its own copy of the training loop: run it on must-link / cannot-link decorated estimators with every
    batching regime and with precomputed affinities; same model comparison and contract as the plain route."""
    case = make_case(rng, i, chk.tier, {"precomputed": bool(i % 4 == 3), "dynamic": False})
    n = case["n"]
    case["batch_size"] = [None, n, n + 3, max(2, n // 3)][i % 4]
    case.update({"alpha": float(rng.choice([0.5, 1.0, 2.0])), "alpha_multiplier": float(rng.choice([1.5, 2.0])), "learning_rate": 0.1, "min_features": 1})
    idx = [int(v) for v in rng.permutation(n)[:4]]
    case["mlcl"] = {"ml": [[idx[0], idx[1]]], "cl": [[idx[2], idx[3]]]} if i % 3 else {"ml": [[idx[0], idx[1]]], "cl": []}
    chk.dist["mlcl:batch=" + ("None" if case["batch_size"] is None else "n" if case["batch_size"] == n else ">n" if case["batch_size"] > n else "<n")] += 1
    check_case(chk, case, "mlcl")


def stream_nan(chk, i, rng):
    if i % 2 == 0:
        case = make_case(rng, i, chk.tier, {"estimator": ["SparseLinearModel", "SparseMLPModel"][(i // 2) % 2], "precomputed": False, "dynamic": False})
        case["nan_after"] = int(rng.integers(0, 12)) * max(1, math.ceil(case["n"] / (case["batch_size"] or case["n"])))
        case["gemini"] = "nan-after-%d" % case["nan_after"]
    else:   # natural overflow
        case = make_case(rng, i, chk.tier, {"precomputed": False})
        case["learning_rate"] = float(rng.choice([1e6, 1e150, 1e300]))
        case["scale"] = 1e3
        case["solver"] = "sgd"
    check_case(chk, case, "nan")


def stream_alpha0(chk, i, rng):
    case = make_case(rng, i, chk.tier, {"alpha": 0.0, "precomputed": False, "dynamic": False})
    case["max_iter"] = int(rng.integers(1, 3))
    case["max_patience"] = 1
    if i % 3 == 2:
        case["min_features"] = case["d"]      # no step: alpha=0 is harmless here
    check_case(chk, case, "alpha0")


def stream_patience0(chk, i, rng):
    case = make_case(rng, i, chk.tier, {"max_patience": int([0, 0, -1][i % 3])})
    if i % 4 == 3:
        case["min_features"] = case["d"] + 1  # the loop is never entered: returns normally
    check_case(chk, case, "patience0")


def stream_defaults(chk, i, rng):
    """path() called with the signature defaults (arguments omitted): the model runs with the regenerated signature defaults."""
    t = chk.ask("c07.sig")
    sig = {"mult": t.float(), "minf": t.int(), "keep": t.float(), "esf": t.float(), "patience": t.int()}
    case = make_case(rng, i, chk.tier, {"precomputed": False})
    case["alpha"] = float(rng.choice([1.0, 2.0, 4.0]))
    case["learning_rate"] = 0.2
    omit = ["alpha_multiplier", "min_features", "keep_threshold", "early_stopping_factor", "max_patience", "restore_best_weights"]
    for k in (omit if i % 2 == 0 else list(rng.choice(omit, size=3, replace=False))):
        case[k] = "absent"
    check_case(chk, case, "defaults", sig=sig)
    import inspect
    for cls in (impl.ALL_ESTIMATORS["SparseLinearModel"], impl.ALL_ESTIMATORS["SparseMLPModel"]):
        p = inspect.signature(cls.path).parameters
        got = (p["alpha_multiplier"].default, p["min_features"].default, p["keep_threshold"].default, p["early_stopping_factor"].default, p["max_patience"].default)
        if got != (sig["mult"], sig["minf"], sig["keep"], sig["esf"], sig["patience"]) or p["restore_best_weights"].default is not True:
            chk.fail("path:wrapper-defaults", f"{cls.__name__}.path defaults {got} differ from _path's {tuple(sig.values())}", {"class": cls.__name__})


def stream_twice(chk, i, rng):
    """Two consecutive path() calls on the same estimator: the second one starts from the same clf.alpha."""
    case = make_case(rng, i, chk.tier, {"precomputed": False, "dynamic": False})
    est, X, y, pk = build(case)
    r1 = check_case(chk, case, "twice", est_xy=(est, X, y, pk))
    r2 = check_case(chk, case, "twice", est_xy=(est, X, y, pk))
    if r1["outcome"] == "returned" and r2["outcome"] == "returned":
        a1, a2 = list(r1["result"][3]), list(r2["result"][3])
        if a1[:1] != a2[:1]:
            chk.fail("path:second-run-start", f"second path() starts at alpha {a2[:1]} instead of {a1[:1]}", slim(case), layer="L3")


STREAMS = {"grid": (stream_grid, 110, 2500), "badargs": (stream_badargs, 42, 500), "dynamic": (stream_dynamic, 24, 300),
           "dynzero": (stream_dynzero, 16, 160), "keepwindow": (stream_keepwindow, 24, 300),
           "repr": (stream_repr, 12, 120), "boundary": (stream_boundary, len(BOUNDARY_KINDS), 8 * len(BOUNDARY_KINDS)), "mlcl": (stream_mlcl, 12, 160),
           "nan": (stream_nan, 20, 200), "alpha0": (stream_alpha0, 6, 30), "patience0": (stream_patience0, 8, 60),
           "defaults": (stream_defaults, 6, 60), "twice": (stream_twice, 5, 50)}


def run_corpus(chk):
    import glob, os
    for p in sorted(glob.glob(os.path.join(os.path.dirname(os.path.dirname(os.path.abspath(__file__))), "corpus", "C07", "*.json"))):
        case = json.load(open(p))
        chk.cur = ("corpus:" + os.path.basename(p), 0)
        try:
            check_case(chk, case, "corpus")
        except Exception as e:  # noqa
            chk.fail("corpus:exception:" + type(e).__name__, f"corpus case {p}: {e}", case)
        chk.cur = None


def main():
    chk = Check("C07")
    chk.build()
    chk.proofs()
    if "TRANSLATOR-FAIL translator/tr_pathrules.py" in chk.build_out:
        chk.notes.append("Gen/PathRules.v could not be regenerated from the current source: the model runs with the last generated rules; the trace correspondence is the tie")
    else:
        chk.regenerated["Gen/PathRules.v"] = "regenerated from _base_sparse.py::_run_path on this run"
    if chk.replay_path:
        rp = json.load(open(chk.replay_path))
        st, case = rp["input"].get("stream"), rp["input"].get("case")
        chk.seed = rp.get("seed", chk.seed)
        if st in STREAMS and isinstance(case, int):
            chk.run_stream(st, STREAMS[st][0], 0, only=case)
        elif "estimator" in rp["input"]:          # corpus case or hand-written case: the input is the case itself
            chk.cur = ("replay", 0)
            check_case(chk, {k: v for k, v in rp["input"].items() if k not in ("stream", "case")}, "replay")
            chk.cur = None
    else:
        run_corpus(chk)
        for name, (fn, q, th) in STREAMS.items():
            cnt = q if chk.tier == "quick" else th
            if chk.l1_broken:
                cnt *= 3       # a proof obligation broke: widen the failing-input search
            chk.run_stream(name, fn, cnt)
    chk.finish(rule="streams: traced real path() runs on the 5 sparse estimators x (13 registry names + 13 GEMINI instances / MMD kernels / MI) x "
                    "argument grid (alpha, multiplier incl. <=1, min_features incl. <=0 and >=d, keep_threshold incl. outside [0,1], early_stopping_factor, "
                    "max_patience incl. 0, restore on/off), dynamic mode, precomputed affinity, batch sizes (None, <n, >=n), groups, injected and natural NaN, "
                    "omitted arguments, repeated calls, mini-batches with large alpha and keep_threshold drawn next to score/reference ratios (probe run first); "
                    "the initial reference score is recomputed independently over the documented validation blocks; n<=40, d<=6, max_iter<=6.  non-trivial = at least one completed outer step; "
                    "distinct = distinct (estimator, GEMINI, #steps, returned step, NaN, dynamic, precomputed, warning flags, restore, batching) signature",
               extra={"regenerated": chk.regenerated})


if __name__ == "__main__":
    main()
