"""Shared helpers for the GEMINI properties (C01, C02, C13, C17): case generation, running the
implementation, running the extracted model (with ot.emd2 recorded as the oracle), independent
reference definitions, finite differences."""
import numpy as np
import impl
from core import enc_mat, hx
import gemclus.gemini._geomdistances as geo

G = impl.G
OBJ = {"KLGEMINI": "kl", "MI": "kl", "TVGEMINI": "tv", "HellingerGEMINI": "he", "ChiSquareGEMINI": "chi",
       "MMDGEMINI": "mmd", "WassersteinGEMINI": "ws"}


def gemini_list():
    """(label, factory) for the 13 registry names and the 6 classes (+MI) with both flags."""
    out = []
    for name in G.AVAILABLE_GEMINIS:
        out.append(("name:" + name, (lambda nm=name: geo_str(nm))))
    for cls in (G.KLGEMINI, G.TVGEMINI, G.HellingerGEMINI, G.ChiSquareGEMINI, G.MMDGEMINI, G.WassersteinGEMINI):
        for ovo in (False, True):
            out.append((f"{cls.__name__}(ovo={ovo})", (lambda c=cls, o=ovo: c(ovo=o))))
    out.append(("MI()", lambda: G.MI()))
    return out


def geo_str(name):
    from gemclus.gemini._utils import _str_to_gemini
    return _str_to_gemini(name)


def obj_of(g):
    return OBJ[type(g).__name__], bool(getattr(g, "ovo", False))


def gen_P(rng, n, K, mode=None):
    """Row-stochastic predictions: near-uniform .. saturated; 'onehot' and 'clipped' put entries at/over the clip bounds."""
    mode = mode or rng.choice(["soft", "mid", "sharp", "saturated"])
    scale = {"soft": 0.1, "mid": 1.0, "sharp": 5.0, "saturated": 30.0}.get(mode, 1.0)
    P = impl.softmax_rows(rng.normal(size=(n, K)) * scale)
    if mode == "onehot":
        P = np.eye(K)[rng.integers(0, K, size=n)]
    return P


def gen_affinity(rng, n, kind, d=None):
    """Symmetric kernel or distance matrix of the requested kind, plus its description."""
    from sklearn.metrics import pairwise_kernels, pairwise_distances
    d = d or int(rng.integers(1, 4))
    X = rng.normal(size=(n, d)) * rng.choice([0.3, 1.0, 3.0])
    if kind == "kernel":
        which = rng.choice(["linear", "rbf", "poly", "sigmoid", "precomputed-psd", "precomputed-indef", "callable"])
        if which == "linear":
            return pairwise_kernels(X, metric="linear"), which
        if which == "rbf":
            return pairwise_kernels(X, metric="rbf", gamma=float(rng.uniform(0.1, 2))), which
        if which == "poly":
            return pairwise_kernels(X, metric="polynomial", degree=2, coef0=1.0), which
        if which == "sigmoid":
            return pairwise_kernels(X, metric="sigmoid", gamma=0.5, coef0=0.1), which
        if which == "precomputed-psd":
            B = rng.normal(size=(n, n))
            return B @ B.T / n, which
        if which == "precomputed-indef":
            B = rng.normal(size=(n, n))
            return (B + B.T) / 2, which
        return np.exp(-pairwise_distances(X, metric="manhattan")), which
    which = rng.choice(["euclidean", "manhattan", "cosine", "precomputed", "callable"])
    if which in ("euclidean", "manhattan", "cosine"):
        return pairwise_distances(X, metric=which), which
    if which == "precomputed":
        D = np.abs(rng.normal(size=(n, n)))
        D = (D + D.T) / 2
        np.fill_diagonal(D, 0)
        return D, which
    return pairwise_distances(X, metric="chebyshev"), which


class EmdRecorder:
    """Records every ot.emd2 call made by WassersteinGEMINI.evaluate (arguments and results)."""

    def __init__(self):
        self.calls = []

    def __enter__(self):
        self.orig = geo.ot.emd2
        rec = self

        def emd2(a, b, M, *args, **kw):
            res = rec.orig(a, b, M, *args, **kw)
            cost, log = res
            rec.calls.append({"a": np.array(a), "b": np.array(b), "M": np.array(M), "cost": float(cost),
                              "u": np.array(log["u"]), "v": np.array(log["v"])})
            return res
        geo.ot.emd2 = emd2
        return self

    def __exit__(self, *a):
        geo.ot.emd2 = self.orig


def run_impl(g, P, A, want_grad=True):
    """Returns (score, grad, emd_calls)."""
    with EmdRecorder() as rec:
        if want_grad:
            s, gr = g(P.copy(), None if A is None else A.copy(), return_grad=True)
        else:
            s, gr = g(P.copy(), None if A is None else A.copy()), None
    return float(np.asarray(s)), (None if gr is None else np.asarray(gr, dtype=float)), rec.calls


def run_model(chk, obj, ovo, eps, P, A, emd_calls=None):
    """Evaluate the extracted Coq model (float instance). For ws the recorded emd2 results are the oracle."""
    n, K = P.shape
    line = f"gem.eval {obj} {1 if ovo else 0} {hx(eps)} {enc_mat(P)} "
    line += enc_mat(A) if A is not None else "0 0"
    if obj == "ws":
        if ovo:
            emd = np.zeros((K, K)); u = np.zeros((K * K, n)); v = np.zeros((K * K, n))
            it = iter(emd_calls)
            for k1 in range(K):
                for k2 in range(k1 + 1, K):
                    c = next(it)
                    emd[k1, k2] = c["cost"]; u[k1 * K + k2] = c["u"]; v[k1 * K + k2] = c["v"]
            line += f" {enc_mat(emd)} {enc_mat(u)} {enc_mat(v)}"
        else:
            emd = np.array([[c["cost"] for c in emd_calls]]); u = np.array([c["u"] for c in emd_calls])
            line += f" {enc_mat(emd)} {enc_mat(u.reshape(K, n))}"
    t = chk.ask(line)
    score = t.float()
    grad = np.array(t.floats(n * K)).reshape(n, K)
    return score, grad


def model_wy(chk, eps, P):
    n, K = P.shape
    t = chk.ask(f"gem.wy {hx(eps)} {enc_mat(P)}")
    return np.array(t.floats(n * K)).reshape(K, n)


# ------------------------------------------------------------------ independent reference definitions (L3)
def ref_score(obj, ovo, P, A):
    """Textbook definition: p(y)-weighted average of the named distance between the empirical cluster
    conditionals q_k(i) = P[i,k]/(n pi_k) and the empirical data law 1/n (OvA) or between two conditionals
    (OvO).  Explicit loops over clusters; Wasserstein by an independent LP."""
    n, K = P.shape
    pi = P.mean(0)
    q = P / (n * pi)          # q[:,k] sums to one
    p = np.full(n, 1.0 / n)

    def dist(a, b):
        if obj == "kl":
            return float(np.sum(a * np.log(a / b)))
        if obj == "tv":
            return 0.5 * float(np.sum(np.abs(a - b)))
        if obj == "he":
            return 1.0 - float(np.sum(np.sqrt(a * b)))
        if obj == "chi":
            return float(np.sum((a - b) ** 2 / b))
        if obj == "mmd":
            v = (a - b) @ A @ (a - b)
            return float(np.sqrt(max(v, 0.0)))
        if obj == "ws":
            return w1_lp(a, b, A)
        raise ValueError(obj)
    if not ovo:
        val = sum(pi[k] * dist(q[:, k], p) for k in range(K))
    else:
        val = sum(pi[a] * pi[b] * dist(q[:, a], q[:, b]) for a in range(K) for b in range(K))
    if obj == "chi":
        val = (val + 1) / 2     # the family's fixed affine convention
    return val


class OracleUnavailable(Exception):
    pass


def w1_lp(a, b, M):
    from scipy.optimize import linprog
    n = len(a)
    Aeq = np.zeros((2 * n, n * n))
    for i in range(n):
        Aeq[i, i * n:(i + 1) * n] = 1
        Aeq[n + i, i::n] = 1
    res = linprog(M.ravel(), A_eq=Aeq[:-1], b_eq=np.concatenate([a, b])[:-1], bounds=(0, None), method="highs")
    if res.status != 0 or res.fun is None:
        raise OracleUnavailable(f"independent LP did not solve (status {res.status})")
    return float(res.fun)


def fd_directional(g, P, A, D, h):
    """Central difference of the returned score along the simplex-preserving direction D."""
    sp = float(np.asarray(g(P + h * D, A)))
    sm = float(np.asarray(g(P - h * D, A)))
    return (sp - sm) / (2 * h)


def tangent_direction(rng, n, K):
    D = rng.normal(size=(n, K))
    D -= D.mean(1, keepdims=True)      # rows sum to zero: stays on the simplex
    return D / np.abs(D).max()


def mmd_condition(P, A, eps, ovo):
    """Condition number of the squared-distance computations of the MMD GEMINI (a difference of nearly equal
    kernel quadratic forms under a square root): max over the distances of (sum of |terms|) / |result|.
    Rounding in binary64 perturbs delta (and 1/delta in the gradient) by about u * n * C relatively, in the
    implementation and in the model alike, so comparisons are widened by that amount."""
    n = P.shape[0]
    Pc = np.clip(P, eps, 1 - eps)
    pi = Pc.mean(0, keepdims=True)
    al = Pc / pi
    nk = A / n ** 2
    ga = nk @ al
    C = 1.0
    if ovo:
        om = al.T @ ga
        absom = np.abs(al).T @ (np.abs(nk) @ np.abs(al))
        d = np.diag(om)
        q = -2 * om + d[None, :] + d[:, None]
        mag = 2 * absom + np.diag(absom)[None, :] + np.diag(absom)[:, None]
        off = ~np.eye(len(q), dtype=bool)
        with np.errstate(divide="ignore", invalid="ignore"):
            r = np.where(np.abs(q) > 0, mag / np.abs(q), np.inf)
        if off.any():
            C = float(np.max(r[off]))
    else:
        a = (al * ga).sum(0); b = ga.sum(0); c = nk.sum()
        mag = (np.abs(al) * (np.abs(nk) @ np.abs(al))).sum(0) + np.abs(nk).sum() + 2 * (np.abs(nk) @ np.abs(al)).sum(0)
        q = a + c - 2 * b
        with np.errstate(divide="ignore", invalid="ignore"):
            r = np.where(np.abs(q) > 0, mag / np.abs(q), np.inf)
        C = float(np.max(r))
    return max(C, 1.0)


def widen(obj, ovo, P, A, eps):
    """Relative widening of float comparisons justified by the conditioning of the computation (1.0 = none);
    returns (extra_rtol, ill) where ill means the case is too ill-conditioned to compare values at all."""
    if obj != "mmd" or A is None:
        return 0.0, False
    C = mmd_condition(np.asarray(P, float), np.asarray(A, float), eps, ovo)
    if not np.isfinite(C):
        return 0.0, True
    extra = 64 * P.shape[0] * 1.2e-16 * C
    return extra, extra > 1e-3


def ref_score_vec(obj, ovo, P, A):
    """Vectorised textbook definitions for large shapes (f-divergences and MMD; the same quantities as ref_score,
    computed with whole-array numpy operations instead of loops over clusters)."""
    n, K = P.shape
    pi = P.mean(0)
    q = P / (n * pi)                       # (n, K): column k is the conditional of cluster k
    p = np.full((n, 1), 1.0 / n)
    if obj in ("kl", "tv", "he", "chi"):
        def dist_cols(a, b):               # a, b broadcastable to (n, ...): distance along axis 0
            if obj == "kl":
                return np.sum(a * np.log(a / b), axis=0)
            if obj == "tv":
                return 0.5 * np.sum(np.abs(a - b), axis=0)
            if obj == "he":
                return 1.0 - np.sum(np.sqrt(a * b), axis=0)
            return np.sum((a - b) ** 2 / b, axis=0)
        if not ovo:
            val = float(np.sum(pi * dist_cols(q, p)))
        else:
            d = dist_cols(q[:, :, None], q[:, None, :])      # (K, K)
            val = float(pi @ d @ pi)
        return (val + 1) / 2 if obj == "chi" else val
    if obj == "mmd":
        if not ovo:
            diff = q - p
            sq = np.einsum("ik,ij,jk->k", diff, A, diff)
            return float(np.sum(pi * np.sqrt(np.maximum(sq, 0))))
        G = q.T @ A @ q
        dg = np.diag(G)
        sq = dg[:, None] + dg[None, :] - 2 * G
        return float(pi @ np.sqrt(np.maximum(sq, 0)) @ pi)
    raise ValueError(obj)
