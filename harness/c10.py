"""C10 — mini-batches partition the data and stay aligned with the affinity matrix."""
import inspect
import itertools
import math
import traceback
import numpy as np
from core import Check, enc_list, enc_opt, hx
import impl
from sklearn.neural_network._stochastic_optimizers import BaseOptimizer


def model_epoch(chk, n, bs, perm):
    t = chk.ask(f"c10.epoch {n} {enc_opt(bs)} {enc_list(perm)}")
    return t.list(lambda: t.list(t.int))


class Budget(Exception):
    """raised by a recording hook when the implementation makes more steps than any terminating run could"""


def rd_idx(t):
    return t.list(t.int)


def code_epoch(chk, n, bs, perm):
    """code model (index arithmetic) with the rules regenerated from the sources: list of (rows, affinity rows, affinity columns) or None"""
    t = chk.ask(f"c10.code_epoch {n} {enc_opt(bs)} {enc_list(perm)}")
    return t.opt(lambda: t.list(lambda: (rd_idx(t), rd_idx(t), rd_idx(t))))


def decode_block(ab, n, scale=1.0):
    """rows / columns of the full tagged affinity (A[i, j] = (i*n + j) * scale) a delivered block was taken from; None if it is not such a block"""
    ab = np.asarray(ab)
    if ab.ndim != 2:
        return None
    v = np.rint(ab / scale).astype(int)
    r = [int(x) // n for x in v[:, 0]] if v.shape[1] else []
    c = [int(x) % n for x in v[0, :]] if v.shape[0] else []
    if v.shape[0] and v.shape[1] and not np.array_equal(v, np.add.outer(np.array(r) * n, np.array(c))):
        return None
    return r, c


def oracle_partition(chk, key, n, bs_eff, batches, replay):
    """L3: the property itself, independent of the model."""
    flat = [i for b in batches for i in b]
    ok = sorted(flat) == list(range(n)) and all(1 <= len(b) <= bs_eff for b in batches) \
        and len(batches) == (math.ceil(n / bs_eff) if n else 0)
    if not ok:
        chk.fail(key + ":partition", "batches are not a partition of the samples into ceil(n/bs) blocks of at most batch_size rows", replay, layer="L3")
    return ok


def tagged(n):
    X = np.arange(n, dtype=float).reshape(-1, 1)
    A = (np.arange(n).reshape(-1, 1) * n + np.arange(n).reshape(1, -1)).astype(float)
    return X, A


def stream_batchify(chk, i, rng):
    names = impl.BATCHED + impl.NONPARAMETRIC
    name = names[i % len(names)]
    n = int(rng.integers(1, 41)) if chk.tier == "quick" else int(rng.integers(1, 120))
    bs = None if rng.random() < 0.15 else int(rng.integers(1, n + 3))
    with_aff = rng.random() < 0.8
    seed = int(rng.integers(0, 2 ** 31 - 1))
    est = impl.make(name, batch_size=bs)
    X, A = tagged(n)
    # at most n batches can be non-empty: a generator that yields more never ends or yields empty batches
    got = list(itertools.islice(est._batchify(X, A if with_aff else None, np.random.RandomState(seed)), 2 * n + 4))
    replay = {"estimator": name, "n": n, "batch_size": bs, "affinity": with_aff, "seed": seed}
    nonpar = name in impl.NONPARAMETRIC
    if nonpar:
        t = chk.ask(f"c10.cat {n}")
        exp = t.list(lambda: t.list(t.int))
    else:
        perm = np.random.RandomState(seed).permutation(n).tolist()
        exp = model_epoch(chk, n, bs, perm)
    got_idx = [[int(v) for v in xb[:, 0]] for xb, _ in got]
    if got_idx != exp:
        chk.fail("batchify:model-mismatch", f"_batchify batches differ from the model: impl={got_idx} model={exp}", replay)
    if not nonpar:
        code = code_epoch(chk, n, bs, perm)
        if code is None:
            chk.fail("batchify:code-model-fuel", "the regenerated code model ran out of fuel (its loop does not terminate within n+1 iterations)", replay)
        else:
            impl_y = []
            for xb, ab in got:
                rc = decode_block(ab, n) if with_aff and ab is not None else None
                impl_y.append(([int(v) for v in xb[:, 0]],) + (tuple(rc) if rc else (None, None)))
            code_y = [(r, ar, ac) if with_aff else (r, None, None) for r, ar, ac in code]
            if impl_y != code_y:
                chk.fail("batchify:code-model-mismatch", f"_batchify (rows, affinity rows, affinity columns) differ from the regenerated code model: impl={impl_y[:4]} model={code_y[:4]}", replay)
    for (xb, ab), idx in zip(got, got_idx):
        if with_aff:
            want = A[np.ix_(idx, idx)] if len(idx) else A[:0, :0]
            if ab is None or ab.shape != want.shape or not np.array_equal(ab, want):
                chk.fail("batchify:block", "affinity block is not the rows and columns of the batch's samples in batch order", dict(replay, batch=idx), layer="L3")
        elif ab is not None:
            chk.fail("batchify:block-none", "an affinity block was delivered although no affinity was given", replay, layer="L3")
    bs_eff = n if (bs is None or nonpar) else bs
    oracle_partition(chk, "batchify", n, bs_eff, got_idx, replay)
    nb = len(got_idx)
    chk.dist[f"batches={min(nb, 5)}{'+' if nb > 5 else ''}"] += 1
    chk.dist["nonparametric" if nonpar else "batched"] += 1
    chk.count((name, n, bs, with_aff) if (nb >= 2 or nonpar) else None)
    chk.sample({"stream": "batchify", **replay, "batches": got_idx[:3]})


def stream_decorated(chk, i, rng):
    name = impl.BATCHED[i % len(impl.BATCHED)]
    n = int(rng.integers(2, 31))
    bs = None if rng.random() < 0.15 else int(rng.integers(1, n + 3))
    seed = int(rng.integers(0, 2 ** 31 - 1))
    est = impl.make(name, batch_size=bs)
    pairs = rng.integers(0, n, size=(3, 2))
    ml = [[int(a), int(b)] for a, b in pairs if a != b][:1]
    cl = [[int(a), int(b)] for a, b in pairs if a != b][1:2]
    try:
        impl.add_mlcl_constraint(est, ml or None, cl or None)
    except ValueError:
        chk.count(None)
        return
    X, A = tagged(n)
    # data rows carry a second tag so that X[subset] (not the index array) is what must come out
    X2 = np.hstack([X, X * 7 + 1])
    perm = np.random.RandomState(seed).permutation(n).tolist()
    t = chk.ask(f"c10.decorated {n} {enc_opt(bs)} {enc_list(perm)}")
    exp = t.list(lambda: (t.list(t.int), t.list(t.int)))
    replay = {"estimator": name, "n": n, "batch_size": bs, "seed": seed, "decorated": True}
    t = chk.ask(f"c10.code_decorated {n} {enc_opt(bs)} {enc_list(perm)}")
    code = t.opt(lambda: t.list(lambda: (rd_idx(t), rd_idx(t), rd_idx(t), rd_idx(t))))
    if code is None:
        chk.fail("decorated:code-model-fuel", "the regenerated code model ran out of fuel", replay)
    got_idx = []
    for j, (xb, ab) in enumerate(itertools.islice(est._batchify(X2, A, np.random.RandomState(seed)), 2 * n + 4)):
        rec = list(est._batchify.indices)
        idx = [int(v) for v in xb[:, 0]]
        got_idx.append(idx)
        if code is not None:
            rc = decode_block(ab, n)
            mine = (rec, idx) + (tuple(rc) if rc else (None, None))
            if j >= len(code) or mine != code[j]:
                chk.fail("decorated:code-model-mismatch", f"decorated batch {j}: (recorded, rows, affinity rows, affinity columns)={mine} "
                         f"regenerated code model={code[j] if j < len(code) else None}", replay)
                code = None
        if j >= len(exp) or rec != exp[j][0] or idx != exp[j][1]:
            chk.fail("decorated:model-mismatch", f"decorated batch {j}: recorded={rec} rows={idx} model={exp[j] if j < len(exp) else None}", replay)
            break
        if not np.array_equal(xb, X2[idx]) or not np.array_equal(ab, A[np.ix_(idx, idx)]):
            chk.fail("decorated:block", "decorated batch rows/affinity block do not belong to the recorded true indices", dict(replay, batch=idx), layer="L3")
    if len(got_idx) != len(exp):
        chk.fail("decorated:model-mismatch", f"decorated epoch has {len(got_idx)} batches, model {len(exp)}", replay)
    oracle_partition(chk, "decorated", n, n if bs is None else bs, got_idx, replay)
    chk.dist["decorated"] += 1
    chk.count(("dec", name, n, bs) if len(got_idx) >= 2 else None)


HERR = []      # exceptions raised by the harness's own recording code during the current case (never raised into the implementation)


def spy(orig, record):
    """Signature-agnostic recording wrapper: forwards *args / **kwargs UNCHANGED to `orig` (positional or keyword calls alike);
    record(values) receives the call's arguments bound against orig's own signature, in the order of its parameters, defaults
    applied (bound methods: without self).  An exception of the recording code is noted in HERR and the call goes on; only
    Budget (a deliberate stop of a run that does not end) is raised."""
    try:
        sig = inspect.signature(orig)
    except (TypeError, ValueError):
        sig = None

    def wrapper(*args, **kwargs):
        try:
            if sig is not None:
                ba = sig.bind(*args, **kwargs)
                ba.apply_defaults()
                record(list(ba.arguments.values()))
            else:
                record(list(args) + list(kwargs.values()))
        except Budget:
            raise
        except Exception:           # a call orig itself will reject also lands here: orig then raises its own error below
            HERR.append(traceback.format_exc(limit=6))
        return orig(*args, **kwargs)
    return wrapper


def guarded(name, fn):
    """A case whose failure comes from the harness's instrumentation must not look like a violation of the property:
    when the instrumented case raises, or its recording code noted an error, the same case is re-run WITHOUT instrumentation;
    if the implementation raises on its own the exception is reported as such (key <stream>:exception:<type>), otherwise the
    case is reported under the key <stream>:harness-error and what the unreliable records suggested is dropped."""
    def g(chk, i, rng):
        del HERR[:]
        nfail = len(chk.failures)
        tb = None
        try:
            fn(chk, i, rng)
        except RuntimeError as e:
            if str(e).startswith("model "):         # the extracted model rejected the request: a failure of the correspondence
                raise
            tb = traceback.format_exc(limit=8)
        except Exception:
            tb = traceback.format_exc(limit=8)
        if tb is None and not HERR:
            return
        fn(chk, i, chk.rng(name, i), instrument=False)      # raises if the implementation itself does: run_stream reports it
        del chk.failures[nfail:]
        chk.fail(f"{name}:harness-error", "the harness's own instrumentation failed on this case (the implementation alone runs it without error): "
                 + (tb or HERR[0]).strip().splitlines()[-1], {"traceback": tb or HERR[0]}, layer="harness")
    return g


def make_recording_gemini(log):
    """GEMINI recording the affinity blocks a model trains / validates with."""
    class RecMMD(impl.G.MMDGEMINI):
        def evaluate(self, *args, **kwargs):
            try:
                ba = inspect.signature(super().evaluate).bind(*args, **kwargs)
                ba.apply_defaults()
                y_pred, affinity, return_grad = list(ba.arguments.values())[:3]
                log.append(("grad" if return_grad else "score", None if affinity is None else np.array(affinity, copy=True), len(y_pred)))
            except Exception:
                HERR.append(traceback.format_exc(limit=6))
            return super().evaluate(*args, **kwargs)
    return RecMMD(kernel="precomputed")


def call_arg(args, kwargs, k, *names):
    """argument k of a call to a stub, however it was spelled (positionally or under one of the library's parameter names)"""
    if len(args) > k:
        return args[k]
    for nm in names:
        if nm in kwargs:
            return kwargs[nm]
    raise TypeError(f"stub called without argument {k} ({'/'.join(names)})")


def tag_rows(Xb):
    """true sample indices of data rows whose first column is index / 8 (exact binary fractions: the tag survives float arithmetic)"""
    return [int(round(v * 8)) for v in np.asarray(Xb)[:, 0]]


def tagged_fit_data(rng, n, d):
    X = rng.normal(size=(n, d))
    X[:, 0] = np.arange(n) / 8.0
    return X, tagged(n)[1] / (n * n)


class FitRun:
    """A real estimator instrumented once (recording GEMINI, _infer, _compute_grads wrapped OUTSIDE any mlcl decoration);
    run(X, A) fits it and verify(...) checks the recorded trace: partition per epoch, step count, block alignment, the
    indices the decorated _compute_grads sees, reference model and regenerated code model."""

    def __init__(self, rng, name, bs, max_iter, solver, decorate_below=None, instrument=True):
        self.name, self.bs, self.max_iter = name, bs, max_iter
        self.log = []
        gem = make_recording_gemini(self.log) if instrument else impl.G.MMDGEMINI(kernel="precomputed")
        self.est = impl.make(name, n_clusters=2, gemini=gem, max_iter=max_iter, batch_size=bs, solver=solver,
                             random_state=int(rng.integers(0, 1000)))
        self.decorated = False
        self.constraints = None
        if decorate_below is not None and decorate_below >= 2:
            pairs = [[int(a), int(b)] for a, b in rng.integers(0, decorate_below, size=(4, 2)) if a != b]
            ml, cl = pairs[:1], pairs[1:2]
            try:
                impl.add_mlcl_constraint(self.est, ml or None, cl or None)
                self.decorated = bool(ml or cl)
                self.constraints = {"must_link": ml, "cannot_link": cl}
            except ValueError:
                pass
        est = self.est
        self.rows, self.grows, self.visible, self.limit = [], [], [], 10 ** 9
        if not instrument:
            return

        def rec_infer(v):                       # _infer(X, retain=True)
            if len(v) < 2 or v[1]:
                self.rows.append(tag_rows(v[0]))
                if len(self.rows) > self.limit:
                    raise Budget()

        def rec_cg(v):                          # _compute_grads(X, y_pred, gradient)
            self.grows.append(tag_rows(v[0]))
            if self.decorated:
                # what the decorated _compute_grads is about to read as "the true indices of this batch"
                self.visible.append([int(k) for k in est._batchify.indices])
        est._infer, est._compute_grads = spy(est._infer, rec_infer), spy(est._compute_grads, rec_cg)

    def run(self, X, A):
        """-> number of optimiser steps, or None if the fit did not end within its budget"""
        n = len(X)
        del self.log[:], self.rows[:], self.grows[:], self.visible[:]
        self.limit = self.max_iter * (n + 1) + 2
        steps = [0]
        orig_up = BaseOptimizer.update_params

        def counting(opt, *args, **kwargs):
            steps[0] += 1
            return orig_up(opt, *args, **kwargs)
        BaseOptimizer.update_params = counting
        try:
            self.est.fit(X, A)
        except Budget:
            return None
        finally:
            BaseOptimizer.update_params = orig_up
        return steps[0]

    def verify(self, chk, key, A, nsteps, replay):
        """-> batches per epoch (for the non-triviality rule)"""
        est, name, bs, max_iter = self.est, self.name, self.bs, self.max_iter
        n = len(A)
        if nsteps is None:
            chk.fail(key + ":steps", "fit made more than max_iter*(n+1) forward passes: the batching loop does not end", replay, layer="L3")
            return 0
        nonpar = name in impl.NONPARAMETRIC
        train_rows = self.rows[:-1]              # the last retained _infer is the labelling pass over X
        blocks = [a for kind, a, m in self.log if kind == "grad"]
        grows = self.grows
        bs_eff = n if (bs is None or nonpar) else bs
        per_epoch = math.ceil(n / bs_eff)
        if self.decorated:
            stale = [(k, v, g) for k, (v, g) in enumerate(zip(self.visible, grows)) if v != g]
            if stale or len(self.visible) != len(grows):
                k, v, g = stale[0] if stale else (len(self.visible), None, None)
                chk.fail(key + ":decorated-indices-stale", f"step {k}: the decorated _compute_grads reads _batchify.indices={v} while the rows of its "
                         f"X_batch are samples {g} ({len(stale)} of {len(grows)} steps)", replay, layer="L3")
        if nsteps != max_iter * per_epoch or len(train_rows) != nsteps or len(blocks) != nsteps:
            chk.fail(key + ":steps", f"fit performed {nsteps} optimiser steps / {len(train_rows)} forward passes, expected max_iter*ceil(n/bs)={max_iter * per_epoch}", replay, layer="L3")
        else:
            epochs_ok = len(grows) == nsteps
            if not epochs_ok:
                chk.fail(key + ":steps", f"_compute_grads was called {len(grows)} times for {nsteps} optimiser steps", replay, layer="L3")
            for e in range(max_iter):
                ep = train_rows[e * per_epoch:(e + 1) * per_epoch]
                perm = [v for b in ep for v in b]
                if not oracle_partition(chk, key, n, bs_eff, ep, dict(replay, epoch=e)):
                    epochs_ok = False
                    break
                if nonpar:
                    t = chk.ask(f"c10.cat {n}")
                    exp = t.list(lambda: t.list(t.int))
                else:
                    exp = model_epoch(chk, n, bs, perm)
                if exp != ep:
                    chk.fail(key + ":model-mismatch", f"epoch {e}: batches {ep} differ from the model's {exp}", replay)
                    break
                for b, blk in zip(ep, blocks[e * per_epoch:(e + 1) * per_epoch]):
                    if not np.array_equal(blk, A[np.ix_(b, b)]):
                        chk.fail(key + ":block", "affinity block used for a training step is not the block of that step's samples", dict(replay, batch=b, epoch=e), layer="L3")
                        break
                if self.decorated and not nonpar and epochs_ok:
                    t = chk.ask(f"c10.code_decorated_visible {n} {enc_opt(bs)} {enc_list(perm)}")
                    code = t.opt(lambda: t.list(lambda: (rd_idx(t), rd_idx(t))))
                    mine = list(zip(self.visible[e * per_epoch:(e + 1) * per_epoch], grows[e * per_epoch:(e + 1) * per_epoch]))
                    if code is not None and [(list(v), list(g)) for v, g in mine] != code:
                        chk.fail(key + ":code-model-visible", f"epoch {e}: (indices visible to _compute_grads, rows of its batch)={mine[:3]}, "
                                 f"regenerated code model {code[:3]}", replay)
            if epochs_ok and not nonpar:
                # the whole trace of optimiser steps against the regenerated code model: what _infer, the GEMINI and _compute_grads read
                perms = [[v for b in train_rows[e * per_epoch:(e + 1) * per_epoch] for v in b] for e in range(max_iter)]
                t = chk.ask(f"c10.code_fit {max_iter} {n} {enc_opt(bs)} {enc_list(perms, enc_list)}")
                t.int()
                code = t.opt(lambda: t.list(lambda: (rd_idx(t), rd_idx(t), rd_idx(t), rd_idx(t))))
                mine = []
                for r, blk, g in zip(train_rows, blocks, grows):
                    rc = decode_block(blk, n, 1.0 / (n * n))
                    mine.append((r,) + (tuple(rc) if rc else (None, None)) + (g,))
                if code is None:
                    chk.fail(key + ":code-model-fuel", "the regenerated code model ran out of fuel", replay)
                elif code != mine:
                    k = next((k for k in range(min(len(code), len(mine))) if code[k] != mine[k]), min(len(code), len(mine)))
                    chk.fail(key + ":code-model-mismatch", f"step {k} of fit reads (infer rows, affinity rows, affinity columns, grads rows)="
                             f"{mine[k] if k < len(mine) else None}, regenerated code model {code[k] if k < len(code) else None} "
                             f"({len(mine)} steps vs {len(code)})", replay)
            chk.traces += 1
        if est.n_iter_ != max_iter:
            chk.fail(key + ":n_iter", f"n_iter_={est.n_iter_} but max_iter={max_iter}", replay, layer="L3")
        mi = chk.ask(f"c10.code_n_iter {max_iter}").int()
        if est.n_iter_ != mi:
            chk.fail(key + ":n_iter-model", f"n_iter_={est.n_iter_} but the regenerated code model says {mi}", replay)
        return per_epoch


def stream_fit(chk, i, rng, instrument=True):
    """A real fit (plain or mlcl-decorated): the recorded sequence of (data rows, affinity block) must be max_iter epochs of the model's batches."""
    names = [k for k in impl.GENERIC_GEMINI]
    name = names[i % len(names)]
    n = int(rng.integers(4, 26))
    d = int(rng.integers(2, 5))
    bs = None if rng.random() < 0.15 else int(rng.integers(1, n + 2))
    max_iter = int(rng.integers(1, 4))
    solver = "sgd" if rng.random() < 0.5 else "adam"
    decorate = (i // len(names)) % 2 == 1
    X, A = tagged_fit_data(rng, n, d)
    run = FitRun(rng, name, bs, max_iter, solver, decorate_below=n if decorate else None, instrument=instrument)
    if not instrument:
        run.est.fit(X, A)
        return
    replay = {"estimator": name, "n": n, "d": d, "batch_size": bs, "max_iter": max_iter, "solver": solver, "decorated": run.decorated,
              "constraints": run.constraints}
    per_epoch = run.verify(chk, "fit", A, run.run(X, A), replay)
    nonpar = name in impl.NONPARAMETRIC
    chk.dist["fit:" + name + ("+mlcl" if run.decorated else "")] += 1
    chk.count(("fit", name, n, bs, max_iter, run.decorated) if per_epoch >= 2 or nonpar else None)


def stream_refit(chk, i, rng, instrument=True):
    """The same estimator object (plain or mlcl-decorated, batched or nonparametric) fitted on n1 samples and then on n2 != n1:
    the second fit must batch the second data set (nothing sized by the first fit may survive)."""
    names = [k for k in impl.GENERIC_GEMINI]
    name = names[i % len(names)]
    n1 = int(rng.integers(4, 22))
    n2 = int(rng.integers(4, 22))
    if n2 == n1:
        n2 = n1 + (3 if rng.random() < 0.5 or n1 < 7 else -3)
    d = int(rng.integers(2, 5))
    bs = None if rng.random() < 0.25 else int(rng.integers(1, min(n1, n2) + 1))
    max_iter = int(rng.integers(1, 3))
    solver = "sgd" if rng.random() < 0.5 else "adam"
    decorate = (i // len(names)) % 2 == 0
    run = FitRun(rng, name, bs, max_iter, solver, decorate_below=min(n1, n2) if decorate else None, instrument=instrument)
    replay = {"estimator": name, "n1": n1, "n2": n2, "d": d, "batch_size": bs, "max_iter": max_iter, "solver": solver,
              "decorated": run.decorated, "constraints": run.constraints}
    X1, A1 = tagged_fit_data(rng, n1, d)
    X2, A2 = tagged_fit_data(rng, n2, d)
    if not instrument:
        run.est.fit(X1, A1)
        run.est.fit(X2, A2)
        return
    if run.run(X1, A1) is None:
        chk.fail("refit:steps", "the first fit did not end within its budget", replay, layer="L3")
        chk.count(None)
        return
    per_epoch = run.verify(chk, "refit", A2, run.run(X2, A2), replay)
    nonpar = name in impl.NONPARAMETRIC
    chk.dist["refit:" + ("grow" if n2 > n1 else "shrink") + (":mlcl" if run.decorated else ":plain") + (":nonpar" if nonpar else "")] += 1
    chk.count(("refit", name, n1, n2, bs, run.decorated) if per_epoch >= 2 or nonpar else None)


def stream_path(chk, i, rng, instrument=True):
    """path(): training epochs use the same batching; validation uses sequential blocks."""
    name = ["SparseLinearModel", "SparseMLPModel"][i % 2]
    n = int(rng.integers(6, 20))
    d = int(rng.integers(3, 6))
    bs = None if rng.random() < 0.2 else int(rng.integers(2, n + 1))
    X = rng.normal(size=(n, d))
    X[:, 0] = np.arange(n) / 8.0
    A = tagged(n)[1] / (n * n)
    log = []
    gem = make_recording_gemini(log) if instrument else impl.G.MMDGEMINI(kernel="precomputed")
    est = impl.make(name, n_clusters=2, gemini=gem, max_iter=2, batch_size=bs, alpha=0.5, random_state=int(rng.integers(0, 1000)))
    replay = {"estimator": name, "n": n, "d": d, "batch_size": bs, "path": True}
    if not instrument:
        est.path(X, A, alpha_multiplier=3.0, min_features=d - 1, max_patience=1)
        return
    tag = tag_rows

    def rec_infer(v):                           # _infer(X, retain=True)
        if len(v) < 2 or v[1]:
            log.append(("infer", tag(v[0]), len(v[0])))
        if len(log) > 200000:
            raise Budget()

    def rec_cg(v):                              # _compute_grads(X, y_pred, gradient)
        log.append(("cg", tag(v[0]), len(v[0])))

    def rec_pp(v):                              # predict_proba(X)
        log.append(("proba", tag(v[0]), len(v[0])))
        if len(log) > 200000:
            raise Budget()
    est._infer, est._compute_grads, est.predict_proba = spy(est._infer, rec_infer), spy(est._compute_grads, rec_cg), spy(est.predict_proba, rec_pp)
    try:
        est.path(X, A, alpha_multiplier=3.0, min_features=d - 1, max_patience=1)
    except Budget:
        chk.fail("path:steps", "path() made more than 200000 forward passes: a batching / validation loop does not end", replay, layer="L3")
        chk.count(None)
        return
    bs_eff = n if bs is None else bs
    # validation calls: maximal runs of score-only evaluations must be the model's sequential blocks
    t = chk.ask(f"c10.val_blocks {n} {bs_eff}")
    vb = t.list(lambda: t.list(t.int))
    t = chk.ask(f"c10.code_val {n} {bs_eff}")
    cvb = t.opt(lambda: t.list(lambda: (rd_idx(t), rd_idx(t), rd_idx(t))))
    if cvb is None:
        chk.fail("path:code-model-fuel", "the regenerated code model of compute_val_score ran out of fuel", replay)
    run, nval, last_rows = [], 0, None
    epochs, cur_epoch, cur_step, seen_score = [], [], [], False
    for kind, a, m in log + [("grad", None, 0)]:
        if kind == "proba":
            last_rows = a
        elif kind == "score":
            seen_score = True
            if cur_epoch:
                epochs.append(cur_epoch)
                cur_epoch = []
            run.append((last_rows, a))
            last_rows = None
            if len(run) == len(vb):
                for b, (xr, blk) in zip(vb, run):
                    if not np.array_equal(blk, A[np.ix_(b, b)]):
                        chk.fail("path:val-block", "validation block is not the sequential block of the model", dict(replay, block=b))
                if cvb is not None:
                    mine = [(xr,) + (tuple(decode_block(blk, n, 1.0 / (n * n)) or (None, None))) for xr, blk in run]
                    if mine != cvb:
                        chk.fail("path:code-model-val", f"validation pass (X rows, y rows, y columns)={mine[:3]} differs from the regenerated code model {cvb[:3]}", replay)
                nval += 1
                run = []
        else:
            if kind == "grad" and run:
                chk.fail("path:val-count", f"a validation pass used {len(run)} blocks, model {len(vb)}", replay)
            if kind == "grad":
                run = []
            if seen_score and a is not None:
                # training steps of the path itself (after the initial fit): infer -> gemini(return_grad) -> compute_grads
                cur_step.append((kind, a))
                if kind == "cg":
                    cur_epoch.append(cur_step)
                    cur_step = []
    for e, ep in enumerate(epochs):
        shape_ok = all([k for k, _ in st] == ["infer", "grad", "cg"] for st in ep)
        if not shape_ok:
            chk.fail("path:step-shape", f"a training step of path() is not _infer -> GEMINI(return_grad) -> _compute_grads: {[[k for k, _ in st] for st in ep][:3]}", replay, layer="L3")
            break
        ep_rows = [st[0][1] for st in ep]
        if not oracle_partition(chk, "path", n, bs_eff, ep_rows, dict(replay, epoch=e)):
            break
        perm = [v for b in ep_rows for v in b]
        for st in ep:
            b = st[0][1]
            if st[2][1] != b or not np.array_equal(st[1][1], A[np.ix_(b, b)]):
                chk.fail("path:block", "a training step of path() does not use the rows / affinity block of its own batch", dict(replay, batch=b, epoch=e), layer="L3")
                break
        t = chk.ask(f"c10.code_path_epoch {n} {enc_opt(bs)} {enc_list(perm)}")
        code = t.opt(lambda: t.list(lambda: (rd_idx(t), rd_idx(t), rd_idx(t), rd_idx(t))))
        mine = [(st[0][1],) + tuple(decode_block(st[1][1], n, 1.0 / (n * n)) or (None, None)) + (st[2][1],) for st in ep]
        if code is None:
            chk.fail("path:code-model-fuel", "the regenerated code model ran out of fuel", replay)
            break
        if code != mine:
            chk.fail("path:code-model-mismatch", f"epoch {e} of path() reads {mine[:3]}, regenerated code model {code[:3]}", replay)
            break
    chk.traces += 1
    chk.dist["path:" + name] += 1
    chk.dist["path-epochs"] += len(epochs)
    chk.count(("path", name, n, bs) if len(vb) >= 2 and nval >= 2 else None)


REPRS = ["c64", "c64", "fortran", "readonly", "view", "float32", "list"]


def represent(M, kind):
    """the same values in another representation (all values are multiples of 1/1024 below 2**14: exact in float32)"""
    M = np.array(M, dtype=np.float64)
    if kind == "fortran":
        return np.asfortranarray(M)
    if kind == "readonly":
        R = M.copy()
        R.setflags(write=False)
        return R
    if kind == "view":                  # non-contiguous view of a larger buffer
        big = np.full((2 * M.shape[0], M.shape[1] + 1), -7.0)
        big[::2, :-1] = M
        return big[::2, :-1]
    if kind == "float32":
        return M.astype(np.float32)
    if kind == "list":
        return M.tolist()
    return M.copy()


def snapshot(R):
    return repr(R) if isinstance(R, list) else (R.dtype.str, R.shape, R.strides, R.tobytes(), bool(R.flags.writeable))


def steps_case(rng, i, tier):
    combos = [("LinearModel", "fit"), ("SparseLinearModel", "path"), ("MLPModel", "fit"), ("SparseMLPModel", "path"),
              ("SparseLinearModel", "fit"), ("SparseLinearModel", "path"), ("SparseMLPModel", "fit"), ("SparseMLPModel", "path")]
    name, mode = combos[i % len(combos)]
    bs_kind = ["none", "n", "n+5", "<n", "1"][(i // len(combos)) % 5]
    decorate = (i // (len(combos) * 5)) % 2 == 0
    n = int(rng.integers(3, 13 if tier == "quick" else 20))
    d = int(rng.integers(3, 6))
    bs = {"none": None, "n": n, "n+5": n + 5, "<n": int(rng.integers(2, n)) if n > 2 else 1, "1": 1}[bs_kind]
    X = rng.integers(-16, 17, size=(n, d)) / 8.0
    X[:, 0] = np.arange(n) / 8.0
    A = tagged(n)[1] / 1024.0           # asymmetric on purpose: a transposed block is visible
    pairs = [[int(a), int(b)] for a, b in rng.integers(0, n, size=(6, 2)) if a != b]
    kind = int(rng.integers(0, 3))
    other = [q for q in pairs[1:] if set(q) != set(pairs[0])][:1] if pairs else []      # a pair cannot be both must-link and cannot-link
    ml, cl = (pairs[:1], []) if kind == 0 else ([], pairs[:1]) if kind == 1 else (pairs[:1], other)
    rx, ra = REPRS[int(rng.integers(0, len(REPRS)))], REPRS[int(rng.integers(0, len(REPRS)))]
    if mode == "path" and ra == "list":
        ra = "c64"      # path(X, y=<list of lists>) raises TypeError on the unchanged tree (compute_val_score slices y[..][:, ..]); reported, not exercised
    return dict(estimator=name, mode=mode, n=n, d=d, batch_size=bs, bs_kind=bs_kind, decorated=decorate and bool(ml or cl),
                must_link=ml, cannot_link=cl, repr_X=rx, repr_A=ra, seed=int(rng.integers(0, 1000)),
                solver="sgd" if rng.random() < 0.5 else "adam"), X, A


def steps_run(case, Xr, Ar, X64, events):
    """fit() or path() of a fresh estimator on (Xr, Ar); events=None: no instrumentation.  -> (estimator, flat final weights)"""
    name, d = case["estimator"], case["d"]
    gem = make_recording_gemini(events) if events is not None else impl.G.MMDGEMINI(kernel="precomputed")
    est = impl.make(name, n_clusters=2, gemini=gem, max_iter=2, batch_size=case["batch_size"], alpha=0.5, solver=case["solver"],
                    random_state=case["seed"])
    if case["decorated"]:
        impl.add_mlcl_constraint(est, case["must_link"] or None, case["cannot_link"] or None)
    if events is not None:
        def rec_infer(v):                       # _infer(X, retain=True)
            if len(v) < 2 or v[1]:
                events.append(("infer", tag_rows(v[0]), None))
            if len(events) > 200000:
                raise Budget()

        def rec_cg(v):                          # _compute_grads(X, y_pred, gradient), wrapped OUTSIDE the mlcl decoration
            r = tag_rows(v[0])
            whole = all(0 <= k < len(X64) for k in r) and np.array_equal(np.asarray(v[0], dtype=float), X64[r])
            vis = [int(k) for k in est._batchify.indices] if case["decorated"] else None
            events.append(("cg", r, (whole, vis)))
        est._infer, est._compute_grads = spy(est._infer, rec_infer), spy(est._compute_grads, rec_cg)
    if case["mode"] == "fit":
        est.fit(Xr, Ar)
        w = est._get_weights()
    else:
        w = est.path(Xr, Ar, alpha_multiplier=3.0, min_features=d - 1, max_patience=1)[0]
    return est, np.concatenate([np.ravel(a) for a in w] + [np.asarray(est.labels_, dtype=float)])


def stream_steps(chk, i, rng, instrument=True):
    """Every optimiser step of fit() AND of path() (which has its own copy of the training loop), plain and mlcl-decorated,
    batch_size in {None, n, n+5, <n, 1}, data / affinity in several representations: the rows handed to _compute_grads, the
    affinity block the GEMINI got and `_batchify.indices` must describe the same samples, every epoch must partition the
    samples, the arguments must come back untouched and another representation of the same values must change nothing."""
    case, X, A = steps_case(rng, i, chk.tier)
    n, bs, mode = case["n"], case["batch_size"], case["mode"]
    Xr, Ar = represent(X, case["repr_X"]), represent(A, case["repr_A"])
    if not instrument:
        steps_run(case, Xr, Ar, X, None)
        return
    replay = dict(case)
    before = snapshot(Xr), snapshot(Ar)
    events = []
    try:
        est, out = steps_run(case, Xr, Ar, X, events)
    except Budget:
        chk.fail("steps:count", f"{mode}() made more than 200000 calls: a batching loop does not end", replay, layer="L3")
        chk.count(None)
        return
    if (snapshot(Xr), snapshot(Ar)) != before:
        chk.fail("steps:argument-modified", f"{mode}() modified its {'X' if snapshot(Xr) != before[0] else 'affinity'} argument in place", replay, layer="L3")
    if (case["repr_X"], case["repr_A"]) != ("c64", "c64"):
        _, ref = steps_run(case, X.copy(), A.copy(), X, None)
        # a float32 affinity is used as given (the GEMINI then computes in single precision): float32 resolution there,
        # bit-for-bit everywhere else (X is converted to float64 on entry, the values are exactly representable)
        f32 = case["repr_A"] == "float32"
        nl = n if f32 else 0                     # labels can flip at a near tie under single precision: weights only
        same = ref.shape == out.shape and (np.allclose(ref[:len(ref) - nl], out[:len(out) - nl], rtol=1e-3, atol=1e-4) if f32 else np.array_equal(ref, out))
        if not same:
            chk.fail("steps:representation", f"{mode}() on X as {case['repr_X']} / affinity as {case['repr_A']} ends with other weights or labels than on "
                     f"float64 C-contiguous arrays holding the same values (max difference "
                     f"{float(np.abs(ref - out).max()) if ref.shape == out.shape else 'shape'})", replay, layer="L3")
    # the optimiser steps: retained _infer -> GEMINI(return_grad=True) -> _compute_grads
    steps, cur = [], None
    for kind, a, extra in events:
        if kind == "infer":
            cur = {"rows": a}
        elif kind == "grad" and cur is not None and "block" not in cur:
            cur["block"] = a
        elif kind == "cg":
            if cur is None or "block" not in cur:
                chk.fail("steps:shape", f"_compute_grads of {mode}() was not preceded by a retained forward pass and a GEMINI gradient", replay, layer="L3")
                chk.count(None)
                return
            cur["cg"], (cur["whole"], cur["visible"]) = a, extra
            steps.append(cur)
            cur = None
    bs_eff = n if bs is None else bs
    per_epoch = math.ceil(n / bs_eff)
    if len(steps) % per_epoch or not steps or (mode == "fit" and len(steps) != 2 * per_epoch):
        chk.fail("steps:count", f"{mode}() made {len(steps)} optimiser steps, not a multiple of ceil(n/batch_size)={per_epoch}"
                 + (" (max_iter=2)" if mode == "fit" else ""), replay, layer="L3")
        chk.count(None)
        return
    for k, st in enumerate(steps):
        r = st["rows"]
        if st["cg"] != r or not st["whole"]:
            chk.fail("steps:rows", f"step {k} of {mode}(): _compute_grads got rows of samples {st['cg']} (complete rows of X: {st['whole']}) "
                     f"after a forward pass on samples {r}", replay, layer="L3")
            break
        if st["block"] is None or st["block"].shape != (len(r), len(r)) or not np.array_equal(st["block"], A[np.ix_(r, r)]):
            chk.fail("steps:block", f"step {k} of {mode}(): the affinity block is not affinity[rows][:, rows] of the step's samples {r} "
                     f"(decoded rows/columns: {decode_block(st['block'], n, 1 / 1024.0) if st['block'] is not None else None})", replay, layer="L3")
            break
        if case["decorated"] and st["visible"] != r:
            chk.fail("steps:indices-stale", f"step {k} of {mode}() (batch_size={bs}, n={n}): the decorated _compute_grads reads _batchify.indices="
                     f"{st['visible']} while the rows of its X_batch are samples {r}: the must-link / cannot-link terms hit the wrong rows", replay, layer="L3")
            break
    else:
        for e in range(len(steps) // per_epoch):
            ep = steps[e * per_epoch:(e + 1) * per_epoch]
            ep_rows = [st["rows"] for st in ep]
            if not oracle_partition(chk, "steps", n, bs_eff, ep_rows, dict(replay, epoch=e)):
                break
            perm = [v for b in ep_rows for v in b]
            exp = model_epoch(chk, n, bs, perm)
            if exp != ep_rows:
                chk.fail("steps:model-mismatch", f"epoch {e} of {mode}(): batches {ep_rows} differ from the model's {exp}", replay)
                break
            code = code_epoch(chk, n, bs, perm)
            mine = [(st["rows"],) + tuple(decode_block(st["block"], n, 1 / 1024.0) or (None, None)) for st in ep]
            if code is not None and code != mine:
                chk.fail("steps:code-model-mismatch", f"epoch {e} of {mode}(): (rows, affinity rows, affinity columns)={mine[:3]}, regenerated code model {code[:3]}", replay)
                break
        chk.traces += 1
    chk.dist[f"steps:{mode}:{'mlcl' if case['decorated'] else 'plain'}:bs={case['bs_kind']}"] += 1
    chk.dist[f"steps:repr:{case['repr_X']}/{case['repr_A']}"] += 1
    chk.count(("steps", case["estimator"], mode, n, case["bs_kind"], case["decorated"], case["repr_X"], case["repr_A"]))
    chk.sample({"stream": "steps", **{k: case[k] for k in ("estimator", "mode", "n", "batch_size", "decorated", "repr_X", "repr_A")},
                "steps": len(steps), "first": steps[0]["rows"]}, limit=8)


def stream_valscore(chk, i, rng):
    """compute_val_score called directly with stub estimator / objective: blocks, weighting, normalisation."""
    from gemclus.sparse._base_sparse import compute_val_score
    n = int(rng.integers(1, 31)) if chk.tier == "quick" else int(rng.integers(1, 80))
    d = int(rng.integers(1, 4))
    bs = None if rng.random() < 0.15 else int(rng.integers(1, n + 3))
    with_y = bool(rng.random() < 0.6)
    dynamic = bool(rng.random() < 0.5)
    sel = [0] + [int(c) for c in range(1, d + 1) if rng.random() < 0.5]
    if rng.random() < 0.2:
        sel = []
    sc = rng.normal(size=n)
    if rng.random() < 0.2:
        sc[:] = float(rng.normal())        # equal block scores: the result must be that score whatever the block sizes
    X = np.hstack([np.arange(n, dtype=float).reshape(-1, 1), rng.normal(size=(n, d))])
    A = tagged(n)[1]
    seen = []

    class Clf:
        alpha = 0.5

        def _group_lasso_penalty(self):
            return 1.5

        def get_selection(self):
            return np.array(sel, dtype=int)

        def predict_proba(self, *args, **kwargs):
            return np.asarray(call_arg(args, kwargs, 0, "X"))[:, :1]        # carries the row tags to the objective
    clf = Clf()
    clf.dynamic = dynamic

    class Gem:
        def compute_affinity(self, *args, **kwargs):
            r = [int(v) for v in np.asarray(call_arg(args, kwargs, 0, "X"))[:, 0]]
            return A[np.ix_(r, r)]

        def __call__(self, *args, **kwargs):
            y_pred, affinity = call_arg(args, kwargs, 0, "y_pred"), call_arg(args, kwargs, 1, "affinity", "distance")
            r = [int(v) for v in np.asarray(y_pred)[:, 0]]
            seen.append((r, decode_block(affinity, n)))
            if len(seen) > 2 * n + 4:
                raise Budget()
            return float(sc[r[0]]) if r else 0.0
    bs_eff = bs if bs is not None else len(X)       # as _run_path passes it (checked on real path() runs by the path stream)
    replay = {"n": n, "d": d, "batch_size": bs, "with_y": with_y, "dynamic": dynamic, "selection": sel, "scores": [float(v) for v in sc]}
    try:
        val, l1 = compute_val_score(clf, X, A if with_y else None, bs_eff, Gem())
    except Budget:
        chk.fail("valscore:blocks", "compute_val_score evaluated more than 2n+4 blocks: its loop does not end", replay, layer="L3")
        chk.count(None)
        return
    val = float(val)
    # L3: the property itself, independently of the model
    blocks = [list(range(j, min(j + bs_eff, n))) for j in range(0, n, bs_eff)]
    want = sum(float(sc[b[0]]) * len(b) for b in blocks) / n
    if [r for r, _ in seen] != blocks:
        chk.fail("valscore:blocks", f"validation rows {[r for r, _ in seen][:4]} are not the sequential blocks {blocks[:4]}", replay, layer="L3")
    elif any(rc is None or list(rc[0]) != b or list(rc[1]) != b for (r, rc), b in zip(seen, blocks)):
        chk.fail("valscore:affinity-block", "the affinity of a validation block is not the rows and columns of that block", replay, layer="L3")
    if not abs(val - want) <= 1e-9 * (1 + abs(want) + float(np.abs(sc).max())):
        chk.fail("valscore:weighted-mean", f"validation score {val!r} is not the len-weighted mean of the block scores {want!r}", replay, layer="L3")
    if l1 != 1.5 * 0.5:
        chk.fail("valscore:l1", f"validation_l1={l1!r} is not penalty*alpha", replay, layer="L3")
    # L2: the regenerated code model
    t = chk.ask(f"c10.code_val {n} {bs_eff}")
    cvb = t.opt(lambda: t.list(lambda: (rd_idx(t), rd_idx(t), rd_idx(t))))
    t = chk.ask(f"c10.code_path_val_score {n} {enc_opt(bs)} {enc_list([float(v) for v in sc], hx)}")
    mval = t.opt(t.float)
    if cvb is None or mval is None:
        chk.fail("valscore:code-model-fuel", "the regenerated code model of compute_val_score ran out of fuel", replay)
    else:
        mine = [(r,) + (tuple(rc) if rc else (None, None)) for r, rc in seen]
        theirs = cvb if with_y else [(xr, xr, xr) for xr, _, _ in cvb]     # without y the affinity is computed from X_batch itself
        if mine != theirs:
            chk.fail("valscore:code-model-blocks", f"(X rows, y rows, y columns)={mine[:3]} differ from the regenerated code model {theirs[:3]}", replay)
        if not abs(val - mval) <= 1e-9 * (1 + abs(mval) + float(np.abs(sc).max())):
            chk.fail("valscore:code-model-score", f"validation score {val!r}, regenerated code model {mval!r}", replay)
    uneven = len(blocks) >= 2 and len(blocks[-1]) != len(blocks[0])
    chk.dist["valscore:" + ("uneven" if uneven else "even" if len(blocks) >= 2 else "one-block")] += 1
    chk.count(("val", n, bs, with_y, dynamic) if len(blocks) >= 2 else None)
    chk.sample({"stream": "valscore", "n": n, "batch_size": bs, "blocks": blocks[:3], "score": val}, limit=6)


STREAMS = {"batchify": (stream_batchify, 340, 3000), "decorated": (stream_decorated, 140, 1000),
           "fit": (guarded("fit", stream_fit), 60, 480), "refit": (guarded("refit", stream_refit), 48, 360),
           "path": (guarded("path", stream_path), 8, 60), "steps": (guarded("steps", stream_steps), 80, 640), "valscore": (stream_valscore, 200, 2000)}


def main():
    chk = Check("C10")
    chk.build()
    chk.proofs()
    if chk.replay_path:
        rp = __import__("json").load(open(chk.replay_path))
        st, case = rp["input"].get("stream"), rp["input"].get("case")
        chk.seed = rp.get("seed", chk.seed)
        if st in STREAMS:
            chk.run_stream(st, STREAMS[st][0], 0, only=case)
    else:
        for name, (fn, q, th) in STREAMS.items():
            cnt = q if chk.tier == "quick" else th
            if chk.l1_broken:
                cnt *= 3       # proof obligation broken: widen the failing-input search
            chk.run_stream(name, fn, cnt)
    chk.finish(rule="streams: direct _batchify on every batched/nonparametric estimator with index-tagged data and affinity (n<=40 quick, <=120 thorough, "
                    "batch_size in 1..n+2/None), mlcl-decorated _batchify, real fits (plain and mlcl-decorated) with recorded forward passes / affinity blocks / optimiser steps / "
                    "the indices the decorated _compute_grads sees, the same estimator refitted on a data set of another size, "
                    "real path() runs with recorded validation blocks and training steps, every optimiser step of fit() and path() of plain / mlcl-decorated "
                    "linear, MLP and sparse models with batch_size None / n / n+5 / <n / 1 and data in several representations (rows, affinity block and "
                    "_batchify.indices aligned; partition per epoch; arguments untouched; same result as on float64 C arrays), compute_val_score called directly with stub estimator/objective "
                    "(blocks, len-weighted mean); every stream also against the code model instantiated with the rules regenerated from the sources. non-trivial = at least two batches per epoch (or a nonparametric full-batch case); "
                    "distinct = distinct (estimator, n, batch_size, ...) signature")


if __name__ == "__main__":
    main()
