"""C10 — mini-batches partition the data and stay aligned with the affinity matrix."""
import math
import numpy as np
from core import Check, enc_list, enc_opt
import impl
from sklearn.neural_network._stochastic_optimizers import BaseOptimizer


def model_epoch(chk, n, bs, perm):
    t = chk.ask(f"c10.epoch {n} {enc_opt(bs)} {enc_list(perm)}")
    return t.list(lambda: t.list(t.int))


def oracle_partition(chk, key, n, bs_eff, batches, replay):
    """L3: the property itself, independent of the model."""
    flat = [i for b in batches for i in b]
    ok = sorted(flat) == list(range(n)) and all(1 <= len(b) <= bs_eff for b in batches) \
        and len(batches) == (math.ceil(n / bs_eff) if n else 0)
    if not ok:
        chk.fail(key + ":partition", "batches are not a partition of the samples into ceil(n/bs) blocks of at most batch_size rows", replay, layer="L3")
    return ok


def tagged(n):
    X = np.arange(n, dtype=float).reshape(-1, 1)
    A = (np.arange(n).reshape(-1, 1) * n + np.arange(n).reshape(1, -1)).astype(float)
    return X, A


def stream_batchify(chk, i, rng):
    names = impl.BATCHED + impl.NONPARAMETRIC
    name = names[i % len(names)]
    n = int(rng.integers(1, 41)) if chk.tier == "quick" else int(rng.integers(1, 120))
    bs = None if rng.random() < 0.15 else int(rng.integers(1, n + 3))
    with_aff = rng.random() < 0.8
    seed = int(rng.integers(0, 2 ** 31 - 1))
    est = impl.make(name, batch_size=bs)
    X, A = tagged(n)
    got = list(est._batchify(X, A if with_aff else None, np.random.RandomState(seed)))
    replay = {"estimator": name, "n": n, "batch_size": bs, "affinity": with_aff, "seed": seed}
    nonpar = name in impl.NONPARAMETRIC
    if nonpar:
        t = chk.ask(f"c10.cat {n}")
        exp = t.list(lambda: t.list(t.int))
    else:
        perm = np.random.RandomState(seed).permutation(n).tolist()
        exp = model_epoch(chk, n, bs, perm)
    got_idx = [[int(v) for v in xb[:, 0]] for xb, _ in got]
    if got_idx != exp:
        chk.fail("batchify:model-mismatch", f"_batchify batches differ from the model: impl={got_idx} model={exp}", replay)
    for (xb, ab), idx in zip(got, got_idx):
        if with_aff:
            want = A[np.ix_(idx, idx)] if len(idx) else A[:0, :0]
            if ab is None or ab.shape != want.shape or not np.array_equal(ab, want):
                chk.fail("batchify:block", "affinity block is not the rows and columns of the batch's samples in batch order", dict(replay, batch=idx), layer="L3")
        elif ab is not None:
            chk.fail("batchify:block-none", "an affinity block was delivered although no affinity was given", replay, layer="L3")
    bs_eff = n if (bs is None or nonpar) else bs
    oracle_partition(chk, "batchify", n, bs_eff, got_idx, replay)
    nb = len(got_idx)
    chk.dist[f"batches={min(nb, 5)}{'+' if nb > 5 else ''}"] += 1
    chk.dist["nonparametric" if nonpar else "batched"] += 1
    chk.count((name, n, bs, with_aff) if (nb >= 2 or nonpar) else None)
    chk.sample({"stream": "batchify", **replay, "batches": got_idx[:3]})


def stream_decorated(chk, i, rng):
    name = impl.BATCHED[i % len(impl.BATCHED)]
    n = int(rng.integers(2, 31))
    bs = None if rng.random() < 0.15 else int(rng.integers(1, n + 3))
    seed = int(rng.integers(0, 2 ** 31 - 1))
    est = impl.make(name, batch_size=bs)
    pairs = rng.integers(0, n, size=(3, 2))
    ml = [[int(a), int(b)] for a, b in pairs if a != b][:1]
    cl = [[int(a), int(b)] for a, b in pairs if a != b][1:2]
    try:
        impl.add_mlcl_constraint(est, ml or None, cl or None)
    except ValueError:
        chk.count(None)
        return
    X, A = tagged(n)
    # data rows carry a second tag so that X[subset] (not the index array) is what must come out
    X2 = np.hstack([X, X * 7 + 1])
    perm = np.random.RandomState(seed).permutation(n).tolist()
    t = chk.ask(f"c10.decorated {n} {enc_opt(bs)} {enc_list(perm)}")
    exp = t.list(lambda: (t.list(t.int), t.list(t.int)))
    replay = {"estimator": name, "n": n, "batch_size": bs, "seed": seed, "decorated": True}
    got_idx = []
    for j, (xb, ab) in enumerate(est._batchify(X2, A, np.random.RandomState(seed))):
        rec = list(est._batchify.indices)
        idx = [int(v) for v in xb[:, 0]]
        got_idx.append(idx)
        if j >= len(exp) or rec != exp[j][0] or idx != exp[j][1]:
            chk.fail("decorated:model-mismatch", f"decorated batch {j}: recorded={rec} rows={idx} model={exp[j] if j < len(exp) else None}", replay)
            break
        if not np.array_equal(xb, X2[idx]) or not np.array_equal(ab, A[np.ix_(idx, idx)]):
            chk.fail("decorated:block", "decorated batch rows/affinity block do not belong to the recorded true indices", dict(replay, batch=idx), layer="L3")
    if len(got_idx) != len(exp):
        chk.fail("decorated:model-mismatch", f"decorated epoch has {len(got_idx)} batches, model {len(exp)}", replay)
    oracle_partition(chk, "decorated", n, n if bs is None else bs, got_idx, replay)
    chk.dist["decorated"] += 1
    chk.count(("dec", name, n, bs) if len(got_idx) >= 2 else None)


class _Rec:
    """GEMINI wrapper recording the affinity blocks a model trains / validates with."""


def make_recording_gemini(log):
    class RecMMD(impl.G.MMDGEMINI):
        def evaluate(self, y_pred, affinity, return_grad=False):
            log.append(("grad" if return_grad else "score", None if affinity is None else np.array(affinity, copy=True), len(y_pred)))
            return super().evaluate(y_pred, affinity, return_grad)
    return RecMMD(kernel="precomputed")


def stream_fit(chk, i, rng):
    """A real fit: the recorded sequence of (data rows, affinity block) must be max_iter epochs of the model's batches."""
    names = [k for k in impl.GENERIC_GEMINI]
    name = names[i % len(names)]
    n = int(rng.integers(4, 26))
    d = int(rng.integers(2, 5))
    bs = None if rng.random() < 0.15 else int(rng.integers(1, n + 2))
    max_iter = int(rng.integers(1, 4))
    solver = "sgd" if rng.random() < 0.5 else "adam"
    X = rng.normal(size=(n, d))
    X[:, 0] = np.arange(n) / 8.0       # exact binary fractions: the tag survives float arithmetic
    A = tagged(n)[1] / (n * n)
    log = []
    gem = make_recording_gemini(log)
    kw = dict(n_clusters=2, gemini=gem, max_iter=max_iter, batch_size=bs, solver=solver, random_state=int(rng.integers(0, 1000)))
    if name == "Douglas":
        kw["gemini"] = gem
    est = impl.make(name, **kw)
    rows = []
    steps = [0]
    orig_infer = est._infer

    def rec_infer(Xb, retain=True):
        if retain:
            rows.append([int(round(v * 8)) for v in np.asarray(Xb)[:, 0]])
        return orig_infer(Xb, retain) if name != "Douglas" or True else None
    est._infer = rec_infer
    orig_up = BaseOptimizer.update_params

    def counting(self, params, grads):
        steps[0] += 1
        return orig_up(self, params, grads)
    BaseOptimizer.update_params = counting
    replay = {"estimator": name, "n": n, "d": d, "batch_size": bs, "max_iter": max_iter, "solver": solver}
    try:
        est.fit(X, A)
    finally:
        BaseOptimizer.update_params = orig_up
    nonpar = name in impl.NONPARAMETRIC
    train_rows = rows[:-1]              # the last retained _infer is the labelling pass over X
    blocks = [a for kind, a, m in log if kind == "grad"]
    bs_eff = n if (bs is None or nonpar) else bs
    per_epoch = math.ceil(n / bs_eff)
    if steps[0] != max_iter * per_epoch or len(train_rows) != steps[0] or len(blocks) != steps[0]:
        chk.fail("fit:steps", f"fit performed {steps[0]} optimiser steps / {len(train_rows)} forward passes, expected max_iter*ceil(n/bs)={max_iter * per_epoch}", replay, layer="L3")
    else:
        for e in range(max_iter):
            ep = train_rows[e * per_epoch:(e + 1) * per_epoch]
            perm = [v for b in ep for v in b]
            if not oracle_partition(chk, "fit", n, bs_eff, ep, dict(replay, epoch=e)):
                break
            if nonpar:
                t = chk.ask(f"c10.cat {n}")
                exp = t.list(lambda: t.list(t.int))
            else:
                exp = model_epoch(chk, n, bs, perm)
            if exp != ep:
                chk.fail("fit:model-mismatch", f"epoch {e}: batches {ep} differ from the model's {exp}", replay)
                break
            for b, blk in zip(ep, blocks[e * per_epoch:(e + 1) * per_epoch]):
                if not np.array_equal(blk, A[np.ix_(b, b)]):
                    chk.fail("fit:block", "affinity block used for a training step is not the block of that step's samples", dict(replay, batch=b, epoch=e), layer="L3")
                    break
        chk.traces += 1
    if est.n_iter_ != max_iter:
        chk.fail("fit:n_iter", f"n_iter_={est.n_iter_} but max_iter={max_iter}", replay, layer="L3")
    chk.dist["fit:" + name] += 1
    chk.count(("fit", name, n, bs, max_iter) if per_epoch >= 2 or nonpar else None)


def stream_path(chk, i, rng):
    """path(): training epochs use the same batching; validation uses sequential blocks."""
    name = ["SparseLinearModel", "SparseMLPModel"][i % 2]
    n = int(rng.integers(6, 20))
    d = int(rng.integers(3, 6))
    bs = None if rng.random() < 0.2 else int(rng.integers(2, n + 1))
    X = rng.normal(size=(n, d))
    X[:, 0] = np.arange(n) / 8.0
    A = tagged(n)[1] / (n * n)
    log = []
    gem = make_recording_gemini(log)
    est = impl.make(name, n_clusters=2, gemini=gem, max_iter=2, batch_size=bs, alpha=0.5, random_state=int(rng.integers(0, 1000)))
    replay = {"estimator": name, "n": n, "d": d, "batch_size": bs, "path": True}
    est.path(X, A, alpha_multiplier=3.0, min_features=d - 1, max_patience=1)
    bs_eff = n if bs is None else bs
    # validation calls: maximal runs of score-only evaluations must be the model's sequential blocks
    t = chk.ask(f"c10.val_blocks {n} {bs_eff}")
    vb = t.list(lambda: t.list(t.int))
    run, nval = [], 0
    for kind, a, m in log + [("grad", None, 0)]:
        if kind == "score":
            run.append(a)
            if len(run) == len(vb):
                for b, blk in zip(vb, run):
                    if not np.array_equal(blk, A[np.ix_(b, b)]):
                        chk.fail("path:val-block", "validation block is not the sequential block of the model", dict(replay, block=b))
                nval += 1
                run = []
        else:
            if run:
                chk.fail("path:val-count", f"a validation pass used {len(run)} blocks, model {len(vb)}", replay)
            run = []
    chk.traces += 1
    chk.dist["path:" + name] += 1
    chk.count(("path", name, n, bs) if len(vb) >= 2 and nval >= 2 else None)


STREAMS = {"batchify": (stream_batchify, 340, 3000), "decorated": (stream_decorated, 140, 1000),
           "fit": (stream_fit, 48, 400), "path": (stream_path, 8, 60)}


def main():
    chk = Check("C10")
    chk.build()
    chk.proofs()
    if chk.replay_path:
        rp = __import__("json").load(open(chk.replay_path))
        st, case = rp["input"].get("stream"), rp["input"].get("case")
        chk.seed = rp.get("seed", chk.seed)
        if st in STREAMS:
            chk.run_stream(st, STREAMS[st][0], 0, only=case)
    else:
        for name, (fn, q, th) in STREAMS.items():
            cnt = q if chk.tier == "quick" else th
            if chk.l1_broken:
                cnt *= 3       # proof obligation broken: widen the failing-input search
            chk.run_stream(name, fn, cnt)
    chk.finish(rule="streams: direct _batchify on every batched/nonparametric estimator with index-tagged data and affinity (n<=40 quick, <=120 thorough, "
                    "batch_size in 1..n+2/None), mlcl-decorated _batchify, real fits with recorded forward passes / affinity blocks / optimiser steps, "
                    "real path() runs with recorded validation blocks. non-trivial = at least two batches per epoch (or a nonparametric full-batch case); "
                    "distinct = distinct (estimator, n, batch_size, ...) signature")


if __name__ == "__main__":
    main()
