"""C19 — the printed KAURI tree is a faithful description of the fitted tree.

L2: stdout of print_kauri_tree, tokenised by a small lexer, is compared token-for-token with the
    extracted model's `print_kauri_tree` run on the fitted `tree_` arrays (thresholds as hex floats);
    the model's `read_back`/`predict` are compared with Kauri.predict; Tree._add_child is compared
    with the model's `build`.
L3: an independent stack-based reader of the raw text is applied to points (training, fresh, exactly
    on thresholds, one ulp around them) and compared with predict; named prints are compared line
    by line with the default print (the name at the feature's index); too few names / unfitted /
    foreign objects must be refused with nothing printed.
"""
import io, re, json, contextlib, math
import numpy as np
from core import Check, enc_list, enc_opt, hx
import impl
from sklearn.exceptions import NotFittedError
from gemclus.tree import Kauri, print_kauri_tree
from gemclus.tree.kauri import Tree
from gemclus.tree._utils import Split


# ------------------------------------------------------------------ running the implementation
def run_print(obj, names="__absent__"):
    """-> ('P', text) or ('E', kind, class name, text printed before the exception)"""
    buf = io.StringIO()
    try:
        with contextlib.redirect_stdout(buf):
            if isinstance(names, str) and names == "__absent__":
                print_kauri_tree(obj)
            else:
                print_kauri_tree(obj, names)
    except Exception as e:  # noqa
        return ("E", err_kind(e), type(e).__name__, buf.getvalue())
    return ("P", buf.getvalue())


def err_kind(e):
    if isinstance(e, NotFittedError):
        return "ENF"
    if isinstance(e, ValueError) and isinstance(e, TypeError):
        return "EP"
    if type(e) is ValueError:
        return "EN"
    if isinstance(e, (ValueError, TypeError)):
        return "VT:" + type(e).__name__
    return "other:" + type(e).__name__


# ------------------------------------------------------------------ lexer (trusted, DESIGN §3)
RE_NODE = re.compile(r"^((?:\| )*)Node (\d+)$")
RE_CLUS = re.compile(r"^((?:\| )*) Cluster: (\d+)$")
RE_RULE = re.compile(r"^((?:\| )*)\|=(.*) (<=|>) (\S+)$")
RE_DEFAULT = re.compile(r"^X\[:, (\d+)\]$")


class LexError(Exception):
    pass


def lex(text, named):
    if text and not text.endswith("\n"):
        raise LexError("text does not end with a newline")
    toks = []
    for line in text.split("\n")[:-1]:
        m = RE_NODE.match(line)
        if m:
            toks.append(("N", len(m.group(1)) // 2, int(m.group(2))))
            continue
        m = RE_CLUS.match(line)
        if m:
            toks.append(("C", len(m.group(1)) // 2, int(m.group(2))))
            continue
        m = RE_RULE.match(line)
        if m:
            lab = m.group(2)
            if not named:
                md = RE_DEFAULT.match(lab)
                if not md:
                    raise LexError(f"default label expected, got {lab!r}")
                lab = ("I", int(md.group(1)))
            else:
                lab = ("M", lab)
            toks.append(("R", len(m.group(1)) // 2, lab, m.group(4), "LE" if m.group(3) == "<=" else "GT"))
            continue
        raise LexError(f"unrecognised line {line!r}")
    return toks


# ------------------------------------------------------------------ model side
def enc_tree(t):
    return " ".join([
        str(int(t.n_nodes)),
        enc_list(int(v) for v in t.children_left), enc_list(int(v) for v in t.children_right),
        enc_list(t.features, lambda v: "N" if v is None else f"S {int(v)}"),
        enc_list(t.thresholds, lambda v: "N" if v is None else "S " + hx(v)),
        enc_list(int(v) for v in t.target), enc_list(int(v) for v in t.depths)])


def name_codes(names):
    """one integer code per distinct printed name (first position of that name)"""
    strs = [str(v) for v in names]
    return [strs.index(s) for s in strs], strs


def model_print(chk, objtag, names_enc):
    t = chk.ask(f"c19.print {objtag} {names_enc}")
    tag = t.next()
    if tag != "P":
        return (tag,)
    def tok():
        k = t.next()
        if k == "N":
            return ("N", t.int(), t.int())
        if k == "C":
            return ("C", t.int(), t.int())
        d = t.int()
        lk = t.next()
        lab = (lk, t.int())
        return ("R", d, lab, t.float(), t.next())
    return ("P", t.list(tok))


def tree_dict(t):
    return {"n_nodes": int(t.n_nodes), "children_left": [int(v) for v in t.children_left],
            "children_right": [int(v) for v in t.children_right],
            "features": [None if v is None else int(v) for v in t.features],
            "thresholds": [None if v is None else float(v).hex() for v in t.thresholds],
            "target": [int(v) for v in t.target], "depths": [int(v) for v in t.depths]}


# ------------------------------------------------------------------ independent reader (L3)
class ReadError(Exception):
    pass


def read_text(text):
    """Stack-based reader of the raw text using the '| ' prefixes only.  Returns the root node:
    leaf = {'id','cluster'}, split = {'id','label','thr','left','right'} (thr kept as text)."""
    root = None
    stack = []          # open split nodes, each waiting for its left or right subtree
    cur = None          # the node whose header line was just read
    for line in text.split("\n")[:-1]:
        d = 0
        while line.startswith("| ", 2 * d):
            d += 1
        body = line[2 * d:]
        if body.startswith("Node "):
            if cur is not None:
                raise ReadError("node header without content before " + line)
            cur = {"id": int(body[5:]), "depth": d}
            if not stack:
                if root is not None or d != 0:
                    raise ReadError("second root or indented root")
                root = cur
            else:
                par = stack[-1]
                if par["depth"] + 1 != d:
                    raise ReadError("child not one level below its rule")
                if par["wait"] == "left":
                    par["left"] = cur
                elif par["wait"] == "right":
                    par["right"] = cur
                else:
                    raise ReadError("node where a rule line was expected")
                par["wait"] = None
        elif body.startswith(" Cluster: "):
            if cur is None or cur["depth"] != d:
                raise ReadError("cluster line without its node header")
            cur["cluster"] = int(body[10:])
            cur = None
            while stack and stack[-1]["wait"] is None and "right" in stack[-1]:
                stack.pop()
        elif body.startswith("|="):
            rule = body[2:]
            k1, k2 = rule.rfind(" <= "), rule.rfind(" > ")
            if k1 > k2:
                op, lab, thr = "<=", rule[:k1], rule[k1 + 4:]
            elif k2 >= 0:
                op, lab, thr = ">", rule[:k2], rule[k2 + 3:]
            else:
                raise ReadError("rule line without comparison")
            if op == "<=":
                if cur is None or cur["depth"] != d:
                    raise ReadError("'<=' rule without its node header")
                cur.update(label=lab, thr=thr, wait="left")
                stack.append(cur)
                cur = None
            else:
                if cur is not None or not stack:
                    raise ReadError("'>' rule in the wrong place")
                par = stack[-1]
                if par["depth"] != d or "left" not in par or "right" in par or par["wait"] is not None:
                    raise ReadError("'>' rule does not close a '<=' rule of the same depth")
                if par["label"] != lab or par["thr"] != thr:
                    raise ReadError("'>' rule differs from its '<=' rule")
                par["wait"] = "right"
        else:
            raise ReadError("unreadable line " + repr(line))
    if root is None or stack or cur is not None:
        raise ReadError("incomplete tree")
    return root


def rule_nodes(node, acc=None):
    acc = [] if acc is None else acc
    if "cluster" not in node:
        acc.append(node)
        rule_nodes(node["left"], acc)
        rule_nodes(node["right"], acc)
    return acc


def apply_rules(root, x, resolve):
    node = root
    while "cluster" not in node:
        v, thr = x[resolve(node["label"])], float(node["thr"])
        if v <= thr:
            node = node["left"]
        elif v > thr:
            node = node["right"]
        else:
            raise ReadError("point satisfies neither rule")
    return node["cluster"]


def resolve_default(lab):
    m = RE_DEFAULT.match(lab)
    if not m:
        raise ReadError("not a default label: " + lab)
    return int(m.group(1))


# ------------------------------------------------------------------ the per-tree check shared by the streams
NAME_POOLS = [
    lambda j: f"f{j}",
    lambda j: f"petal width {j} (cm)",
    lambda j: f"a{j} <= b",
    lambda j: f"x > {j}",
    lambda j: f"X[:, {7 - j}]",
    lambda j: f"| n{j}",
]


def make_names(rng, length, dup=False, numeric=False):
    if numeric:
        ns = [int(10 * j + 3) for j in range(length)]
    else:
        pool = NAME_POOLS[int(rng.integers(0, len(NAME_POOLS)))]
        ns = [pool(j) if rng.random() < 0.8 else NAME_POOLS[0](j) for j in range(length)]
    if dup and length >= 2:
        a, b = rng.choice(length, size=2, replace=False)
        ns[int(a)] = ns[int(b)]
    c = int(rng.integers(0, 4))
    if c == 1:
        return tuple(ns), "tuple"
    if c == 2 and length > 0:
        return np.array(ns), "ndarray"
    return list(ns), "list"


def check_tree(chk, key, est, d, X, rng, replay, orphans=False):
    """All L2/L3 obligations for one fitted estimator `est` whose points have d columns."""
    tree = est.tree_
    tenc = enc_tree(tree)
    replay = dict(replay, tree=tree_dict(tree))
    if any(tree.categorical_nodes):
        chk.fail(key + ":categorical", "a fitted tree has a categorical node (the model assumes Split.is_categorical is always False)", replay)
        return None
    # thresholds must survive str -> float
    for th in tree.thresholds:
        if th is not None and float(str(th)) != th:
            chk.fail(key + ":threshold-roundtrip", f"float(str(t)) != t for threshold {th!r}", replay, layer="L3")

    # ---- default print: L2 tokens
    out = run_print(est)
    mod = model_print(chk, "T " + tenc, "A")
    if out[0] != "P":
        chk.fail(key + ":default-print-raised", f"print_kauri_tree raised {out[2]} on a fitted model", replay, layer="L3")
        return None
    text0 = out[1]
    try:
        toks = lex(text0, named=False)
    except LexError as e:
        chk.fail(key + ":unlexable", f"printed text not recognised: {e}", dict(replay, text=text0))
        return None
    if mod[0] != "P":
        chk.fail(key + ":model-mismatch", f"model outcome {mod[0]} but the implementation printed", replay)
        return None
    if not tokens_equal(toks, mod[1], None):
        chk.fail(key + ":model-mismatch", f"printed tokens differ from the model's render: first difference {first_diff(toks, mod[1], None)}", dict(replay, text=text0))

    # ---- L3 reader on the default text
    try:
        root = read_text(text0)
    except (ReadError, ValueError) as e:
        chk.fail(key + ":unreadable", f"independent reader cannot rebuild nested rules: {e}", dict(replay, text=text0), layer="L3")
        return None
    rules = rule_nodes(root)
    used = sorted({resolve_default(r["label"]) for r in rules})
    if used and max(used) >= d:
        chk.fail(key + ":feature-range", f"printed feature {max(used)} outside the data's {d} columns", replay, layer="L3")
        return None
    # points: training, fresh, exactly on thresholds and one ulp around
    pts = [np.asarray(X, dtype=float)] if len(X) else []
    pts.append(rng.normal(size=(6, d)) * float(rng.choice([0.5, 3.0])))
    on = []
    for r in rules[:12]:
        f, thr = resolve_default(r["label"]), float(r["thr"])
        for base in ((X[int(rng.integers(0, len(X)))] if len(X) else np.zeros(d)), rng.normal(size=d)):
            for v in (thr, np.nextafter(thr, np.inf), np.nextafter(thr, -np.inf)):
                p = np.array(base, dtype=float)
                p[f] = v
                on.append(p)
        # a point on every threshold of its own path where possible
    if on:
        pts.append(np.array(on))
    P = np.vstack(pts)
    P = P[np.all(np.isfinite(P), axis=1)]
    pred = [int(v) for v in est.predict(P)]
    got = []
    try:
        got = [apply_rules(root, x, resolve_default) for x in P]
    except ReadError as e:
        chk.fail(key + ":reader-eval", f"nested rules do not classify a point: {e}", replay, layer="L3")
    if got and got != pred:
        j = next(k for k in range(len(pred)) if got[k] != pred[k])
        chk.fail(key + ":rules-vs-predict", f"rules read from the text assign cluster {got[j]}, predict assigns {pred[j]}",
                 dict(replay, point=[float(v).hex() for v in P[j]], text=text0), layer="L3")
    # ---- L2: model read_back / predict against Kauri.predict
    t = chk.ask(f"c19.eval {tenc} A {len(P)} {d} " + " ".join(hx(v) for v in P.ravel()))
    rt_ok = t.bool()
    mres = [(t.opt(t.int), t.opt(t.int)) for _ in range(len(P))]
    if not rt_ok:
        chk.fail(key + ":model-roundtrip", "model: parse (render t) differs from abs_tree t on a fitted tree (well-formedness assumption broken?)", replay)
    for j, (rb, mp) in enumerate(mres):
        if rb != pred[j] or mp != pred[j]:
            chk.fail(key + ":model-predict", f"model read_back={rb} predict={mp}, implementation predict={pred[j]}",
                     dict(replay, point=[float(v).hex() for v in P[j]]))
            break

    # ---- names variants
    # The guard looks at every feature stored in the arrays.  For a fitted tree these are exactly the
    # features of the printed rules; only a tree whose inner node was split again (never done by fit,
    # stream 'built' flags it) also stores features of unreachable nodes.
    stored = sorted({int(f) for f in tree.features if f is not None})
    if stored != used:
        if not orphans:
            chk.fail(key + ":unprinted-feature", f"features stored in the arrays {stored} differ from the features of the printed rules {used}", replay, layer="L3")
        used = stored
    mx = max(used) if used else -1
    lens = {mx + 1, d, d + int(rng.integers(1, 4))}
    if mx >= 0:
        lens.add(int(rng.integers(0, mx + 1)))       # too short
        lens.add(mx)                                  # one too short
    else:
        lens.add(0)
    variants = []
    for L in sorted(lens):
        variants.append((L, False, False))
    variants.append((d, True, False))
    variants.append((max(d, mx + 1), False, True))
    nvar = 0
    for (L, dup, numeric) in variants:
        if L < 0:
            continue
        names, container = make_names(rng, L, dup, numeric)
        codes, strs = name_codes(names)
        rp = dict(replay, names=strs, container=container)
        out = run_print(est, names)
        mod = model_print(chk, "T " + tenc, "L " + enc_list(codes))
        too_few = any(f >= L for f in used)           # independent of tree_.features: read from the default text
        chk.dist["names:" + ("too-few" if too_few else "exact" if L == mx + 1 else "longer")] += 1
        nvar += 1
        if too_few:
            if not (out[0] == "E" and out[1] == "EN" and out[3] == ""):
                what = "printed the tree" if out[0] == "P" else f"raised {out[2]} after printing {len(out[3])} characters"
                chk.fail(key + ":too-few-names", f"{L} names for used feature index {mx}: expected ValueError and no output, but it {what}", rp, layer="L3")
            if mod[0] != "EN":
                chk.fail(key + ":model-guard", f"model outcome {mod[0]} for too few names", rp)
            continue
        if out[0] != "P":
            chk.fail(key + ":enough-names-rejected", f"{L} names cover every used feature (max index {mx}) but print raised {out[2]}", rp, layer="L3")
            if mod[0] == "P":
                chk.fail(key + ":model-guard", "model prints but the implementation raises", rp)
            continue
        text = out[1]
        # L3: line by line against the default print: same lines, label = names[feature index]
        l0, l1 = text0.split("\n"), text.split("\n")
        ok = len(l0) == len(l1)
        if ok:
            for a, b in zip(l0, l1):
                m = RE_RULE.match(a)
                if m:
                    f = resolve_default(m.group(2))
                    if b != f"{m.group(1)}|={strs[f]} {m.group(3)} {m.group(4)}":
                        ok = False
                        break
                elif a != b:
                    ok = False
                    break
        if not ok:
            chk.fail(key + ":names-label", "named print is not the default print with X[:, f] replaced by feature_names[f]", dict(rp, text=text, default=text0), layer="L3")
        # L2 tokens
        try:
            ntoks = lex(text, named=True)
        except LexError as e:
            chk.fail(key + ":unlexable", f"named text not recognised: {e}", dict(rp, text=text))
            continue
        if mod[0] != "P":
            chk.fail(key + ":model-guard", f"model outcome {mod[0]} but the implementation printed", rp)
            continue
        if not tokens_equal(ntoks, mod[1], strs):
            chk.fail(key + ":model-mismatch", f"named tokens differ from the model's render: first difference {first_diff(ntoks, mod[1], strs)}", dict(rp, text=text))
        # L3 reader with names, when every used name is unambiguous
        unamb = all(strs.count(strs[f]) == 1 for f in used)
        if unamb:
            try:
                nroot = read_text(text)
                ngot = [apply_rules(nroot, x, lambda lab: strs.index(lab)) for x in P]
                if ngot != pred:
                    chk.fail(key + ":rules-vs-predict", "rules read from the named text disagree with predict", dict(rp, text=text), layer="L3")
            except (ReadError, ValueError) as e:
                chk.fail(key + ":unreadable", f"independent reader fails on the named text: {e}", dict(rp, text=text), layer="L3")
            t = chk.ask(f"c19.eval {tenc} L {enc_list(codes)} {len(P)} {d} " + " ".join(hx(v) for v in P.ravel()))
            rt_ok = t.bool()
            mres = [(t.opt(t.int), t.opt(t.int)) for _ in range(len(P))]
            if not rt_ok or any(rb != pred[j] for j, (rb, _) in enumerate(mres)):
                chk.fail(key + ":model-predict", "model read_back with user names differs from the implementation's predict", rp)
        else:
            chk.dist["names:ambiguous-for-reader"] += 1
    chk.dist["points-read-back"] += len(P) * (1 + nvar)
    return {"n_nodes": int(tree.n_nodes), "depth": max(int(v) for v in tree.depths), "used": used, "points": len(P), "text": text0}


def tok_eq(a, b, strs):
    if a[0] != b[0] or a[1] != b[1]:
        return False
    if a[0] in "NC":
        return a[2] == b[2]
    (lk, lv), (mk, mv) = a[2], b[2]
    if lk == "I":
        lab_ok = mk == "I" and lv == mv
    else:
        lab_ok = mk == "M" and strs is not None and 0 <= mv < len(strs) and strs[mv] == lv
    # the printed decimal must denote the very threshold of the arrays (exact: nothing is computed)
    return lab_ok and float(a[3]) == b[3] and math.copysign(1, float(a[3])) == math.copysign(1, b[3]) and a[4] == b[4]


def tokens_equal(a, b, strs):
    return len(a) == len(b) and all(tok_eq(x, y, strs) for x, y in zip(a, b))


def first_diff(a, b, strs):
    for k, (x, y) in enumerate(zip(a, b)):
        if not tok_eq(x, y, strs):
            return f"#{k}: impl={x} model={y}"
    return f"lengths impl={len(a)} model={len(b)}"


# ------------------------------------------------------------------ streams
def gen_data(rng, n, d):
    kind = ["blobs", "ints", "coarse", "constcol", "dups", "const"][int(rng.choice(6, p=[0.3, 0.25, 0.15, 0.12, 0.12, 0.06]))]
    if kind == "ints":
        X = rng.integers(-3, 4, size=(n, d)).astype(float)
    elif kind == "const":
        X = np.full((n, d), 1.5)
    else:
        X = impl.blobs(rng, n, d, k=int(rng.integers(1, 5)), scale=float(rng.choice([0.01, 1.0, 100.0])))
        if kind == "coarse":
            X = np.round(X, 1)
        elif kind == "constcol":
            X[:, rng.random(d) < 0.5] = 2.0
        elif kind == "dups" and n >= 2:
            X[n // 2:] = X[: n - n // 2]
    return X, kind


def stream_fit(chk, i, rng):
    big = chk.tier == "thorough"
    d = int(rng.integers(1, 9))
    n = int(rng.integers(1, 4)) if rng.random() < 0.07 else int(rng.integers(4, 90 if big else 45))
    X, kind = gen_data(rng, n, d)
    msl = int(rng.choice([1, 1, 1, 2, 3]))
    mss = max(2 * msl, int(rng.choice([2, 2, 3, 5, 8])))
    kw = dict(max_clusters=int(rng.integers(1, 7)),
              max_depth=None if rng.random() < 0.4 else int(rng.integers(1, 7)),
              min_samples_split=mss, min_samples_leaf=msl,
              max_features=None if rng.random() < 0.5 else int(rng.integers(1, d + 1)),
              max_leaves=None if rng.random() < 0.5 else int(rng.integers(2, 14)),
              kernel=str(rng.choice(["linear", "linear", "rbf", "laplacian", "polynomial", "cosine"])),
              random_state=int(rng.integers(0, 10 ** 6)))
    replay = {"X": [[float(v).hex() for v in row] for row in X], "kauri": kw, "data": kind}
    est = Kauri(**kw)
    try:
        est.fit(X)
    except ValueError as e:
        chk.dist["fit-rejected"] += 1
        if n >= msl and len(chk.notes) < 3:      # a legal configuration: fitting must work (belongs to C04, recorded only)
            chk.notes.append(f"fit raised on a legal configuration: {e}")
        chk.count(None)
        return
    info = check_tree(chk, "fit", est, d, X, rng, replay)
    chk.traces += 1
    if info is None:
        chk.count(None)
        return
    nn = info["n_nodes"]
    chk.dist[f"fit:nodes={'1' if nn == 1 else '3' if nn == 3 else '5-9' if nn < 10 else '10+'}"] += 1
    chk.dist[f"fit:depth={min(info['depth'], 5)}{'+' if info['depth'] > 5 else ''}"] += 1
    chk.dist[f"fit:data={kind}"] += 1
    chk.count(("fit", nn, info["depth"], tuple(info["used"]), d, kw["max_clusters"]) if nn >= 3 else None)
    chk.sample({"stream": "fit", "kauri": kw, "n": n, "d": d, "text": info["text"].split("\n")[:8]}, limit=2)


FLOATS = [0.0, -0.0, 1.0, -1.5, 0.1, 1e-300, 5e-324, 1.7976931348623157e308, -2.5e-7, 123456789.125, 1 / 3, 2 ** 53 + 2.0, 1e16, 1e22, 1e23]


def stream_built(chk, i, rng):
    """Trees built directly with Tree._add_child (deeper, more features than fit produces): the model's
    `build` must produce the same arrays; then printed / read back / predicted like a fitted tree."""
    d = int(rng.integers(1, 9))
    m = int(rng.integers(0, 25 if chk.tier == "thorough" else 16))
    tree = Tree()
    ops = []
    orphan = False
    for _ in range(m):
        leaves = [k for k in range(tree.n_nodes) if tree.children_left[k] == -1]
        if rng.random() < 0.04:
            father = int(rng.integers(0, tree.n_nodes))
            orphan = orphan or father not in leaves
        else:      # prefer deep leaves now and then, so that chains appear
            father = int(leaves[-1 - int(rng.integers(0, min(2, len(leaves))))]) if rng.random() < 0.4 else int(rng.choice(leaves))
        thr = float(rng.choice(FLOATS)) if rng.random() < 0.3 else float(np.round(rng.normal() * 10 ** int(rng.integers(-3, 4)), int(rng.integers(0, 17))))
        f, lt, rt = int(rng.integers(0, d)), int(rng.integers(0, 6)), int(rng.integers(0, 6))
        tree._add_child(father, Split(float(rng.random()), 0, lt, rt, f, thr, False))
        ops.append((father, f, thr, lt, rt))
    replay = {"ops": [[a, b, float(c).hex(), e, g] for a, b, c, e, g in ops], "d": d}
    t = chk.ask("c19.build " + enc_list(ops, lambda o: f"{o[0]} {o[1]} {hx(o[2])} {o[3]} {o[4]}"))
    if t.next() != "S":
        chk.fail("built:model-mismatch", "model's build fails on a sequence of _add_child calls the implementation accepts", replay)
        chk.count(None)
        return
    mt = {"n_nodes": t.int(), "children_left": t.list(t.int), "children_right": t.list(t.int),
          "features": t.list(lambda: t.opt(t.int)), "thresholds": t.list(lambda: t.opt(lambda: t.float().hex())),
          "target": t.list(t.int), "depths": t.list(t.int)}
    if mt != tree_dict(tree):
        chk.fail("built:model-mismatch", "arrays after _add_child calls differ from the model's build", dict(replay, impl=tree_dict(tree), model=mt))
    X = rng.normal(size=(8, d)) * 10
    est = Kauri(max_clusters=2).fit(np.array([[0.0] * d, [1.0] * d]))
    est.tree_ = tree
    info = check_tree(chk, "built", est, d, X, rng, replay, orphans=orphan)
    chk.dist["built:orphans" if orphan else "built:leaf-splits"] += 1
    if info is not None:
        chk.dist[f"built:depth={min(info['depth'], 6)}{'+' if info['depth'] > 6 else ''}"] += 1
    chk.count(("built", tuple(o[0] for o in ops), d) if info is not None and m >= 1 else None)


class NotAKauri:
    tree_ = None


def stream_guards(chk, i, rng):
    d = 3
    X = rng.normal(size=(12, d))
    fitted = Kauri(max_clusters=3, random_state=0).fit(X)
    foreign = [3, None, "tree", fitted.tree_, NotAKauri(), Kauri, {"tree_": 1}, impl.make("LinearModel"), [fitted], 2.5]
    bad_names = [3, 2.5, "abc", True, Kauri]
    good_names = ["__absent__", ["a", "b", "c"], ("a", "b", "c", "d"), np.array(["u", "v", "w"])]
    kind = ["foreign", "unfitted", "bad-names", "fit-raised", "refit"][i % 5]
    replay = {"kind": kind, "case": i}
    if kind == "foreign":
        obj = foreign[(i // 5) % len(foreign)]
        names = good_names[int(rng.integers(0, len(good_names)))] if rng.random() < 0.7 else bad_names[int(rng.integers(0, len(bad_names)))]
        otag = "F"
    elif kind == "unfitted":
        obj = Kauri(max_clusters=int(rng.integers(1, 5)))
        names = good_names[int(rng.integers(0, len(good_names)))] if rng.random() < 0.7 else bad_names[int(rng.integers(0, len(bad_names)))]
        otag = "U"
    elif kind == "bad-names":
        obj = fitted
        names = bad_names[(i // 5) % len(bad_names)]
        otag = "T " + enc_tree(fitted.tree_)
    elif kind == "fit-raised":
        # fit() raised: the estimator was never fitted.  It must be refused (any exception, nothing printed).
        obj = Kauri(min_samples_leaf=5, min_samples_split=int(rng.integers(2, 10)))
        try:
            obj.fit(X)
            chk.count(None)
            return
        except ValueError:
            pass
        out = run_print(obj)
        if out[0] == "P" or out[3] != "":
            chk.fail("guards:fit-raised", "print_kauri_tree printed something for a Kauri whose fit raised", replay, layer="L3")
        else:
            chk.dist[f"guards:fit-raised->{out[2]}"] += 1
        chk.count(("guards", kind, out[0] == "E" and out[2]))
        return
    else:
        # refit on other data: the tree printed must be the new one
        obj = Kauri(max_clusters=2, random_state=1).fit(X[:, :2])
        obj.fit(X)
        info = check_tree(chk, "refit", obj, d, X, rng, replay)
        chk.count(("guards", kind) if info else None)
        return
    replay["object"] = repr(obj)[:60]
    replay["names"] = repr(names)[:60]
    out = run_print(obj, names)
    is_bad = any(names is b for b in bad_names)
    ntag = "A" if (isinstance(names, str) and names == "__absent__") else "B" if is_bad else "L " + enc_list(range(len(names)))
    mod = model_print(chk, otag, ntag)
    if out[0] == "P" or out[3] != "":
        chk.fail(f"guards:{kind}-not-refused", f"print_kauri_tree printed output for object {replay['object']} names {replay['names']}", replay, layer="L3")
    elif out[1].startswith("other"):
        chk.fail(f"guards:{kind}-exception-family", f"refused with {out[2]}, which is neither a ValueError nor a TypeError", replay, layer="L3")
    if out[0] == "E" and mod[0] != out[1]:
        chk.fail(f"guards:{kind}-model-mismatch", f"implementation refuses with {out[2]} ({out[1]}), model outcome {mod[0]}", replay)
    chk.dist[f"guards:{kind}->{out[2] if out[0] == 'E' else 'printed'}"] += 1
    chk.count(("guards", kind, replay["object"], replay["names"]))


# ------------------------------------------------------------------ input representations (lessons R3 §1, §3)
def representations(P):
    """(label, object handed to predict) for the float64 C-contiguous reference P.  Every representation holds
    exactly the values of P (integer / bool / float32 ones only when the values allow it)."""
    P = np.ascontiguousarray(P, dtype=np.float64)
    integral = bool(np.all(P == np.round(P))) and bool(np.all(np.abs(P) < 2 ** 31))
    binary = bool(np.all((P == 0) | (P == 1)))
    f32 = bool(np.all(P.astype(np.float32).astype(np.float64) == P))
    reps = [("float64-C", P.copy())]
    if integral:
        reps += [("int64", P.astype(np.int64)), ("int32", P.astype(np.int32)),
                 ("int64-fortran", np.asfortranarray(P.astype(np.int64))), ("int-list", P.astype(np.int64).tolist())]
        ro = P.astype(np.int64)
        ro.setflags(write=False)
        reps.append(("int64-readonly", ro))
    if binary:
        reps += [("bool", P.astype(bool)), ("bool-list", P.astype(bool).tolist())]
    if f32:
        reps += [("float32", P.astype(np.float32)), ("float32-fortran", np.asfortranarray(P.astype(np.float32)))]
    reps.append(("fortran", np.asfortranarray(P)))
    reps.append(("strided-rows", np.repeat(P, 2, axis=0)[::2]))
    reps.append(("reversed-cols", P[:, ::-1].copy()[:, ::-1]))
    reps.append(("transposed", P.T.copy().T))
    ro = P.copy()
    ro.setflags(write=False)
    reps.append(("readonly", ro))
    reps.append(("list", P.tolist()))
    reps.append(("tuple", tuple(tuple(r) for r in P.tolist())))
    return reps


def snapshot(obj):
    if isinstance(obj, np.ndarray):
        return ("a", obj.dtype.str, obj.shape, obj.strides, obj.flags.writeable, obj.tobytes())
    return ("l", repr(obj))


def frac_threshold(rng):
    """fractional thresholds, mostly negative, all exact in float32 (multiples of 1/8)"""
    k = int(rng.integers(-9, 9))
    fr = float(rng.choice([0.5, 0.5, 0.5, 0.125, 0.25, 0.375, 0.75, 0.875]))
    v = k + fr
    return -abs(v) if rng.random() < 0.6 else v


def stream_repr(chk, i, rng):
    """predict on the same VALUES in other representations (integer / bool / float32 dtypes, memory layouts,
    read-only, lists) must equal the float64 answer, the rules read from the printed text and the model; the
    trees have fractional (mostly negative) thresholds so that a cast of the threshold to the data dtype shows."""
    d = int(rng.integers(1, 5))
    kind = ["built", "fit"][i % 2]
    if kind == "built":
        tree = Tree()
        m = int(rng.integers(1, 9))
        for _ in range(m):
            leaves = [k for k in range(tree.n_nodes) if tree.children_left[k] == -1]
            thr = float(rng.choice([0.5, -0.5])) if rng.random() < 0.15 else frac_threshold(rng)
            tree._add_child(int(rng.choice(leaves)), Split(1.0, 0, int(rng.integers(0, 5)), int(rng.integers(0, 5)), int(rng.integers(0, d)), thr, False))
        est = Kauri(max_clusters=2).fit(np.array([[0.0] * d, [1.0] * d]))
        est.tree_ = tree
        replay = {"kind": kind, "d": d}
    else:
        n = int(rng.integers(6, 30))
        # half-unit grid, strictly fractional: every threshold the fit can choose is k + 0.5
        X = rng.integers(-9, 9, size=(n, d)).astype(float) + 0.5
        if rng.random() < 0.3:
            X[:, 0] = rng.choice([-0.5, 0.5], size=n)
        kw = dict(max_clusters=int(rng.integers(2, 6)), max_depth=None if rng.random() < 0.5 else int(rng.integers(1, 5)),
                  random_state=int(rng.integers(0, 10 ** 6)))
        est = Kauri(**kw).fit(X)
        replay = {"kind": kind, "d": d, "kauri": kw, "X": X.tolist()}
    tree = est.tree_
    replay["tree"] = tree_dict(tree)
    out = run_print(est)
    if out[0] != "P":
        chk.fail("repr:print-raised", f"print_kauri_tree raised {out[2]}", replay, layer="L3")
        chk.count(None)
        return
    try:
        root = read_text(out[1])
    except (ReadError, ValueError) as e:
        chk.fail("repr:unreadable", f"independent reader fails: {e}", dict(replay, text=out[1]), layer="L3")
        chk.count(None)
        return
    rules = rule_nodes(root)
    cuts = [(resolve_default(r["label"]), float(r["thr"])) for r in rules]
    # integer points: around every cut trunc / floor / ceil and their neighbours; binary points; float points on the cuts
    ints = [rng.integers(-10, 10, size=d).astype(float) for _ in range(6)]
    for f, thr in cuts[:10]:
        for v in {math.trunc(thr), math.floor(thr), math.ceil(thr), math.floor(thr) - 1, math.ceil(thr) + 1}:
            p = rng.integers(-10, 10, size=d).astype(float)
            p[f] = float(v)
            ints.append(p)
            # the same value on every cut of that feature's path: all other coordinates at their own trunc(threshold)
            q = np.array([float(math.trunc(next((t for g, t in cuts if g == j), 0.0))) for j in range(d)])
            q[f] = float(v)
            ints.append(q)
    bins = [rng.integers(0, 2, size=d).astype(float) for _ in range(6)] + [np.zeros(d), np.ones(d)]
    flts = [np.round(rng.normal(size=d) * 4 * 8) / 8 for _ in range(6)]
    for f, thr in cuts[:10]:
        for v in (thr, thr - 0.125, thr + 0.125):
            p = np.round(rng.normal(size=d) * 4 * 8) / 8
            p[f] = v
            flts.append(p)
    nontrivial = False
    for gname, pts in (("int", ints), ("bin", bins), ("flt", flts)):
        P = np.array(pts, dtype=np.float64)
        ref = [int(v) for v in est.predict(P.copy())]
        try:
            want = [apply_rules(root, x, resolve_default) for x in P]
        except ReadError as e:
            chk.fail("repr:reader-eval", f"nested rules do not classify a point: {e}", replay, layer="L3")
            continue
        t = chk.ask(f"c19.eval {enc_tree(tree)} A {len(P)} {d} " + " ".join(hx(v) for v in P.ravel()))
        t.bool()
        mres = [(t.opt(t.int), t.opt(t.int)) for _ in range(len(P))]
        if any(mp != w for (_, mp), w in zip(mres, want)):
            chk.fail("repr:model-vs-rules", "model predict differs from the rules read from the text (float64 values)", replay)
        for label, rep in representations(P):
            before = snapshot(rep)
            try:
                got = [int(v) for v in est.predict(rep)]
            except Exception as e:  # noqa
                chk.fail("repr:predict-raised", f"predict raised {type(e).__name__} on representation {label} although the float64 call succeeds: {e}",
                         dict(replay, representation=label, points=P.tolist()), layer="L3")
                continue
            chk.dist[f"repr:{label}"] += 1
            if snapshot(rep) != before:
                chk.fail("repr:argument-mutated", f"predict changed its argument (representation {label})", dict(replay, representation=label), layer="L3")
            bad = [j for j in range(len(P)) if got[j] != want[j]]
            if bad:
                j = bad[0]
                node_cuts = [(f, thr) for f, thr in cuts]
                chk.fail("repr:predict-vs-printed-rules",
                         f"representation {label}: predict assigns cluster {got[j]} to point {P[j].tolist()} but the printed rules (and float64 predict={ref[j]}) "
                         f"assign {want[j]}; cuts (feature, threshold) = {node_cuts[:6]}",
                         dict(replay, representation=label, point=P[j].tolist(), predict=got[j], printed_rules=want[j], float64_predict=ref[j], text=out[1]), layer="L3")
            elif got != ref:
                chk.fail("repr:predict-vs-float64", f"representation {label}: predict differs from predict on the float64 copy of the same values",
                         dict(replay, representation=label, points=P.tolist()), layer="L3")
            if label.startswith(("int", "bool")) and any(t != math.trunc(t) for _, t in cuts):
                nontrivial = True
    # feature_names in other representations: same text, argument untouched
    if cuts:
        L = max(f for f, _ in cuts) + 1 + int(rng.integers(0, 3))
        base = [f"name {j}" for j in range(L)]
        ref_txt = run_print(est, list(base))
        ro = np.array(base)
        ro.setflags(write=False)
        for label, names in (("names-tuple", tuple(base)), ("names-ndarray-readonly", ro), ("names-object-array", np.array(base, dtype=object)),
                             ("names-strided", np.array([v for b in base for v in (b, "skip")])[::2])):
            before = snapshot(names) if isinstance(names, np.ndarray) else ("l", repr(names))
            got = run_print(est, names)
            chk.dist[f"repr:{label}"] += 1
            if got != ref_txt:
                chk.fail("repr:names-representation", f"print_kauri_tree with {label} differs from the same names as a list", dict(replay, representation=label), layer="L3")
            after = snapshot(names) if isinstance(names, np.ndarray) else ("l", repr(names))
            if after != before:
                chk.fail("repr:argument-mutated", f"print_kauri_tree changed its feature_names argument ({label})", dict(replay, representation=label), layer="L3")
    chk.dist[f"repr:{kind}"] += 1
    chk.count(("repr", kind, tuple(cuts)) if nontrivial else None)


STREAMS = {"fit": (stream_fit, 500, 8000), "built": (stream_built, 400, 8000), "guards": (stream_guards, 150, 1000),
           "repr": (stream_repr, 120, 1500)}


def main():
    chk = Check("C19")
    chk.build()
    chk.proofs()
    if chk.replay_path:
        rp = json.load(open(chk.replay_path))
        st, case = rp["input"].get("stream"), rp["input"].get("case")
        chk.seed = rp.get("seed", chk.seed)
        if st in STREAMS:
            chk.run_stream(st, STREAMS[st][0], 0, only=case)
    else:
        for name, (fn, q, th) in STREAMS.items():
            cnt = q if chk.tier == "quick" else th
            if chk.l1_broken:
                cnt *= 3       # proof obligation broken: widen the failing-input search
            chk.run_stream(name, fn, cnt)
    chk.finish(rule="streams: real Kauri fits (n<=45 quick/90 thorough, d<=8, max_clusters 1..6, depth/leaf/feature limits, five kernels, data with ties, "
                    "constant columns, duplicates, constant data, n<=3) and trees built directly by Tree._add_child (<=15/24 splits, extreme thresholds, "
                    "occasional re-split of an inner node); for each tree: default print and 5-7 feature_names variants (too short, one short, exact, "
                    "longer, duplicates, numeric, names with spaces/operators; list/tuple/ndarray) lexed and compared token-for-token with the extracted "
                    "model, independent stack reader applied to training/fresh/on-threshold/one-ulp points vs predict, named print vs default print line "
                    "by line; guard stream: foreign objects, unfitted, fit-raised, non-array names; repr stream: built and fitted trees with fractional (mostly negative) thresholds queried with the same values as int64/int32/bool/float32 (exactly representable), Fortran, strided, read-only arrays, lists and tuples (points at trunc/floor/ceil of every cut and on the cuts): predict = printed rules = float64 predict = model, arguments unchanged; feature_names as tuple/read-only/object/strided arrays. evaluations = trees / guard cases (points read back are counted in the distribution); "
                    "non-trivial = tree with at least one split (or a guard case); distinct = distinct (node count, depth, used features, d, K) / op sequence")


if __name__ == "__main__":
    main()
