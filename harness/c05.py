"""C05 — proximal operators return the exact minimiser of their penalised problem.

L1: Props/C05.v (group-lasso closed form + strong-convexity gap, HIER-PROX feasibility + optimality, group wrappers) and
    Props/C05gen.v: the same theorems on Gen/ProxGen.v, regenerated from gemclus/sparse/_prox_grad.py by translator/tr_prox.py on
    every build and proved equal to Model/Prox.v for every number system (Proofs/ProxTie.v).
L2: extracted model (float instance) vs gemclus.sparse._prox_grad.{linear,group_linear,mlp,group_mlp}_prox_grad.
L3: independent oracles on the implementation's output: closed form + strong-convexity gap against random
    competitors for the group lasso; for the hierarchical operator direct feasibility, exact one-dimensional
    minimisation of F(b) over all breakpoint intervals, and structured/random feasible competitors.
"""
import json
import math
import numpy as np
from core import Check, enc_list, enc_mat, hx
import impl

try:
    import gemclus.sparse._prox_grad as PG
except Exception:  # noqa  (renamed / inlined helper module: use the public route below)
    PG = None

ALPHAS = [0.0, 1e-3, 0.3, 2.0, 20.0]
MS = [0.0, 0.05, 1.0, 10.0, 100.0]
RTOL = 1e-12


# ------------------------------------------------------------------ implementation routes
class _IdOpt:
    """optimiser whose step is the identity, learning rate 1: _update_weights then applies prox(., alpha)"""
    learning_rate = 1.0

    def update_params(self, params, grads):
        pass


def _via_update(name, attrs, alpha, M, groups):
    est = impl.make(name, alpha=alpha, M=M)
    for k, v in attrs.items():
        setattr(est, k, np.array(v, dtype=float, copy=True))
    est.groups_ = groups
    est.optimiser_ = _IdOpt()
    est._update_weights([], [])
    return est


def snapshot(a):
    """bit-for-bit picture of an argument (arrays: dtype, shape, values in C order, writeable flag; containers recursively)"""
    if isinstance(a, np.ndarray):
        return ("nd", str(a.dtype), a.shape, a.tobytes(), bool(a.flags.writeable))
    if isinstance(a, (list, tuple)):
        return (type(a).__name__,) + tuple(snapshot(x) for x in a)
    return ("v", repr(a))


def guarded(chk, key, rp, fn, *args, **kw):
    """run the implementation on a valid input; an exception there is a concrete failing input (no value returned at all);
    every argument (arrays, groups) must be bit for bit what it was before the call"""
    before = [snapshot(a) for a in args]
    try:
        out = fn(*args, **kw)
    except Exception as e:  # noqa
        chk.fail(key + ":raised", f"{type(e).__name__} on a valid input: {e}", rp, layer="L3")
        return None
    for k, (b, a) in enumerate(zip(before, args)):
        if snapshot(a) != b:
            chk.fail(key + ":argument-modified", f"positional argument {k} of the call was modified in place", rp, layer="L3")
    return out


def impl_linear(W, alpha, groups=None, route="direct"):
    if route == "direct" and PG is not None and hasattr(PG, "linear_prox_grad") and hasattr(PG, "group_linear_prox_grad"):
        return PG.linear_prox_grad(W, alpha) if groups is None else PG.group_linear_prox_grad(groups, W, alpha)
    return _via_update("SparseLinearModel", {"W_": W}, alpha, None, groups).W_


def impl_mlp(V, U, alpha, M, groups=None, route="direct"):
    if route == "direct" and PG is not None and hasattr(PG, "mlp_prox_grad") and hasattr(PG, "group_mlp_prox_grad"):
        return PG.mlp_prox_grad(V, U, alpha, M) if groups is None else PG.group_mlp_prox_grad(groups, V, U, alpha, M)
    est = _via_update("SparseMLPModel", {"W_skip_": V, "W1_": U}, alpha, M, groups)
    return est.W_skip_, est.W1_


# ------------------------------------------------------------------ model routes
def enc_groups(groups):
    return enc_list(groups, lambda g: enc_list(g))


def _rows(t):
    return t.list(lambda: t.list(t.float))


def _orows(t):
    return t.list(lambda: t.opt(lambda: t.list(t.float)))


def model_linear(chk, W, alpha, groups=None):
    if groups is None:
        return _rows(chk.ask(f"c05.linear {enc_mat(W)} {hx(alpha)}"))
    t = chk.ask(f"c05.glinear {enc_groups(groups)} {enc_mat(W)} {hx(alpha)}")
    return t.opt(lambda: _orows(t))


def model_mlp(chk, V, U, alpha, M, groups=None):
    if groups is None:
        t = chk.ask(f"c05.mlp {enc_mat(V)} {enc_mat(U)} {hx(alpha)} {hx(M)}")
        return _rows(t), _rows(t)
    t = chk.ask(f"c05.gmlp {enc_groups(groups)} {enc_mat(V)} {enc_mat(U)} {hx(alpha)} {hx(M)}")
    return t.opt(lambda: (_orows(t), _orows(t)))


# ------------------------------------------------------------------ generators
def is_dyadic(A):
    return bool(np.all(A * 64 == np.round(A * 64)) and np.all(np.abs(A) < 64))


def gen_mat(rng, d, h):
    """d x h matrix: three scales, zeros, ties among absolute values (opposite signs / repeats), dyadic grids, zero rows"""
    A = rng.normal(size=(d, h)) * float(rng.choice([0.01, 1.0, 5.0]))
    if rng.random() < 0.25:
        A[rng.integers(d), rng.integers(h)] = 0.0
    if h > 1 and rng.random() < 0.3:
        j = rng.integers(d)
        A[j, 0] = -A[j, 1]
    if h > 2 and rng.random() < 0.2:
        j = rng.integers(d)
        A[j, 2] = A[j, 0]
    if rng.random() < 0.2:
        A = np.round(A * 4) / 4          # exact arithmetic on both sides: many ties and zeros
    if rng.random() < 0.2:
        A[rng.integers(d)] = 0.0         # zero row
    return A


def set_partitions(n):
    if n == 0:
        yield []
        return
    for p in set_partitions(n - 1):
        for i in range(len(p)):
            yield p[:i] + [p[i] + [n - 1]] + p[i + 1:]
        yield p + [[n - 1]]


ALL_PARTS = [p for n in range(1, 6) for p in set_partitions(n)]     # 1+2+5+15+52 = 75


def fix_skip_scope(V, U, alpha, groups):
    """Zero skip weights are in scope only with zero hidden weights and alpha > 0 (property text): repair the others."""
    for g in groups:
        if len(g) and not np.any(V[g]):
            if alpha > 0:
                U[g] = 0.0
            else:
                V[g[0], 0] = 0.25


# ------------------------------------------------------------------ comparisons
def scale_of(*arrs):
    return max([1.0] + [float(np.max(np.abs(a))) for a in arrs if np.size(a)])


def compare(chk, key, got, exp, scale, replay, clear, dyadic):
    """L2: values within RTOL*(1+scale); exact zeros must coincide when the decision margin is clear (or all data dyadic)"""
    got = np.asarray(got, dtype=float)
    exp = np.asarray(exp, dtype=float)
    if got.shape != exp.shape:
        chk.fail(key + ":shape", f"shape {got.shape} vs model {exp.shape}", replay)
        return False
    ok = bool(np.all(np.abs(got - exp) <= RTOL * (1 + scale)))      # NaN anywhere -> False
    if not ok:
        chk.fail(key + ":value", f"implementation differs from the model: impl={got.tolist()} model={exp.tolist()}", replay)
        return False
    if np.any((got == 0) != (exp == 0)):
        if clear or dyadic:
            chk.fail(key + ":exact-zero", f"exact-zero pattern differs: impl={got.tolist()} model={exp.tolist()}", replay)
            return False
        chk.dist["near-tie zero pattern (not compared)"] += 1
    return True


# ------------------------------------------------------------------ L3 oracles
def fnorm(x):
    return math.sqrt(math.fsum(float(t) * float(t) for t in np.ravel(x)))


def J_lasso(alpha, w, z):
    return 0.5 * float(np.sum((z - w) ** 2)) + alpha * fnorm(z)


def oracle_lasso(chk, key, w, out, alpha, rng, replay):
    """closed form (independent formula), exact zeros, and the strong-convexity gap against random competitors"""
    w = np.ravel(w).astype(float)
    out = np.ravel(out).astype(float)
    n = fnorm(w)
    sc = scale_of(w, [alpha])
    clear = abs(n - alpha) > 1e-9 * (1 + n + alpha)
    if n <= alpha:
        want = np.zeros_like(w)
        if clear and np.any(out != 0):
            chk.fail(key + ":not-zero", f"row of norm {n} <= alpha={alpha} is not exactly zero: {out.tolist()}", replay, layer="L3")
            return False
    else:
        want = (1 - alpha / n) * w
        if clear and np.any((out == 0) != (w == 0)):
            chk.fail(key + ":spurious-zero", f"row of norm {n} > alpha={alpha}: zero pattern differs from the input's: {out.tolist()}", replay, layer="L3")
            return False
    if not np.all(np.abs(out - want) <= 1e-11 * (1 + sc)):
        chk.fail(key + ":closed-form", f"output {out.tolist()} is not the radial shrinkage {want.tolist()} (norm {n}, alpha {alpha})", replay, layer="L3")
        return False
    j0 = J_lasso(alpha, w, out)
    for c in range(3):
        z = out + rng.normal(size=w.shape) * float(rng.choice([1e-3, 0.1, 1.0])) * (1 + sc) if c else np.zeros_like(w)
        gap = J_lasso(alpha, w, z) - j0 - 0.5 * float(np.sum((z - out) ** 2))
        if not gap >= -1e-9 * (1 + sc * sc):
            chk.fail(key + ":not-minimiser", f"J(z)-J(out) < 0.5||z-out||^2 by {-gap} for z={z.tolist()}", replay, layer="L3")
            return False
    return True


def F_of(b, nv, absu, alpha, M):
    return 0.5 * (b - nv) ** 2 + alpha * b + 0.5 * float(np.sum(np.maximum(absu - M * b, 0.0) ** 2))


def F_min(nv, absu, alpha, M):
    """exact minimisation of the convex piecewise-quadratic F over b >= 0: every interval between consecutive breakpoints"""
    if M == 0 or absu.size == 0:
        b = max(nv - alpha, 0.0)
        return F_of(b, nv, absu, alpha, M), b
    bps = sorted(set([0.0] + [float(a) / M for a in absu]))
    best = (math.inf, 0.0)
    for i, lo in enumerate(bps):
        hi = bps[i + 1] if i + 1 < len(bps) else math.inf
        mid = lo + 1.0 if hi == math.inf else 0.5 * (lo + hi)
        act = absu > M * mid
        m, S = int(act.sum()), float(absu[act].sum())
        b0 = (nv - alpha + M * S) / (1 + m * M * M)
        for b in (lo, min(max(b0, lo), hi)) + (() if hi == math.inf else (hi,)):
            f = F_of(b, nv, absu, alpha, M)
            if f < best[0]:
                best = (f, b)
    return best


def J_hier(alpha, v, u, beta, theta):
    return 0.5 * float(np.sum((beta - v) ** 2)) + 0.5 * float(np.sum((theta - u) ** 2)) + alpha * fnorm(beta)


def oracle_hier(chk, key, v, u, beta, theta, alpha, M, rng, replay):
    v, u, beta, theta = (np.ravel(x).astype(float) for x in (v, u, beta, theta))
    sc = scale_of(v, u, [alpha])
    nb = fnorm(beta)
    if not np.all(np.isfinite(beta)) or not np.all(np.isfinite(theta)):
        chk.fail(key + ":non-finite", f"non-finite output beta={beta.tolist()} theta={theta.tolist()}", replay, layer="L3")
        return False
    if not np.all(np.abs(theta) <= M * nb * (1 + 1e-12) + 1e-300):
        chk.fail(key + ":infeasible", f"|theta| <= M*||beta|| violated: theta={theta.tolist()} M={M} ||beta||={nb}", replay, layer="L3")
        return False
    nv, absu = fnorm(v), np.abs(u)
    fmin, bmin = F_min(nv, absu, alpha, M)
    jout = J_hier(alpha, v, u, beta, theta)
    tolJ = 1e-9 * (1 + abs(fmin) + sc * sc)
    if not jout <= fmin + tolJ:
        chk.fail(key + ":not-minimiser", f"J(output)={jout} exceeds the exact 1-D minimum F(b={bmin})={fmin}", replay, layer="L3")
        return False
    # competitors: (a) the best pair for a given ||beta|| = b (beta along v, theta = clip(u)), (b) random feasible pairs
    for c in range(6):
        if c < 3 and nv > 0:
            b = max(0.0, (nb if c else bmin) * (1 + float(rng.normal()) * 0.2 * c))
            cb = v * (b / nv)
            ct = np.clip(u, -M * b, M * b)
        else:
            cb = beta + rng.normal(size=v.shape) * float(rng.choice([1e-3, 0.1, 1.0])) * (1 + sc)
            lim = M * fnorm(cb) * (1 - 1e-12)
            ct = np.clip(theta + rng.normal(size=u.shape) * float(rng.choice([1e-3, 0.1, 1.0])) * (1 + sc), -lim, lim)
        jc = J_hier(alpha, v, u, cb, ct)
        if not jout <= jc + tolJ:
            chk.fail(key + ":beaten", f"feasible competitor beta={cb.tolist()} theta={ct.tolist()} has J={jc} < J(output)={jout}", replay, layer="L3")
            return False
    return True


def lasso_clear(w, alpha):
    n = fnorm(w)
    return abs(n - alpha) > 1e-9 * (1 + n + alpha)


def hier_clear(v, u, alpha, M):
    """is the sign of nv - alpha + M*cs_s (which decides beta = 0) clear for every s?"""
    nv = fnorm(v)
    cs = np.concatenate([[0.0], np.cumsum(np.sort(np.abs(np.ravel(u)))[::-1])])
    t = nv - alpha + M * cs
    return bool(np.all(np.abs(t) > 1e-9 * (1 + nv + alpha + M * cs[-1])))


def clipped_count(u, theta):
    return int(np.sum(np.abs(theta) < np.abs(u)))


# ------------------------------------------------------------------ streams
def draw_params(rng, i):
    d, hv, hu = int(rng.integers(1, 7)), int(rng.integers(1, 7)), int(rng.integers(1, 7))
    alpha = ALPHAS[i % len(ALPHAS)] if rng.random() < 0.8 else float(rng.uniform(0, 3))
    M = MS[(i // len(ALPHAS)) % len(MS)] if rng.random() < 0.8 else float(rng.uniform(0, 12))
    return d, hv, hu, alpha, M


def stream_rows(chk, i, rng):
    """linear_prox_grad and mlp_prox_grad on whole matrices (every row is one instance of the row operators)"""
    d, hv, hu, alpha, M = draw_params(rng, i)
    W = gen_mat(rng, d, hv)
    V, U = gen_mat(rng, d, hv), gen_mat(rng, d, hu)
    fix_skip_scope(V, U, alpha, [[j] for j in range(d)])
    rp = {"op": "rows", "W": W.tolist(), "V": V.tolist(), "U": U.tolist(), "alpha": alpha, "M": M}
    # group lasso
    got = guarded(chk, "linear_prox_grad", rp, impl_linear, W, alpha)
    exp = model_linear(chk, W, alpha)
    ok = got is not None
    for j in range(d if ok else 0):
        ok &= compare(chk, "linear_prox_grad", got[j], exp[j], scale_of(W[j], [alpha]), dict(rp, row=j),
                      lasso_clear(W[j], alpha), is_dyadic(W[j]))
        ok &= oracle_lasso(chk, "linear_prox_grad", W[j], got[j], alpha, rng, dict(rp, row=j))
    # hierarchical
    res = guarded(chk, "mlp_prox_grad", rp, impl_mlp, V, U, alpha, M)
    eb, et = model_mlp(chk, V, U, alpha, M)
    if res is None or got is None:
        chk.count(None, n=2)
        return
    gb, gt = res
    clipped = []
    for j in range(d):
        sc = scale_of(V[j], U[j], [alpha])
        clear, dy = hier_clear(V[j], U[j], alpha, M), is_dyadic(V[j]) and is_dyadic(U[j])
        ok &= compare(chk, "mlp_prox_grad:beta", gb[j], eb[j], sc, dict(rp, row=j), clear, dy)
        ok &= compare(chk, "mlp_prox_grad:theta", gt[j], et[j], sc, dict(rp, row=j), clear, dy)
        ok &= oracle_hier(chk, "mlp_prox_grad", V[j], U[j], gb[j], gt[j], alpha, M, rng, dict(rp, row=j))
        clipped.append(clipped_count(U[j], gt[j]) if np.any(gb[j]) else -1)
    nz = int(np.sum(np.any(got != 0, axis=1)))
    chk.dist[f"alpha={'grid' if alpha in ALPHAS else 'rand'}"] += 1
    chk.dist[f"lasso rows kept {min(nz, 3)}{'+' if nz > 3 else ''}/zeroed {min(d - nz, 3)}{'+' if d - nz > 3 else ''}"] += 1
    chk.dist[f"hier max clipped={max(clipped)}"] += 1
    if any(np.sum(np.abs(U[j]) == np.abs(U[j][0])) > 1 for j in range(d) if hu > 1):
        chk.dist["ties in |u|"] += 1
    nontrivial = any(c >= 1 for c in clipped) or (0 < nz and np.any(np.abs(got[got != 0] - W[got != 0]) > 0))
    chk.count(("rows", d, hv, hu, alpha, M, tuple(clipped), nz) if nontrivial else None, n=2)
    if ok:
        chk.traces += 2
    chk.sample({"stream": "rows", "W": W.tolist(), "alpha": alpha, "linear_prox_grad": np.asarray(got).tolist()})


def check_groups_case(chk, rng, groups, d, hv, hu, alpha, M, rp, sig_stream, route="direct"):
    W = gen_mat(rng, d, hv)
    V, U = gen_mat(rng, d, hv), gen_mat(rng, d, hu)
    fix_skip_scope(V, U, alpha, groups)
    rp = dict(rp, groups=groups, W=W.tolist(), V=V.tolist(), U=U.tolist(), alpha=alpha, M=M, route=route)
    ok = True
    got = guarded(chk, "group_linear_prox_grad", rp, impl_linear, W, alpha, groups, route=route)
    exp = model_linear(chk, W, alpha, groups)
    res = guarded(chk, "group_mlp_prox_grad", rp, impl_mlp, V, U, alpha, M, groups, route=route)
    em = model_mlp(chk, V, U, alpha, M, groups)
    if got is None or res is None:
        chk.count(None, n=2)
        return
    gb, gt = res
    if exp is None or em is None:
        chk.fail("group:model-index-error", "the model reports IndexError on in-range groups", rp)
        return
    eb, et = em
    written = sorted({i for g in groups for i in g})
    for name, rows in (("W", exp), ("W_skip", eb), ("W1", et)):
        if [j for j in range(d) if rows[j] is not None] != written:
            chk.fail("group:written-rows", f"model writes rows {[j for j in range(d) if rows[j] is not None]} of {name}, groups cover {written}", rp)
            ok = False
    clipped = []
    # the last group writing a row wins; compare group by group on the rows the group owns at the end
    owner = {}
    for gi, g in enumerate(groups):
        for i in g:
            owner[i] = gi
    for gi, g in enumerate(groups):
        if not len(g):
            continue
        own = [k for k, i in enumerate(g) if owner[i] == gi]
        wf, vf, uf = W[g].ravel(), V[g].ravel(), U[g].ravel()
        sc = scale_of(wf, [alpha])
        for k in own:
            i = g[k]
            if exp[i] is None or eb[i] is None or et[i] is None:
                continue
            ok &= compare(chk, "group_linear_prox_grad", got[i], exp[i], sc, dict(rp, group=g, row=i), lasso_clear(wf, alpha), is_dyadic(wf))
            sc2 = scale_of(vf, uf, [alpha])
            clear, dy = hier_clear(vf, uf, alpha, M), is_dyadic(vf) and is_dyadic(uf)
            ok &= compare(chk, "group_mlp_prox_grad:beta", gb[i], eb[i], sc2, dict(rp, group=g, row=i), clear, dy)
            ok &= compare(chk, "group_mlp_prox_grad:theta", gt[i], et[i], sc2, dict(rp, group=g, row=i), clear, dy)
        if len(own) == len(g) and len(set(g)) == len(g):
            # L3 on the flattened group: one operator instance, one shared factor
            ok &= oracle_lasso(chk, "group_linear_prox_grad", wf, got[g].ravel(), alpha, rng, dict(rp, group=g))
            ok &= oracle_hier(chk, "group_mlp_prox_grad", vf, uf, gb[g].ravel(), gt[g].ravel(), alpha, M, rng, dict(rp, group=g))
            clipped.append(clipped_count(uf, gt[g].ravel()) if np.any(gb[g]) else -1)
    sizes = tuple(sorted(len(g) for g in groups))
    chk.dist[f"{sig_stream}: largest group {max(sizes) if sizes else 0}"] += 1
    nontrivial = any(len(g) >= 2 for g in groups) and (any(c >= 1 for c in clipped) or bool(np.any(got[written] != 0)))
    chk.count((sig_stream, tuple(map(tuple, groups)), hv, hu, alpha, M, tuple(clipped)) if nontrivial else None, n=2)
    if ok:
        chk.traces += 2
    if sig_stream == "group_rand":
        chk.sample({"stream": sig_stream, "groups": groups, "alpha": alpha, "M": M, "W_skip": V.tolist(), "W1": U.tolist(),
                    "group_mlp_prox_grad": [np.asarray(gb).tolist(), np.asarray(gt).tolist()]}, limit=6)


def stream_group_exh(chk, i, rng):
    """every set partition of d <= 5 features (75), group and member order shuffled"""
    part = [list(g) for g in ALL_PARTS[i % len(ALL_PARTS)]]
    d = sum(len(g) for g in part)
    if rng.random() < 0.7:
        part = [list(rng.permutation(g)) for g in part]
        part = [part[k] for k in rng.permutation(len(part))]
    part = [[int(x) for x in g] for g in part]
    _, hv, hu, alpha, M = draw_params(rng, i // len(ALL_PARTS) + i)
    check_groups_case(chk, rng, part, d, hv, hu, alpha, M, {"op": "groups"}, "group_exh")


def stream_group_rand(chk, i, rng):
    """random partitions of up to 6 features; sometimes incomplete covers, overlapping groups, repeated members, empty groups"""
    d, hv, hu, alpha, M = draw_params(rng, i)
    labels = rng.integers(0, int(rng.integers(1, d + 1)), size=d)
    groups = [[int(j) for j in rng.permutation(np.nonzero(labels == k)[0])] for k in np.unique(labels)]
    kind = "partition"
    r = rng.random()
    if r < 0.12 and len(groups) > 1:
        groups = groups[:-1]
        kind = "incomplete"
    elif r < 0.2:
        groups = groups + [[int(rng.integers(d))]]
        kind = "overlap"
    elif r < 0.26:
        groups[0] = groups[0] + [groups[0][0]]
        kind = "repeated-member"
    elif r < 0.3:
        groups = groups + [[]]
        kind = "empty-group"
    chk.dist["groups: " + kind] += 1
    route = "update" if i % 7 == 3 and kind == "partition" else "direct"
    if route == "update":
        chk.dist["route: _update_weights with identity optimiser step"] += 1
    check_groups_case(chk, rng, groups, d, hv, hu, alpha, M, {"op": "groups", "kind": kind}, "group_rand", route=route)


def stream_zero_skip(chk, i, rng):
    """guarded-out case of the theorems: zero skip row with zero hidden row and alpha > 0 (alpha/0 = +inf -> x = 0):
    the float model and the implementation must both return exact zeros; a zero row next to ordinary rows"""
    d, hv, hu = int(rng.integers(1, 5)), int(rng.integers(1, 5)), int(rng.integers(1, 5))
    alpha = float(rng.choice([1e-3, 0.3, 2.0, 20.0]))
    M = float(rng.choice(MS))
    V, U = rng.normal(size=(d, hv)), rng.normal(size=(d, hu))
    z = int(rng.integers(d))
    V[z] = 0.0
    U[z] = 0.0
    grouped = i % 2 == 1
    groups = [[j] for j in range(d)]
    rp = {"op": "zero_skip", "V": V.tolist(), "U": U.tolist(), "alpha": alpha, "M": M, "grouped": grouped}
    key = "group_mlp_prox_grad:zero-skip" if grouped else "mlp_prox_grad:zero-skip"
    res = guarded(chk, key, rp, impl_mlp, V, U, alpha, M, groups if grouped else None)
    if res is None:
        chk.count(None)
        return
    gb, gt = res
    if grouped:
        eb, et = model_mlp(chk, V, U, alpha, M, groups)
    else:
        eb, et = model_mlp(chk, V, U, alpha, M)
    ok = True
    if np.any(np.asarray(gb[z]) != 0) or np.any(np.asarray(gt[z]) != 0) or not np.all(np.isfinite(gb)) or not np.all(np.isfinite(gt)):
        chk.fail(key, f"zero skip/hidden row with alpha>0 is not mapped to exact zeros: beta={np.asarray(gb[z]).tolist()} theta={np.asarray(gt[z]).tolist()}", rp, layer="L3")
        ok = False
    for j in range(d):
        sc = scale_of(V[j], U[j], [alpha])
        ok &= compare(chk, key + ":beta", gb[j], eb[j], sc, dict(rp, row=j), True, False)
        ok &= compare(chk, key + ":theta", gt[j], et[j], sc, dict(rp, row=j), True, False)
        ok &= oracle_hier(chk, key, V[j], U[j], gb[j], gt[j], alpha, M, rng, dict(rp, row=j))
    chk.dist["zero skip row"] += 1
    chk.count(("zero_skip", d, hv, hu, alpha, M, grouped))
    if ok:
        chk.traces += 1


def stream_malformed(chk, i, rng):
    """an index >= d in a group: numpy raises IndexError, the model returns None"""
    d, hv, hu, alpha, M = draw_params(rng, i)
    W, V, U = gen_mat(rng, d, hv), gen_mat(rng, d, hv) + 0.5, gen_mat(rng, d, hu)
    groups = [[int(j)] for j in rng.permutation(d)]
    groups[int(rng.integers(len(groups)))].append(d + int(rng.integers(0, 3)))
    rp = {"op": "malformed", "groups": groups, "d": d}
    for name, call, model in (("group_linear_prox_grad", lambda: impl_linear(W, alpha, groups), lambda: model_linear(chk, W, alpha, groups)),
                              ("group_mlp_prox_grad", lambda: impl_mlp(V, U, alpha, M, groups), lambda: model_mlp(chk, V, U, alpha, M, groups))):
        try:
            call()
            raised = None
        except Exception as e:  # noqa
            raised = type(e).__name__
        m = model()
        if (raised is None) != (m is not None) or (raised is not None and raised != "IndexError"):
            chk.fail(name + ":index-error", f"out-of-range group index: implementation raised {raised}, model {'returns rows' if m is not None else 'reports IndexError'}", rp)
    chk.dist["malformed: index out of range"] += 1
    chk.count(None, n=2)


# ------------------------------------------------------------------ round-3 families: representation, corners, routes
FUNCS = ("linear_prox_grad", "group_linear_prox_grad", "mlp_prox_grad", "group_mlp_prox_grad")
# Behaviour of the UNCHANGED tree at representation corners that is outside what the estimators ever pass (weights are float
# ndarrays): observed, reported to the coordinator, recorded in the evidence notes, not a failure of C05.  Anything else is.
ASIS_EXCEPTIONS = {
    ("group_linear_prox_grad", "list"): "AttributeError", ("group_linear_prox_grad", "tuple"): "AttributeError",
    ("mlp_prox_grad", "list"): "AttributeError", ("mlp_prox_grad", "tuple"): "AttributeError",
    ("group_mlp_prox_grad", "list"): "AttributeError", ("group_mlp_prox_grad", "tuple"): "AttributeError",
    ("mlp_prox_grad", "bool"): "TypeError", ("group_mlp_prox_grad", "bool"): "TypeError",
}
_noted = set()


def observe(chk, tag, text):
    chk.dist["observation (not a failure): " + tag] += 1
    if tag not in _noted:
        _noted.add(tag)
        chk.notes.append("observation on the unchanged tree, " + tag + ": " + text)


def array_variants(A):
    out = {"fortran": np.asfortranarray(A)}
    big = np.full((2 * A.shape[0], A.shape[1]), 7.5)
    big[::2] = A
    out["view-rows"] = big[::2]
    out["view-negstride"] = A[:, ::-1].copy()[:, ::-1]
    out["transposed"] = np.ascontiguousarray(A.T).T
    ro = A.copy()
    ro.setflags(write=False)
    out["readonly"] = ro
    out["float32"] = A.astype(np.float32)
    if np.all(A == np.round(A)):
        out["int64"], out["int32"] = A.astype(np.int64), A.astype(np.int32)
    if np.all((A == 0) | (A == 1)):
        out["bool"] = A.astype(bool)
    out["list"] = A.tolist()
    out["tuple"] = tuple(map(tuple, A.tolist()))
    return out


def call_all(W, V, U, alpha, M, groups, route="direct"):
    return {"linear_prox_grad": lambda: impl_linear(W, alpha, route=route),
            "group_linear_prox_grad": lambda: impl_linear(W, alpha, groups, route=route),
            "mlp_prox_grad": lambda: impl_mlp(V, U, alpha, M, route=route),
            "group_mlp_prox_grad": lambda: impl_mlp(V, U, alpha, M, groups, route=route)}


def flat(r):
    return np.concatenate([np.ravel(np.asarray(x, dtype=float)) for x in (r if isinstance(r, tuple) else (r,))])


def stream_repr(chk, i, rng):
    """metamorphic: the same values in another representation (dtype, memory layout, read-only, list/tuple, scalar and group
    containers) give the same result as the float64 C-contiguous reference, raise nothing new and leave the caller's data alone"""
    d, hv, hu = int(rng.integers(1, 5)), int(rng.integers(1, 5)), int(rng.integers(1, 5))
    mode = ("eighths", "integral", "zero-one")[i % 3]
    if mode == "eighths":
        mk = lambda sh: rng.integers(-32, 33, size=sh) / 8.0      # exactly representable in float32 as well
    elif mode == "integral":
        mk = lambda sh: rng.integers(-4, 5, size=sh).astype(float)
    else:
        mk = lambda sh: rng.integers(0, 2, size=sh).astype(float)
    W, V, U = mk((d, hv)), mk((d, hv)), mk((d, hu))
    V[:, 0] = 1.0                                                   # non-zero skip rows
    alpha = float(rng.choice([0.0, 0.125, 0.5, 2.0]))
    M = float(rng.choice([0.0, 0.5, 1.0, 2.0]))
    labels = rng.integers(0, int(rng.integers(1, d + 1)), size=d)
    groups = [[int(j) for j in rng.permutation(np.nonzero(labels == k)[0])] for k in np.unique(labels)]
    rp = {"op": "repr", "W": W.tolist(), "V": V.tolist(), "U": U.tolist(), "alpha": alpha, "M": M, "groups": groups}
    ref = {}
    for name, f in call_all(W, V, U, alpha, M, groups).items():
        ref[name] = guarded(chk, name, rp, f)
    if any(v is None for v in ref.values()):
        chk.count(None)
        return
    sc = scale_of(W, V, U, [alpha])
    ok = True

    def run_variant(tag, calls, tol, inputs):
        nonlocal ok
        before = [snapshot(a) for a in inputs]
        for name, f in calls.items():
            try:
                r = f()
            except Exception as e:  # noqa
                want = ASIS_EXCEPTIONS.get((name, tag))
                if want is not None and want in [c.__name__ for c in type(e).__mro__]:
                    observe(chk, f"{name} on {tag} input raises {type(e).__name__}",
                            f"{name}(<{tag} of {np.asarray(inputs[0], dtype=float).shape} values>, ...) -> {type(e).__name__}: {str(e)[:120]}")
                    continue
                chk.fail(f"{name}:repr:{tag}:raised", f"{type(e).__name__} for the {tag} representation of an input the float64 call accepts: {e}",
                         dict(rp, variant=tag), layer="L3")
                ok = False
                continue
            a, b = flat(r), flat(ref[name])
            if a.shape != b.shape or not np.all(np.abs(a - b) <= tol * (1 + sc)):
                chk.fail(f"{name}:repr:{tag}", f"result differs from the float64 C-contiguous call: {a.tolist()} vs {b.tolist()}",
                         dict(rp, variant=tag), layer="L3")
                ok = False
        if [snapshot(a) for a in inputs] != before:
            chk.fail(f"prox:repr:{tag}:argument-modified", "an argument was modified in place", dict(rp, variant=tag), layer="L3")
            ok = False
        chk.dist["repr variant " + tag] += 1

    vW, vV, vU = array_variants(W), array_variants(V), array_variants(U)
    for tag in vW:
        if tag not in vV or tag not in vU:
            continue
        run_variant(tag, call_all(vW[tag], vV[tag], vU[tag], alpha, M, groups), 1e-5 if tag == "float32" else RTOL, [vW[tag], vV[tag], vU[tag], groups])
    # scalars: 0-d arrays, numpy scalars, python ints when integral
    for tag, conv in (("scalar-0d", lambda z: np.array(z)), ("scalar-np.float64", np.float64),
                      ("scalar-int", lambda z: int(z) if float(z).is_integer() else z)):
        a2, M2 = conv(alpha), conv(M)
        run_variant(tag, call_all(W, V, U, a2, M2, groups), RTOL, [W, V, U, groups])
    # group containers
    g_np = [np.array(g, dtype=np.int64) for g in groups]
    g_32 = [np.array(g, dtype=np.int32) for g in groups]
    for tag, gs in (("groups-int64-arrays", g_np), ("groups-int32-arrays", g_32)):
        calls = call_all(W, V, U, alpha, M, gs)
        run_variant(tag, {k: calls[k] for k in ("group_linear_prox_grad", "group_mlp_prox_grad")}, RTOL, [W, V, U, gs])
    # groups given as tuples: numpy reads W[(i, j)] as the ELEMENT W[i, j]; check_groups and the `groups: [list, None]` constraint
    # let a list of tuples through.  Observed on the unchanged tree, reported; recorded, not failed (see the final report).
    gt = [tuple(g) for g in groups]
    if any(len(g) >= 2 for g in groups):
        try:
            r = impl_linear(W, alpha, gt)
            rows = sorted({j for g in groups for j in g})
            if not np.all(np.abs(np.asarray(r)[rows] - np.asarray(ref["group_linear_prox_grad"])[rows]) <= RTOL * (1 + sc)):
                observe(chk, "groups given as tuples are read as multi-dimensional indices",
                        "group_linear_prox_grad([(0, 1), (2,)], W, alpha) != group_linear_prox_grad([[0, 1], [2]], W, alpha): W[(0, 1)] is the element "
                        "W[0, 1]; reachable through SparseLinearModel(groups=[(0, 1), (2,)]).fit(X) (check_groups returns the tuples unchanged)")
        except Exception as e:  # noqa
            observe(chk, "groups given as tuples raise " + type(e).__name__, str(e)[:160])
    chk.count(("repr", mode, d, hv, hu, alpha, M, tuple(map(tuple, groups))))
    if ok:
        chk.traces += 1


def relcmp(chk, key, got, exp, scale, rp, exact_zero):
    got, exp = np.asarray(got, dtype=float), np.asarray(exp, dtype=float)
    if got.shape != exp.shape or not np.all(np.abs(got - exp) <= RTOL * scale):
        chk.fail(key + ":value", f"implementation differs from the model (relative to scale {scale}): impl={got.tolist()} model={exp.tolist()}", rp)
        return False
    if exact_zero and np.any((got == 0) != (exp == 0)):
        chk.fail(key + ":exact-zero", f"exact-zero pattern differs: impl={got.tolist()} model={exp.tolist()}", rp)
        return False
    return True


def corner_cases():
    """(tag, W, V, U, alpha, M, groups, expectation) : sizes 1, inclusive interval ends, adjacent doubles, exact ties, -0.0, 1e+-150"""
    out = []
    up, dn = (lambda z: float(np.nextafter(z, np.inf))), (lambda z: float(np.nextafter(z, -np.inf)))
    for c in (1.0, 0.125, 8.0, 2.0 ** 500, 2.0 ** -500):      # powers of two: every scaling below is exact
        w = np.array([[3.0 * c, 4.0 * c]])            # ||w|| = 5c exactly (9c^2 + 16c^2 = 25c^2 and its root are exact)
        u = np.array([[2.0 * c, -2.0 * c, 1.0 * c]])
        for tag, a, want in (("alpha=norm", 5.0 * c, "zero"), ("alpha=next-above-norm", up(5.0 * c), "zero"),
                             ("alpha=next-below-norm", dn(5.0 * c), "kept"), ("alpha=0", 0.0, "identity")):
            out.append((f"lasso-boundary c={c:g} {tag}", w, w, u, a, 1.0, [[0]], want))
        # hierarchical operator exactly on a breakpoint: nv = 5c, |u| = (2c, 2c, c), M = 1: w_0 = 5c - alpha = 2c at alpha = 3c
        for tag, a in (("alpha-on-breakpoint", 3.0 * c), ("alpha-next-above", up(3.0 * c)), ("alpha-next-below", dn(3.0 * c))):
            out.append((f"hier-tie c={c:g} {tag}", w, w, u, a, 1.0, [[0]], None))
    for x, y in ((2.0, 3.0), (0.5, -0.25), (1.0, 0.0), (-1.0, -0.0)):
        for a in (0.0, 0.25, 1.0, 2.0):
            for M in (0.0, 1.0, 10.0):
                out.append((f"one-feature-one-unit x={x:g} y={y:g}", np.array([[x]]), np.array([[x]]), np.array([[y]]), a, M, [[0]], None))
    Wn = np.array([[1.0, -0.0], [-0.0, 2.0], [0.5, 0.5]])
    Un = np.array([[-0.0, 1.0, 0.0], [2.0, -0.0, -2.0], [-0.0, -0.0, 0.0]])
    for a in (0.0, 0.5):
        for M in (0.0, 1.0):
            out.append(("negative-zeros one group", Wn, Wn, Un, a, M, [[2, 0, 1]], None))
            out.append(("negative-zeros singletons", Wn, Wn, Un, a, M, [[1], [2], [0]], None))
    return out


CORNERS = corner_cases()


def stream_corner(chk, i, rng):
    """degenerate sizes and exact boundary values, both routes (module functions and _update_weights with an identity step)"""
    tag, W, V, U, alpha, M, groups, want = CORNERS[i % len(CORNERS)]
    route = "update" if i % 2 == 1 else "direct"      # len(CORNERS) is odd: the second pass swaps the routes
    rp = {"op": "corner", "tag": tag, "W": W.tolist(), "V": V.tolist(), "U": U.tolist(), "alpha": alpha, "M": M, "groups": groups, "route": route}
    c = float(np.max(np.abs(W)))
    scale = max(c, float(np.max(np.abs(U))), alpha)
    ok = True
    for grouped in (False, True):
        gs = groups if grouped else None
        key = ("group_" if grouped else "") + "linear_prox_grad:corner"
        got = guarded(chk, key, rp, impl_linear, W, alpha, gs, route=route)
        exp = model_linear(chk, W, alpha, gs)
        if got is not None:
            rows = range(W.shape[0]) if not grouped else sorted({j for g in groups for j in g})
            for j in rows:
                ok &= relcmp(chk, key, got[j], exp[j], scale, dict(rp, row=j), True)
            if want == "zero" and np.any(np.asarray(got) != 0):
                chk.fail(key + ":not-zero", f"||w|| <= alpha (exactly) but the output is not exactly zero: {np.asarray(got).tolist()}", rp, layer="L3")
                ok = False
            if want == "kept" and np.any(np.asarray(got) == 0):
                chk.fail(key + ":spurious-zero", f"alpha is the double just below ||w|| but the row was zeroed: {np.asarray(got).tolist()}", rp, layer="L3")
                ok = False
            if want == "identity" and not np.array_equal(np.asarray(got), W):
                chk.fail(key + ":alpha0", f"alpha = 0 must return the input: {np.asarray(got).tolist()}", rp, layer="L3")
                ok = False
            if 1e-100 < c < 1e100 and len(groups) == 1 or not grouped:
                if 1e-100 < c < 1e100:
                    ok &= oracle_lasso(chk, key, W[0] if not grouped else W[groups[0]].ravel(),
                                       np.asarray(got)[0] if not grouped else np.asarray(got)[groups[0]].ravel(), alpha, rng, rp)
        key = ("group_" if grouped else "") + "mlp_prox_grad:corner"
        res = guarded(chk, key, rp, impl_mlp, V, U, alpha, M, gs, route=route)
        em = model_mlp(chk, V, U, alpha, M, gs)
        if res is not None:
            for j in (range(V.shape[0]) if not grouped else sorted({j for g in groups for j in g})):
                ok &= relcmp(chk, key + ":beta", res[0][j], em[0][j], scale, dict(rp, row=j), False)
                ok &= relcmp(chk, key + ":theta", res[1][j], em[1][j], scale, dict(rp, row=j), False)
            if 1e-100 < c < 1e100:
                blocks = [[j] for j in range(V.shape[0])] if not grouped else groups
                for g in blocks:
                    ok &= oracle_hier(chk, key, V[g].ravel(), U[g].ravel(), np.asarray(res[0])[g].ravel(), np.asarray(res[1])[g].ravel(), alpha, M, rng, dict(rp, group=g))
        else:
            ok = False
    chk.dist["corner: " + tag.split(" c=")[0].split(" x=")[0]] += 1
    chk.dist["corner route: " + route] += 1
    chk.count(("corner", tag, route))
    if ok:
        chk.traces += 1


def stream_extreme(chk, i, rng):
    """magnitudes whose squares leave the double range: what the code does there is recorded (observation); finite results are
    still compared with the float model"""
    c = [1e200, 1e-200, 3e-310][i % 3]
    W = np.array([[3.0 * c, 4.0 * c]])
    U = np.array([[2.0 * c, -1.0 * c]])
    alpha, M = [0.0, 1.0][(i // 3) % 2], 1.0
    rp = {"op": "extreme", "W": W.tolist(), "U": U.tolist(), "alpha": alpha, "M": M}
    got = guarded(chk, "linear_prox_grad:extreme", rp, impl_linear, W, alpha)
    exp = np.asarray(model_linear(chk, W, alpha), dtype=float)
    res = guarded(chk, "mlp_prox_grad:extreme", rp, impl_mlp, W, U, alpha, M)
    em = model_mlp(chk, W, U, alpha, M)
    for name, g, e in (("linear_prox_grad", got, exp), ("mlp_prox_grad:beta", None if res is None else res[0], np.asarray(em[0], dtype=float)),
                       ("mlp_prox_grad:theta", None if res is None else res[1], np.asarray(em[1], dtype=float))):
        if g is None:
            continue
        g = np.asarray(g, dtype=float)
        # np.maximum / np.minimum propagate NaN, the model's nmax / nmin do not: only finite results are compared
        if np.all(np.isfinite(g)) and not np.all(np.abs(g - e) <= RTOL * max(np.max(np.abs(W)), alpha)):
            chk.fail(name + ":extreme", f"implementation differs from the float model at magnitude {c}: impl={g.tolist()} model={e.tolist()}", rp)
        if not np.all(np.isfinite(g)):
            observe(chk, f"{name.split(':')[0]} is not finite when the squared entries {'overflow' if c > 1 else 'underflow'}",
                    f"{name.split(':')[0]}(W={W.tolist()}" + (f", U={U.tolist()}" if "mlp" in name else "") + f", alpha={alpha}" + (", M=1.0" if "mlp" in name else "") + f") -> {g.tolist()}")
    chk.dist[f"extreme magnitude {c:g}"] += 1
    chk.count(None)


STREAMS = {"rows": (stream_rows, 700, 12000), "group_exh": (stream_group_exh, 375, 3750), "group_rand": (stream_group_rand, 420, 8000),
           "zero_skip": (stream_zero_skip, 80, 800), "malformed": (stream_malformed, 40, 400),
           "repr": (stream_repr, 45, 450), "corner": (stream_corner, 2 * len(CORNERS), 4 * len(CORNERS)), "extreme": (stream_extreme, 6, 6)}


def main():
    chk = Check("C05", props_files=["Props/C05.v", "Props/C05gen.v"])
    chk.build()
    chk.proofs()
    if PG is None:
        chk.notes.append("gemclus.sparse._prox_grad is not importable: operators observed through _update_weights with an identity optimiser step")
    if chk.replay_path:
        rp = json.load(open(chk.replay_path))
        st, case = rp["input"].get("stream"), rp["input"].get("case")
        chk.seed = rp.get("seed", chk.seed)
        if st in STREAMS:
            chk.run_stream(st, STREAMS[st][0], 0, only=case)
    else:
        for name, (fn, q, th) in STREAMS.items():
            cnt = q if chk.tier == "quick" else th
            if chk.l1_broken:
                cnt *= 3       # proof obligation broken: widen the failing-input search
            chk.run_stream(name, fn, cnt)
    chk.finish(rule="streams: rows = linear_prox_grad + mlp_prox_grad on d x h matrices (d, h in 1..6; three scales, zeros, ties among |u|, dyadic grids, "
                    "zero rows; alpha in {0,1e-3,0.3,2,20} or uniform, M in {0,0.05,1,10,100} or uniform); group_exh = both group operators on every set "
                    "partition of <= 5 features (75) with shuffled group/member order; group_rand = random partitions of <= 6 features plus incomplete, "
                    "overlapping, repeated-member and empty groups, 1 in 7 through _update_weights with an identity optimiser step; zero_skip = the "
                    "guarded-out zero skip row (u = 0, alpha > 0); malformed = out-of-range index; repr = same values as Fortran / strided / transposed / read-only / "
                    "float32 / int64 / int32 / bool arrays, lists, tuples, 0-d and integer scalars, int64/int32 group arrays: same result as the float64 call, "
                    "no new exception, arguments unchanged bit for bit; corner = sizes 1, alpha = ||w|| and its adjacent doubles, alpha = 0, alpha on a "
                    "breakpoint of the hierarchical search and its neighbours, -0.0 entries, scales 2^+-500, both routes; extreme = squared entries "
                    "overflow / underflow (observations only). Every implementation call compares its arguments with a snapshot taken before. Each case = 2 evaluations (lasso + hierarchical). "
                    "non-trivial = a hierarchy constraint is active (some |theta*_j| < |u_j| with beta* != 0) or a lasso row is shrunk to a non-zero row "
                    "(group streams: additionally a group of >= 2 features); distinct = distinct (shape, alpha, M, groups, clipped-count pattern)")


if __name__ == "__main__":
    main()
