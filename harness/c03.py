"""C03 — every training update follows the true gradient of the regularised objective.

Dynamic side: real `fit` runs of the 8 gradient-trained model families with
  * `BaseOptimizer.update_params` patched from outside: (parameters, gradients handed to the optimiser) at every step
    (for the sparse models this is before the proximal step, for RIM after the penalty was added),
  * the estimator's `_infer` / `_compute_grads` / `get_gemini` wrapped on the instance: batch rows, predictions,
    the GEMINI's affinity block and upstream gradient, the (possibly mlcl-decorated) gradient entering the backward pass.
L2: the extracted Coq model (Model/Forward.v + Model/Mlcl.v + Model/Backprop.v, float instance) recomputes the step.
L3: central finite differences of  GEMINI(infer(batch)) [+ constraint terms] - penalty  w.r.t. every parameter entry.
"""
import copy
import json
import numpy as np
from core import Check, enc_list, enc_mat, enc_vec, hx
import impl
from sklearn.neural_network._stochastic_optimizers import BaseOptimizer
from gemclus.gemini._utils import _str_to_gemini

FAMILIES = ["LinearModel", "RIM", "KernelRIM", "MLPModel", "SparseLinearModel", "SparseMLPModel", "CategoricalModel", "Douglas"]
GEMINIS = list(impl.G.AVAILABLE_GEMINIS)
NON_WS = [g for g in GEMINIS if not g.startswith("wasserstein")]
BS_CLASSES = ["1", "2", "half", "n", "None"]
RTOL_MODEL = 1e-9
RTOL_FD = 1e-5


# ------------------------------------------------------------------ recording a real fit
class Recorder:
    """Everything observed during one fit, one dict per optimiser step."""

    def __init__(self, est, ml, cl, factor):
        self.est, self.ml, self.cl, self.factor = est, ml, cl, factor
        self.steps = []
        self.cur = {}
        self.gem = None
        self.gem_eval = None
        self.gems = []

    def install(self):
        est, rec = self.est, self
        cls = type(est)
        orig_infer = est._infer

        def rec_infer(X, retain=True):
            y = orig_infer(X, retain)
            if retain:
                rec.cur = {"X": np.array(X, dtype=float, copy=True), "y_pred": np.array(y, copy=True)}
            return y
        est._infer = rec_infer
        orig_cg = est._compute_grads            # the class's backward pass (bound method)

        def rec_inner(X, y_pred, gradient):
            rec.cur["g_in"] = np.array(gradient, copy=True)     # what enters the backward pass (after decoration, if any)
            out = orig_cg(X, y_pred, gradient)
            rec.cur["cg_out"] = [np.array(a, copy=True) for a in out]
            return out
        est._compute_grads = rec_inner
        if self.ml or self.cl:
            impl.add_mlcl_constraint(est, self.ml or None, self.cl or None, factor=self.factor)
        dec_cg = est._compute_grads

        def rec_outer(X, y_pred, gradient):
            rec.cur["g_raw"] = np.array(gradient, copy=True)    # the GEMINI's gradient, before the in-place decoration
            rec.cur["idx"] = list(getattr(est._batchify, "indices", [])) if (rec.ml or rec.cl) else None
            return dec_cg(X, y_pred, gradient)
        est._compute_grads = rec_outer
        orig_gg = est.get_gemini

        def rec_get_gemini():
            g = orig_gg()                      # a string GEMINI yields a fresh (equivalent) instance per call: wrap each
            if "evaluate" not in vars(g):
                orig_eval = g.evaluate
                rec.gem, rec.gem_eval = g, orig_eval
                rec.gems.append(g)

                def rec_eval(y_pred, affinity, return_grad=False):
                    if return_grad:
                        rec.cur["affinity"] = None if affinity is None else np.array(affinity, copy=True)
                    return orig_eval(y_pred, affinity, return_grad)
                g.evaluate = rec_eval
            return g
        est.get_gemini = rec_get_gemini

    def fit(self, X, path_kw=None, y=None, entry="fit"):
        orig_up = BaseOptimizer.update_params
        self.result = None
        rec = self

        def hook(opt, params, grads):
            st = rec.cur
            st["params"] = [np.array(p, copy=True) for p in params]
            st["grads"] = [np.array(g, copy=True) for g in grads]
            rec.steps.append(st)
            rec.cur = {}
            return orig_up(opt, params, grads)
        BaseOptimizer.update_params = hook
        try:
            if path_kw is not None:
                self.result = self.est.path(X, y, **path_kw)
            elif entry == "fit_predict":
                self.result = self.est.fit_predict(X, y)
            else:
                self.est.fit(X, y)
        finally:
            BaseOptimizer.update_params = orig_up
            for g in self.gems:
                vars(g).pop("evaluate", None)


# ------------------------------------------------------------------ the model's step (L2)
def enc_pairs(ps):
    return " ".join([str(len(ps))] + [f"{a} {b}" for a, b in ps])


def model_step(chk, fam, est, st, rec):
    """Ask the extracted model for (Y, decorated G, directions) at the recorded state."""
    X, G, P = st["X"], st["g_raw"], st["params"]
    dec = "0"
    if st["idx"] is not None:
        dec = f"1 {hx(rec.factor)} {enc_list(st['idx'])} {enc_pairs(rec.ml)} {enc_pairs(rec.cl)}"
    n, K = G.shape
    pre = f"{dec} {enc_mat(X)} {enc_mat(G)}"
    if fam in ("LinearModel", "SparseLinearModel"):
        t = chk.ask(f"c03.lin lin {pre} {enc_mat(P[0])} {enc_vec(P[1].ravel())}")
        shapes = [P[0].shape, P[1].shape]
    elif fam == "RIM":
        t = chk.ask(f"c03.lin rim {pre} {enc_mat(P[0])} {enc_vec(P[1].ravel())} {hx(est.reg)}")
        shapes = [P[0].shape, P[1].shape]
    elif fam == "KernelRIM":
        t = chk.ask(f"c03.lin krim {pre} {enc_mat(P[0])} {enc_vec(P[1].ravel())} {hx(est.reg)} {enc_mat(est.training_kernel_)}")
        shapes = [P[0].shape, P[1].shape]
    elif fam == "MLPModel":
        t = chk.ask(f"c03.mlp mlp {pre} {enc_mat(P[0])} {enc_mat(P[1])} {enc_vec(P[2].ravel())} {enc_vec(P[3].ravel())}")
        shapes = [p.shape for p in P]
    elif fam == "SparseMLPModel":
        t = chk.ask(f"c03.mlp smlp {pre} {enc_mat(P[0])} {enc_mat(P[1])} {enc_vec(P[3].ravel())} {enc_vec(P[4].ravel())} {enc_mat(P[2])}")
        shapes = [p.shape for p in P]
    elif fam == "CategoricalModel":
        t = chk.ask(f"c03.cat {pre} {enc_mat(P[0])}")
        shapes = [P[0].shape]
    elif fam == "Douglas":
        feats = [f for f, _ in est.cut_points_list_]
        cuts = " ".join([str(len(P) - 1)] + [enc_vec(c) for c in P[1:]])
        t = chk.ask(f"c03.dg {pre} {hx(est.temperature)} {enc_mat(P[0])} {enc_list(feats)} {cuts}")
        shapes = [p.shape for p in P]
    else:
        raise ValueError(fam)
    Y = np.array(t.floats(n * K)).reshape(n, K)
    Gd = np.array(t.floats(n * K)).reshape(n, K)
    dirs = [np.array(t.floats(int(np.prod(s)))).reshape(s) for s in shapes]
    return Y, Gd, dirs


def close(a, b, rtol):
    a, b = np.asarray(a, dtype=float), np.asarray(b, dtype=float)
    if a.shape != b.shape:
        return False
    if not (np.isfinite(a).all() and np.isfinite(b).all()):
        return bool(np.array_equal(np.isnan(a), np.isnan(b)) and np.array_equal(np.isinf(a), np.isinf(b)))
    scale = max(np.abs(a).max(initial=0.0), np.abs(b).max(initial=0.0))
    return bool(np.abs(a - b).max(initial=0.0) <= rtol * (1.0 + scale))



# ------------------------------------------------------------------ which samples is a recorded batch made of? (independent of the code's bookkeeping)
def true_indices(Xb, Xfull):
    """Row numbers (in the data handed to fit) of the rows of a recorded batch, by value; duplicated rows are
    interchangeable (same features, hence same affinities) and are assigned first-free."""
    used, idx = set(), []
    for row in Xb:
        hit = next((j for j in range(len(Xfull)) if j not in used and np.array_equal(Xfull[j], row)), None)
        if hit is None:
            return None
        used.add(hit)
        idx.append(hit)
    return idx


def align_affinity(chk, key, est, rec, fam, X, steps, replay, dynamic, y=None):
    """L3: the affinity block every training step was evaluated with must be the rows AND columns of the batch's own
    samples in the full affinity (computed here, on the full data, with the GEMINI's public compute_affinity).
    The independently derived block replaces the recorded one in the finite-difference objective."""
    Xfull = np.asarray(est.training_kernel_ if fam == "KernelRIM" else X, dtype=float)
    try:
        A_full = rec.gem.compute_affinity(Xfull, None if y is None else np.asarray(y, dtype=float))
    except Exception:
        A_full = None
    bad = None
    for st in steps:
        idx = list(range(len(Xfull))) if fam == "CategoricalModel" else true_indices(st["X"], Xfull)
        st["true_idx"] = idx
        if idx is None:
            bad = bad or ("batch-row-unknown", st["step"], "a row of the batch handed to _infer is not a row of the training data")
            continue
        if st.get("idx") is not None and list(st["idx"]) != idx and not any((Xfull[a] == Xfull[b]).all() for a in idx for b in idx if a != b):
            bad = bad or ("indices-misreported", st["step"], f"_batchify.indices={st['idx']} but the batch rows are samples {idx}")
        if A_full is None or dynamic:
            continue                      # no affinity (f-divergences) / dynamic path: the affinity is recomputed on the selected features
        blk = np.asarray(A_full)[np.ix_(idx, idx)]
        st["affinity_ind"] = blk
        rec_blk = st.get("affinity")
        if rec_blk is None or np.shape(rec_blk) != blk.shape or not np.allclose(rec_blk, blk, rtol=1e-12, atol=1e-12, equal_nan=True):
            bad = bad or ("affinity-misaligned", st["step"], "the affinity block used for the GEMINI gradient is not the rows/columns of the batch's own samples "
                          f"(batch samples {idx})")
    chk.dist["affinity_blocks_aligned_checked"] += sum(1 for st in steps if "affinity_ind" in st)
    if bad is not None:
        chk.fail(f"{key}:{bad[0]}", f"step {bad[1]}: {bad[2]}", dict(replay, step=bad[1]), layer="L3")


# ------------------------------------------------------------------ finite differences (L3)
def objective(est, rec, st, fam):
    """GEMINI(infer(batch)) + constraint terms - penalty at the estimator's *current* parameters (implementation's
    own forward pass and score; nothing of the model is used)."""
    y = type(est)._infer(est, st["X"], False)
    val = float(np.asarray(rec.gem_eval(y, st.get("affinity_ind", st["affinity"]), False)))
    idx = st["idx"]
    if idx is not None:
        for (i, j) in rec.cl:
            if i in idx and j in idx:
                val += rec.factor / 2 * float(np.sum((y[idx.index(i)] - y[idx.index(j)]) ** 2))
        for (i, j) in rec.ml:
            if i in idx and j in idx:
                val -= rec.factor / 2 * float(np.sum((y[idx.index(i)] - y[idx.index(j)]) ** 2))
    if fam == "RIM":
        val -= est.reg * float(np.sum(est.W_ ** 2))
    if fam == "KernelRIM":
        val -= est.reg * float(np.trace(est.W_.T @ est.training_kernel_ @ est.W_))
    return val


def relu_pattern(est, fam, X):
    if fam in ("MLPModel", "SparseMLPModel"):
        return (X @ est.W1_ + est.b1_) > 0
    return None


def fd_check(chk, key, est, rec, st, fam, replay, max_entries):
    """Compare -grads with central differences of the objective, entry by entry, at the recorded state."""
    live = est._get_weights()
    saved = [np.array(p, copy=True) for p in live]
    for p, q in zip(live, st["params"]):
        np.copyto(p, q)
    y0 = type(est)._infer(est, st["X"], False)
    eps = rec.gem.epsilon
    res = {"checked": 0, "kink": 0, "unstable": 0, "bad": 0}
    if not np.isfinite(y0).all() or (y0 <= eps * 10).any() or (y0 >= 1 - 1e-9).any():
        res["clipped"] = 1                       # on / next to the clip boundary: the score is not differentiable there
        for p, q in zip(live, saved):
            np.copyto(p, q)
        return res
    if fam == "Douglas" and any(len(np.unique(c)) < len(c) for c in st["params"][1:]):
        res["cut_tie"] = 1                       # tied cut points: argsort is not locally constant, the pass is not differentiable there
        for p, q in zip(live, saved):
            np.copyto(p, q)
        return res
    pat0 = relu_pattern(est, fam, st["X"])
    gmax = max(float(np.abs(g).max(initial=0.0)) for g in st["grads"])
    entries = [(a, ix) for a, p in enumerate(live) for ix in np.ndindex(p.shape)]
    if len(entries) > max_entries:
        sel = chk.rng("fd-entries", replay.get("case_id", 0), st.get("step", 0)).choice(len(entries), size=max_entries, replace=False)
        entries = [entries[s] for s in sorted(sel)]
    worst = None
    f0 = objective(est, rec, st, fam)
    for a, ix in entries:
        p = live[a]
        base = p[ix]
        cds, sds = [], []
        kink = False
        h0 = 1e-3 * (1.0 + abs(base))
        for hh in (h0, h0 / 2, h0 / 4):
            vals = []
            for sgn in (1, -1):
                p[ix] = base + sgn * hh
                if pat0 is not None and not np.array_equal(relu_pattern(est, fam, st["X"]), pat0):
                    kink = True
                vals.append(objective(est, rec, st, fam))
            p[ix] = base
            cds.append((vals[0] - vals[1]) / (2 * hh))
            sds.append((vals[0] + vals[1] - 2 * f0) / hh)      # forward minus backward one-sided slope
        # rounding noise of the objective itself: re-evaluate next to the two innermost points (relative shift 1e-8 of the step)
        noise = 0.0
        for sgn, v in zip((1, -1), vals):
            p[ix] = base + sgn * hh * (1 + 1e-8)
            noise = max(noise, abs(objective(est, rec, st, fam) - v))
        p[ix] = base
        noise = noise / hh
        if kink:
            res["kink"] += 1
            continue
        # Richardson extrapolation of the central differences (error O(h^4)); two independent estimates
        r1 = (4 * cds[1] - cds[0]) / 3
        r2 = (4 * cds[2] - cds[1]) / 3
        ana = -float(st["grads"][a][ix])
        scale = max(abs(ana), abs(r1), abs(r2), 0.05 * gmax)
        tol = RTOL_FD * scale + 1e-10
        if not all(np.isfinite(cds)) or abs(r1 - r2) > tol / 2 or abs(cds[0] - cds[1]) > 1e-2 * scale or 4 * noise > tol:
            res["unstable"] += 1      # estimates disagree: non-smooth neighbourhood (TV, Wasserstein LP) or an ill-conditioned score
            continue
        # smooth objective: the one-sided slopes differ by h f'' (halves with h); a kink next to the point (MMD / sqrt at a
        # zero distance, |.| of TV, LP basis change) leaves a slope jump that does not shrink with h
        if any(abs(sds[j + 1]) > tol and abs(sds[j + 1]) > abs(sds[j]) / 1.5 for j in (0, 1)):
            res["nonsmooth"] = res.get("nonsmooth", 0) + 1
            continue
        res["checked"] += 1
        err = abs(r1 - ana)
        if err > tol + 10 * abs(r1 - r2):         # the spread of the two estimates is the oracle's own error bar
            res["bad"] += 1
            if worst is None or err > worst[0]:
                worst = (err, a, ix, ana, r1)
    for p, q in zip(live, saved):
        np.copyto(p, q)
    if worst is not None:
        err, a, ix, ana, fd = worst
        chk.fail(key, f"direction handed to the optimiser is not minus the gradient of the objective: parameter #{a} entry {ix}: "
                      f"-grad={ana:.10g} finite-difference={fd:.10g} ({res['bad']} of {res['checked']} entries off)",
                 dict(replay, step=st.get("step"), param=a, entry=list(ix)), layer="L3")
    return res



# ------------------------------------------------------------------ hypotheses of the theorems, checked on the implementation (L3)
def digit(F, B, f, l):
    return (l // B ** (F - 1 - f)) % B


def check_hypotheses(chk, key, est, fam, st, replay):
    """The adjoint theorems assume: Douglas's retained leaf matrix is the Kronecker product of the retained binnings
    (row-major leaf index), the retained orders are permutations whose argsort is their inverse, temperature != 0;
    KernelRIM's training kernel is symmetric.  MLP: count states with a pre-activation exactly on the kink."""
    if fam == "Douglas":
        live = est._get_weights()
        saved = [np.array(p, copy=True) for p in live]
        for p, q in zip(live, st["params"]):
            np.copyto(p, q)
        type(est)._infer(est, st["X"], True)
        leaf, bins, orders = est._leaf, est._all_binnings, est._all_orders
        for p, q in zip(live, saved):
            np.copyto(p, q)
        F, B = len(bins), bins[0].shape[1]
        L = leaf.shape[1]
        prod = np.ones_like(leaf)
        for f in range(F):
            prod *= bins[f][:, [digit(F, B, f, l) for l in range(L)]]
        ok = L == B ** F and np.allclose(prod, leaf, rtol=1e-12, atol=1e-300)
        for o in orders:
            o = list(map(int, o))
            inv = [o.index(p) for p in range(len(o))]
            ok = ok and sorted(o) == list(range(len(o))) and list(map(int, np.argsort(o))) == inv
        ok = ok and est.temperature != 0
        if not ok:
            chk.fail(key + ":hypothesis", "Douglas retained state violates the structure the adjoint theorem assumes "
                                          "(leaf = Kronecker product of the binnings / orders are permutations / temperature != 0)", replay, layer="L3")
        chk.dist["hyp_douglas_structure_checked"] += 1
    if fam == "KernelRIM":
        Kt = est.training_kernel_
        if not np.allclose(Kt, Kt.T, rtol=1e-12, atol=1e-12):
            chk.fail(key + ":hypothesis", "KernelRIM training kernel is not symmetric: 2*reg*K@W is then not the gradient of reg*tr(W^T K W)", replay, layer="L3")
        chk.dist["hyp_kernel_symmetric_checked"] += 1
    if fam in ("MLPModel", "SparseMLPModel"):
        A = st["X"] @ st["params"][0] + st["params"][-2]
        chk.dist["hyp_relu_on_kink_states"] += int((A == 0).any())
        chk.dist["hyp_relu_off_kink_states"] += int(not (A == 0).any())


# ------------------------------------------------------------------ case generation
def make_case(chk, i, rng):
    fam = FAMILIES[i % len(FAMILIES)]
    j = i // len(FAMILIES)
    solver = ["sgd", "adam"][j % 2]
    bsc = BS_CLASSES[(j // 2) % 5]
    decorated = bool((j // 10) % 2)
    n = int(rng.integers(6, 21))
    d = int(rng.integers(1, 5))
    K = int(rng.integers(2, 4))
    if fam == "Douglas":
        d = int(rng.integers(1, 4))
    bs = {"1": 1, "2": 2, "half": n // 2, "n": n, "None": None}[bsc]
    if fam in ("RIM", "KernelRIM"):
        gem = "mi"
    else:
        if i % 11 == 5:                                              # Wasserstein sparingly (one LP per cluster / cluster pair)
            gem = ["wasserstein_ova", "wasserstein_ovo"][int(rng.integers(0, 2))]
        else:
            gem = NON_WS[int(rng.integers(0, len(NON_WS)))]
    kw = dict(n_clusters=K, gemini=gem, max_iter=3, learning_rate=float(rng.choice([0.02, 0.05, 0.1])), solver=solver,
              batch_size=bs, random_state=int(rng.integers(0, 10 ** 6)))
    if fam in ("MLPModel", "SparseMLPModel"):
        kw["n_hidden_dim"] = int(rng.integers(1, 6))
    if fam in ("RIM", "KernelRIM"):
        kw["reg"] = float(rng.choice([0.0, 0.05, 0.3, 1.0]))
    if fam == "KernelRIM":
        kw["base_kernel"] = str(rng.choice(["linear", "rbf", "laplacian"]))
    if fam in ("SparseLinearModel", "SparseMLPModel"):
        kw["alpha"] = float(rng.choice([0.0, 0.01, 0.3]))
    if fam == "SparseMLPModel":
        kw["M"] = float(rng.choice([1.0, 10.0]))
    if fam == "Douglas":
        kw["n_cuts"] = int(rng.integers(1, 3)) if d >= 3 else int(rng.integers(1, 4))
        kw["temperature"] = float(rng.choice([0.1, 0.5, 1.0]))
    X = impl.blobs(rng, n, d, k=K, scale=float(rng.choice([0.5, 1.0])))
    ml, cl, factor = [], [], 1.0
    if decorated:
        perm = rng.permutation(n)
        npairs = int(rng.integers(1, 4))
        pairs = [(int(perm[2 * a]), int(perm[2 * a + 1])) for a in range(min(npairs + 1, n // 2))]
        ml, cl = pairs[:1 + npairs // 2], pairs[1 + npairs // 2:]
        if rng.random() < 0.3 and len(pairs) >= 2:           # chains sharing a sample
            cl = cl + [(pairs[0][0], pairs[1][1])]
        factor = float(rng.choice([0.5, 1.0, 3.0]))
    return fam, kw, X, ml, cl, factor, bsc, decorated


def snapshot(a):
    """Bit-exact picture of an argument (arrays: dtype, shape, strides-independent bytes, flags; containers: deep copy)."""
    if isinstance(a, np.ndarray):
        return ("nd", a.dtype.str, a.shape, np.ascontiguousarray(a).tobytes(), bool(a.flags.writeable))
    return ("py", copy.deepcopy(a))


def same_snapshot(a, snap):
    if snap[0] == "nd":
        return isinstance(a, np.ndarray) and (a.dtype.str, a.shape, np.ascontiguousarray(a).tobytes(), bool(a.flags.writeable)) == snap[1:]
    return a == snap[1] if not isinstance(a, np.ndarray) else False


def install_init_hook(est, hook):
    """Run `hook(est)` right after the estimator's own _init_params (to start from a chosen corner of parameter space)."""
    orig = est._init_params

    def init(random_state, X=None):
        orig(random_state, X)
        hook(est)
    est._init_params = init


def run_case(chk, i, stream, case, path_kw=None, y=None, entry="fit", init_hook=None, tag=None):
    fam, kw, X, ml, cl, factor, bsc, decorated = case
    est = impl.make(fam, **kw)
    rec = Recorder(est, ml, cl, factor)
    rec.install()
    if init_hook is not None:
        install_init_hook(est, init_hook)
    replay = {"family": fam, "kwargs": kw, "n": len(X), "d": X.shape[1], "must_link": ml, "cannot_link": cl, "factor": factor, "case_id": i,
              "entry": entry if path_kw is None else "path", "tag": tag, "precomputed": y is not None}
    snaps = [snapshot(X), snapshot(y)] if y is not None else [snapshot(X)]
    rec.fit(X, path_kw, y, entry)
    if not same_snapshot(X, snaps[0]) or (y is not None and not same_snapshot(y, snaps[1])):
        chk.fail(f"{fam}:{'mlcl' if decorated else 'plain'}:argument-mutated", "fit/path changed the caller's X or affinity array", replay, layer="L3")
    n = len(X)
    steps = rec.steps
    for s, st in enumerate(steps):
        st["step"] = s
    bs_eff = n if (kw["batch_size"] is None or fam == "CategoricalModel") else kw["batch_size"]
    exp_steps = kw["max_iter"] * (-(-n // max(1, bs_eff)))
    key = f"{fam}:{'mlcl' if decorated else 'plain'}"
    if (path_kw is None and len(steps) != exp_steps) or len(steps) == 0 or any(k not in st for st in steps for k in ("X", "y_pred", "g_raw", "g_in", "params", "grads")):
        chk.fail(key + ":trace", f"recorded {len(steps)} optimiser steps, expected {exp_steps} (or an incomplete step record)", replay)
        chk.count(None)
        return
    chk.traces += 1
    align_affinity(chk, key, est, rec, fam, X, steps, replay, dynamic=bool(kw.get("dynamic")) and path_kw is not None and y is None, y=y)
    moved = any(not np.array_equal(a, b) for a, b in zip(steps[0]["params"], steps[-1]["params"]))
    # ---- L2 on every step (capped), L3 on a few steps spread over the epochs (never the very first: parameters must have moved)
    cap = 14 if chk.tier == "quick" else 60
    l2_steps = list(range(len(steps))) if len(steps) <= cap else sorted(set(np.linspace(0, len(steps) - 1, cap).astype(int).tolist()))
    nfd = 2 if chk.tier == "quick" else 5
    fd_steps = sorted(set(np.linspace(max(1, len(steps) // 3), len(steps) - 1, nfd).astype(int).tolist()))
    nonfinite = 0
    in_batch_pairs = 0
    for s in l2_steps:
        st = steps[s]
        if not all(np.isfinite(g).all() for g in st["grads"]) or not all(np.isfinite(p).all() for p in st["params"]) \
                or not np.isfinite(st["g_raw"]).all():
            nonfinite += 1
            continue
        if fam in ("MLPModel", "SparseMLPModel"):
            A_pre = st["X"] @ st["params"][0] + st["params"][-2]
            tiny = 1e-12 * (1.0 + float(np.abs(st["X"]).max(initial=0.0)) * float(np.abs(st["params"][0]).max(initial=0.0)))
            if ((A_pre != 0) & (np.abs(A_pre) < tiny)).any():
                chk.dist["l2_relu_near_tie_steps"] += 1       # the sign of a rounding residue decides the mask: no clear margin, not compared
                continue
        Y, Gd, dirs = model_step(chk, fam, est, st, rec)
        rp = dict(replay, step=s)
        if not close(Y, st["y_pred"], RTOL_MODEL):
            chk.fail(key + ":infer", f"_infer differs from the model's forward pass at step {s} (max abs diff {np.abs(Y - st['y_pred']).max():.3g})", rp)
        if not close(Gd, st["g_in"], RTOL_MODEL):
            chk.fail(key + ":decoration", f"gradient entering _compute_grads differs from the model's (decorated) upstream gradient at step {s}", rp)
        for a, (gm, gi) in enumerate(zip(dirs, st["grads"])):
            if not close(gm, gi.reshape(gm.shape), RTOL_MODEL):
                chk.fail(key + f":grads[{a}]", f"direction #{a} handed to the optimiser differs from the model's _compute_grads at step {s} "
                                               f"(max abs diff {np.abs(gm - gi.reshape(gm.shape)).max():.3g})", rp)
        if st["idx"] is not None:
            in_batch_pairs += sum(1 for (a, b) in ml + cl if a in st["idx"] and b in st["idx"])
    fdres = {"checked": 0, "kink": 0, "unstable": 0, "nonsmooth": 0, "bad": 0, "clipped": 0, "cut_tie": 0}
    max_entries = 40 if chk.tier == "quick" else 200
    for s in fd_steps:
        st = steps[s]
        if not all(np.isfinite(g).all() for g in st["grads"]) or not all(np.isfinite(p).all() for p in st["params"]):
            continue
        check_hypotheses(chk, key, est, fam, st, dict(replay, step=s))
        r = fd_check(chk, key + ":fd", est, rec, st, fam, replay, max_entries)
        for k2, v in r.items():
            fdres[k2] = fdres.get(k2, 0) + v
    chk.dist[stream + ":family:" + fam] += 1
    if tag:
        chk.dist[f"{stream}:{tag}"] += 1
    chk.dist["gemini:" + str(kw["gemini"])] += 1
    chk.dist["solver:" + kw["solver"]] += 1
    chk.dist["batch:" + bsc] += 1
    chk.dist["decorated" if decorated else "plain"] += 1
    chk.dist["steps"] += len(steps)
    chk.dist["l2_steps"] += len(l2_steps) - nonfinite
    chk.dist["nonfinite_steps"] += nonfinite
    for k2, v in fdres.items():
        chk.dist["fd_" + k2] += v
    if decorated:
        chk.dist["decorated_steps_with_pair_in_batch"] += in_batch_pairs
    nontrivial = moved and fdres["checked"] > 0 and (not decorated or in_batch_pairs > 0 or bsc in ("1", "edge", "path", "bound", "pre"))
    chk.count((stream, fam, kw["gemini"], kw["solver"], bsc, decorated) if nontrivial else None)
    chk.sample({"stream": stream, "family": fam, "gemini": kw["gemini"], "solver": kw["solver"], "batch_size": kw["batch_size"], "n": n,
                "steps": len(steps), "decorated": decorated, "fd": fdres})


def stream_fit(chk, i, rng):
    run_case(chk, i, "fit", make_case(chk, i, rng))


def stream_path(chk, i, rng):
    """The second training loop of the sparse models: path() (initial fit with alpha = 0, then SGD steps with growing alpha)."""
    fam = ["SparseLinearModel", "SparseMLPModel"][i % 2]
    n = int(rng.integers(6, 15))
    d = int(rng.integers(3, 5))
    gem = NON_WS[int(rng.integers(0, len(NON_WS)))]
    bs = [None, 3, n // 2, n, n + 2][i % 5]
    kw = dict(n_clusters=2, gemini=gem, max_iter=2, learning_rate=0.05, solver=["sgd", "adam"][(i // 2) % 2], batch_size=bs,
              alpha=float(rng.choice([0.05, 0.3])), random_state=int(rng.integers(0, 10 ** 6)), dynamic=bool((i // 4) % 2))
    if fam == "SparseMLPModel":
        kw["n_hidden_dim"] = int(rng.integers(1, 4))
    X = impl.blobs(rng, n, d, k=2)
    ml, cl, factor = [], [], 1.0
    if (i // 2) % 2 == 1:
        a, b, c = (int(v) for v in rng.permutation(n)[:3])
        ml, cl, factor = [(a, b)], [(b, c)], 1.5
    pk = dict(alpha_multiplier=3.0, min_features=[d - 1, d - 1, d][i % 3], max_patience=1, keep_threshold=[0.9, 1.0][(i // 3) % 2])
    run_case(chk, i, "path", (fam, kw, X, ml, cl, factor, "path", bool(ml or cl)), path_kw=pk,
             tag=f"bs={'None' if bs is None else ('n' if bs == n else ('>n' if bs > n else '<n'))},min_features={'d' if pk['min_features'] == d else 'd-1'},keep={pk['keep_threshold']}")


def stream_edge(chk, i, rng):
    """Edge shapes and odd-but-accepted constraint lists: a single cluster, duplicated rows with a constant feature,
    saturated predictions (clip mask active), pairs that never meet in a batch / repeated / reversed pairs."""
    fam = FAMILIES[(i // 4) % len(FAMILIES)]
    variant = i % 4
    solver = ["sgd", "adam"][(i // 32) % 2]
    n = int(rng.integers(4, 11))
    d = int(rng.integers(1, 4))
    K = 1 if variant == 0 else 2
    gem = "mi" if fam in ("RIM", "KernelRIM") else NON_WS[int(rng.integers(0, len(NON_WS)))]
    bs = [None, 2, 3, 1][int(rng.integers(0, 4))]
    kw = dict(n_clusters=K, gemini=gem, max_iter=3, learning_rate=0.05, solver=solver, batch_size=bs, random_state=int(rng.integers(0, 10 ** 6)))
    if fam in ("MLPModel", "SparseMLPModel"):
        kw["n_hidden_dim"] = int(rng.integers(1, 4))
    if fam in ("RIM", "KernelRIM"):
        kw["reg"] = 0.2
    if fam == "KernelRIM":
        kw["base_kernel"] = [sym_callable_kernel, "linear"][int(rng.integers(0, 2))]
    if fam in ("SparseLinearModel", "SparseMLPModel"):
        kw["alpha"] = 0.05
    if fam == "Douglas":
        kw["n_cuts"] = int(rng.integers(1, 3))
        kw["temperature"] = 0.5
        if d >= 2 and rng.random() < 0.5:
            kw["feature_mask"] = np.array([True] + [bool(rng.integers(0, 2)) for _ in range(d - 1)])
    X = impl.blobs(rng, n, d, k=2)
    ml, cl, factor = [], [], 1.0
    if variant == 1:
        X[1] = X[0]
        X[-1] = X[0]
        X[:, d - 1] = 0.0 if d > 1 or fam == "Douglas" else X[:, d - 1]
    if variant == 2:
        X = X * 30.0
    if variant == 3:
        a, b, c = (int(v) for v in rng.permutation(n)[:3])
        ml = [(a, b), (b, a), (a, b)]                      # repeated and reversed: contributions add up
        cl = [(c, n + 5), (n + 7, n + 9), (a, c)]          # indices beyond the data never fall in a batch
        factor = 2.0
    decorated = bool(ml or cl)
    if fam == "KernelRIM" and callable(kw.get("base_kernel")):
        kw = dict(kw)
    run_case(chk, i, "edge", (fam, kw, X, ml, cl, factor, "edge", decorated))



# ------------------------------------------------------------------ round-3 families: boundaries, precomputed affinities, representations
def grid(rng, n, d, step=8, lo=-16, hi=17):
    """Data on a dyadic grid (multiples of 1/step): exactly representable in float32, rows made distinct."""
    while True:
        X = rng.integers(lo, hi, size=(n, d)) / float(step)
        if len({tuple(r) for r in X.tolist()}) == n:
            return X


def base_kw(rng, fam, K, gem, solver, bs):
    kw = dict(n_clusters=K, gemini=gem, max_iter=3, learning_rate=0.05, solver=solver, batch_size=bs, random_state=int(rng.integers(0, 10 ** 6)))
    if fam in ("MLPModel", "SparseMLPModel"):
        kw["n_hidden_dim"] = int(rng.integers(1, 4))
    if fam in ("RIM", "KernelRIM"):
        kw["reg"] = float(rng.choice([0.0, 0.2]))
        kw["gemini"] = "mi"
    if fam == "KernelRIM":
        kw["base_kernel"] = "linear"
    if fam in ("SparseLinearModel", "SparseMLPModel"):
        kw["alpha"] = float(rng.choice([0.0, 0.05]))
    if fam == "Douglas":
        kw["n_cuts"] = int(rng.integers(1, 3))
        kw["temperature"] = 0.5
    return kw


BOUND_VARIANTS = ["one-per-cluster", "bs=n", "bs>n", "all-ones", "groups", "relu-zero", "huge", "denormal", "adjacent", "cut-ties", "bin-underflow", "neg-zero"]


def stream_bound(chk, i, rng):
    """Degenerate sizes, inclusive interval ends and adversarial floats, through fit (full L2 + L3)."""
    variant = BOUND_VARIANTS[i % len(BOUND_VARIANTS)]
    fam = FAMILIES[(i // len(BOUND_VARIANTS) + i) % len(FAMILIES)]
    if variant == "groups":
        fam = ["SparseLinearModel", "SparseMLPModel"][(i // len(BOUND_VARIANTS)) % 2]
    if variant == "relu-zero":
        fam = ["MLPModel", "SparseMLPModel"][(i // len(BOUND_VARIANTS)) % 2]
    if variant in ("cut-ties", "bin-underflow"):
        fam = "Douglas"
    n, d, K = int(rng.integers(5, 10)), int(rng.integers(2, 4)), 2
    gem = NON_WS[int(rng.integers(0, len(NON_WS)))]
    solver = ["sgd", "adam"][(i // 3) % 2]
    bs = [None, 2, 3][int(rng.integers(0, 3))]
    ml, cl, factor, hook = [], [], 1.0, None
    if variant == "one-per-cluster":
        K = int(rng.integers(2, 4))
        n = K
        bs = [None, 1, K][int(rng.integers(0, 3))]
    if variant == "all-ones":
        d, n = 1, int(rng.integers(3, 6))
    kw = base_kw(rng, fam, K, gem, solver, bs)
    X = impl.blobs(rng, n, d, k=2)
    if variant == "bs=n":
        kw["batch_size"] = n
    if variant == "bs>n":
        kw["batch_size"] = n + int(rng.integers(1, 5))
    if variant in ("bs=n", "bs>n", "one-per-cluster") and n >= 3 and i % 2 == 0:
        a, b, c = (int(v) for v in rng.permutation(n)[:3])
        ml, cl, factor = [(a, b)], [(a, c)], 2.0
    if variant == "all-ones":                     # one feature, one hidden unit, one cut, one pair, one group
        if "n_hidden_dim" in kw:
            kw["n_hidden_dim"] = 1
        if fam == "Douglas":
            kw["n_cuts"] = 1
        if fam in ("SparseLinearModel", "SparseMLPModel"):
            kw["groups"] = [[0]]
        ml = [(0, 1)]
    if variant == "groups":
        kw["groups"] = [[list(range(d))], [[j] for j in range(d)], [[0, d - 1]]][(i // 7) % 3]
        kw["alpha"] = [0.0, 0.3][(i // 5) % 2]
    if variant == "relu-zero":                    # pre-activations exactly 0 and -0.0 (structurally: zero rows, zero biases, a zero weight column)
        X[0] = 0.0
        X[2] = -0.0

        def hook(est):
            est.b1_[:] = 0.0
            est.W1_[:, 0] = 0.0
    if variant == "huge":
        X = X * 1e150
        if fam not in ("RIM", "KernelRIM"):
            kw["gemini"] = ["kl_ova", "tv_ova", "hellinger_ovo", "mmd_ova"][int(rng.integers(0, 4))]
    if variant == "denormal":
        X = X * 1e-310
    if variant == "adjacent":                     # pairs of samples one ulp apart
        X[1] = np.nextafter(X[0], np.inf)
        X[2] = np.nextafter(X[0], -np.inf)
    if variant == "neg-zero":
        X[:, 0] = -0.0
        X[0] = -0.0
    if variant == "cut-ties":                     # exact ties between cut points, a cut point equal to a data value
        kw["n_cuts"] = 2 if d >= 3 else 3

        def hook(est, X=X):
            for f, c in est.cut_points_list_:
                c[1] = c[0]
            est.cut_points_list_[0][1][-1] = X[0, est.cut_points_list_[0][0]]
    if variant == "bin-underflow":                # memberships underflow to exactly 0: the guarded division
        X = X * 1000.0
        kw["temperature"] = 0.1
    run_case(chk, i, "bound", (fam, kw, X, ml, cl, factor, "bound", bool(ml or cl)), init_hook=hook, tag=variant)


def precomputed_case(rng, n, kind):
    """A GEMINI instance taking a precomputed affinity and a matching matrix with exactly representable entries."""
    B = rng.integers(-8, 9, size=(n, n)) / 8.0
    if kind == "mmd":
        A = (B + B.T) / 2.0 + (np.eye(n) * 2.0 if rng.random() < 0.5 else 0.0)      # symmetric, negative entries, possibly indefinite
        return impl.G.MMDGEMINI(ovo=bool(rng.integers(0, 2)), kernel="precomputed"), A
    D = np.abs(B + B.T) / 2.0
    np.fill_diagonal(D, 0.0)
    return impl.G.WassersteinGEMINI(ovo=bool(rng.integers(0, 2)), metric="precomputed"), D


PRE_FAMILIES = ["LinearModel", "MLPModel", "SparseLinearModel", "SparseMLPModel", "CategoricalModel", "Douglas"]


def stream_pre(chk, i, rng):
    """Precomputed affinities through every entry point that trains (fit, fit_predict, path), plain and decorated,
    batch_size None / < n / = n / > n."""
    fam = PRE_FAMILIES[i % len(PRE_FAMILIES)]
    n, d = int(rng.integers(6, 12)), int(rng.integers(2, 4))
    kind = "ws" if i % 5 == 4 else "mmd"
    gem, A = precomputed_case(rng, n, kind)
    bs = [None, 3, n, n + 2][(i // 2) % 4]
    kw = base_kw(rng, fam, 2, gem, ["sgd", "adam"][(i // 3) % 2], bs)
    kw["max_iter"] = 2
    X = impl.blobs(rng, n, d, k=2)
    ml, cl, factor = [], [], 1.0
    if (i // 6) % 2 == 1:
        a, b, c = (int(v) for v in rng.permutation(n)[:3])
        ml, cl, factor = [(a, b)], [(b, c)], 1.5
    entry = ["fit", "fit_predict", "path"][(i // 6 + i) % 3]
    pk = None
    if entry == "path":
        if fam not in ("SparseLinearModel", "SparseMLPModel"):
            entry = "fit_predict"
        else:
            kw["alpha"] = 0.1
            kw["dynamic"] = bool(i % 2)
            pk = dict(alpha_multiplier=3.0, min_features=d - 1, max_patience=1)
    if i % 4 == 3:
        A.setflags(write=False)
        X.setflags(write=False)
    run_case(chk, i, "pre", (fam, kw, X, ml, cl, factor, "pre", bool(ml or cl)), path_kw=pk, y=A, entry=entry,
             tag=f"{kind}:{entry}:bs={'None' if bs is None else ('n' if bs == n else ('>n' if bs > n else '<n'))}{':readonly' if i % 4 == 3 else ''}")


def light_trace(fam, kw, X, y, ml, cl, factor, entry, path_kw):
    """(parameters, directions) at every optimiser step, the labels and the entry point's result: no wrapping of the estimator."""
    est = impl.make(fam, **kw)
    if ml is not None or cl is not None:
        impl.add_mlcl_constraint(est, ml, cl, factor=factor)
    steps = []
    orig_up = BaseOptimizer.update_params

    def hook(opt, params, grads):
        steps.append(([np.array(p, copy=True) for p in params], [np.array(g, copy=True) for g in grads]))
        return orig_up(opt, params, grads)
    BaseOptimizer.update_params = hook
    try:
        if entry == "path":
            res = est.path(X, y, **path_kw)
            res = [np.asarray(r, dtype=float) for r in res[1:]]
        elif entry == "fit_predict":
            res = [np.asarray(est.fit_predict(X, y))]
        else:
            est.fit(X, y)
            res = []
    finally:
        BaseOptimizer.update_params = orig_up
    return steps, np.asarray(est.labels_), res


def as_variant(a, how, rng):
    """The same values in another representation (None when the representation cannot hold them)."""
    a = np.asarray(a)
    if how in ("int64", "int32"):
        return a.astype(how) if np.all(a == np.round(a)) else None
    if how == "bool":
        return a.astype(bool) if np.all((a == 0) | (a == 1)) else None
    if how == "float32":
        b = a.astype(np.float32)
        return b if np.array_equal(b.astype(np.float64), a) else None
    if how == "fortran":
        return np.asfortranarray(a.astype(np.float64))
    if how == "strided":
        big = np.zeros((2 * a.shape[0], 2 * a.shape[1]))
        big[::2, ::2] = a
        return big[::2, ::2]
    if how == "reversed-view":
        return np.ascontiguousarray(a[::-1, ::-1].astype(np.float64))[::-1, ::-1]
    if how == "readonly":
        b = a.astype(np.float64).copy()
        b.setflags(write=False)
        return b
    if how == "list":
        return a.astype(np.float64).tolist()
    if how == "tuple":
        return tuple(tuple(r) for r in a.astype(np.float64).tolist())
    raise ValueError(how)


REPRS = ["int64", "int32", "bool", "float32", "fortran", "strided", "reversed-view", "readonly", "list", "tuple"]


def stream_repr(chk, i, rng):
    """Metamorphic: the same values of X / the precomputed affinity / the constraint pairs in another representation give
    the same optimiser trace (parameters and directions at every step), the same labels, no new exception, and leave the
    caller's objects untouched."""
    fam = FAMILIES[i % len(FAMILIES)]
    n, d = int(rng.integers(5, 10)), int(rng.integers(2, 4))
    data_kind = ["grid", "integral", "binary"][(i // 8) % 3]
    if data_kind == "grid":
        X = grid(rng, n, d)
    elif data_kind == "integral":
        X = grid(rng, n, d, step=1, lo=-4, hi=5)
    else:
        d = max(d, 3)
        n = min(n, 7)
        X = np.array([[(r >> b) & 1 for b in range(d)] for r in rng.permutation(2 ** d)[:n]], dtype=float)
    use_pre = fam in PRE_FAMILIES and (i // 3) % 2 == 1
    y = None
    gem = "mi" if fam in ("RIM", "KernelRIM") else NON_WS[int(rng.integers(0, len(NON_WS)))]
    if use_pre:
        gem, y = precomputed_case(rng, n, "ws" if i % 7 == 6 else "mmd")
        if data_kind != "grid":
            y = np.round(y)
            if isinstance(gem, impl.G.WassersteinGEMINI):
                np.fill_diagonal(y, 0.0)
    bs = [None, 3, n, n + 1][(i // 2) % 4]
    kw = base_kw(rng, fam, 2, gem, ["sgd", "adam"][i % 2], bs)
    kw["max_iter"] = 2
    entry, pk = ["fit", "fit_predict"][(i // 4) % 2], None
    if fam in ("SparseLinearModel", "SparseMLPModel") and (i // 8) % 2 == 1:
        entry, pk = "path", dict(alpha_multiplier=3.0, min_features=d - 1, max_patience=1)
        kw["alpha"] = 0.1
    ml = cl = None
    factor = 1.0
    if (i // 5) % 2 == 1:
        a, b, c = (int(v) for v in rng.permutation(n)[:3])
        ml, cl, factor = [[a, b]], [[b, c]], 2.0
    replay = {"family": fam, "kwargs": kw, "n": n, "d": d, "data": data_kind, "entry": entry, "precomputed": use_pre, "must_link": ml, "cannot_link": cl}
    key = f"{fam}:repr"
    ref = light_trace(fam, kw, X.copy(), None if y is None else y.copy(), ml, cl, factor, entry, pk)
    hows = [REPRS[(i + j * 3) % len(REPRS)] for j in range(4)]
    ran = 0
    for how in hows:
        Xv = as_variant(X, how, rng)
        yv = None if y is None else as_variant(y, how if how not in ("bool",) else "readonly", rng)
        if Xv is None or (y is not None and yv is None):
            chk.dist[f"repr:{how}:not-representable"] += 1
            continue
        if ml is None:
            mlv = clv = None
        elif how in ("int32", "int64"):
            mlv, clv = np.array(ml, dtype=how), np.array(cl, dtype=how)
        elif how == "tuple":
            mlv, clv = tuple(tuple(p) for p in ml), tuple(tuple(p) for p in cl)
        elif how == "readonly":
            mlv, clv = np.array(ml), np.array(cl)
            mlv.setflags(write=False)
            clv.setflags(write=False)
        else:
            mlv, clv = [list(p) for p in ml], [list(p) for p in cl]
        snaps = [snapshot(v) for v in (Xv, yv, mlv, clv)]
        rp = dict(replay, representation=how)
        try:
            got = light_trace(fam, kw, Xv, yv, mlv, clv, factor, entry, pk)
        except Exception as e:  # noqa
            if entry == "path" and y is not None and how in ("list", "tuple") and isinstance(e, TypeError):
                # observed on the unchanged tree, reported to the coordinator: compute_val_score slices y[j:j+bs][:, j:j+bs] on the raw argument
                note = "OBSERVATION path(X, y=<precomputed affinity as list/tuple of rows>) raises TypeError ('indices must be integers or slices, not tuple') while fit(X, y=<same list>) succeeds"
                if note not in chk.notes:
                    chk.notes.append(note)
                chk.dist["repr:observed:path-affinity-as-list-TypeError"] += 1
                continue
            chk.fail(key + ":exception", f"{entry} raises {type(e).__name__}: {e} on the same values presented as {how} (the float64 C-contiguous call succeeds)", rp, layer="L3")
            continue
        ran += 1
        chk.dist[f"repr:{how}"] += 1
        if not all(same_snapshot(v, sn) for v, sn in zip((Xv, yv, mlv, clv), snaps)):
            chk.fail(key + ":argument-mutated", f"{entry} changed a caller's argument presented as {how}", rp, layer="L3")
        if how == "float32":
            # Single-precision inputs are processed in single precision where the library does not promote them (a float32
            # precomputed affinity; X inside path()): ~1e-8 relative differences that ReLU masks and Adam steps amplify.
            # Policy (as C17/C04): no exception, finite values, same shapes, arguments unchanged; for the linear families the
            # direction of the FIRST optimiser step within 1e-4 relative; never the labels.
            note = "OBSERVATION float32 affinities (and float32 X inside path()) are processed in single precision: traces agree with the float64 call only to float32 resolution"
            if note not in chk.notes:
                chk.notes.append(note)
            ok = len(got[0]) > 0 and all(np.isfinite(a).all() for p1, g1 in got[0] for a in p1 + g1) \
                and all(a.shape == b.shape for a, b in zip(got[0][0][0] + got[0][0][1], ref[0][0][0] + ref[0][0][1])) \
                and got[1].shape == ref[1].shape and (entry == "path" or len(got[0]) == len(ref[0]))
            if ok and fam in ("LinearModel", "RIM", "KernelRIM", "SparseLinearModel"):
                ok = all(close(a, b, 1e-4) for a, b in zip(got[0][0][1], ref[0][0][1]))
            chk.dist["repr:float32:first-step-compared" if fam in ("LinearModel", "RIM", "KernelRIM", "SparseLinearModel") else "repr:float32:shape-finite-only"] += 1
        else:
            ok = len(got[0]) == len(ref[0]) and np.array_equal(got[1], ref[1]) and len(got[2]) == len(ref[2]) \
                and all(close(a, b, 1e-12) for a, b in zip(got[2], ref[2]))
            if ok:
                for (p1, g1), (p0, g0) in zip(got[0], ref[0]):
                    if not all(close(a, b, 1e-12) for a, b in zip(p1 + g1, p0 + g0)):
                        ok = False
                        break
        if not ok:
            chk.fail(key + ":differs", f"{entry} on the same values presented as {how} does not reproduce the optimiser trace / labels of the float64 C-contiguous call", rp, layer="L3")
    chk.dist["repr:family:" + fam] += 1
    chk.dist[f"repr:entry:{entry}{':precomputed' if use_pre else ''}{':mlcl' if ml else ''}"] += 1
    chk.count(("repr", fam, data_kind, entry, use_pre, tuple(hows)) if ran and len(ref[0]) > 0 else None)


def sym_callable_kernel(A, B):
    return (A @ B.T + 1.0) ** 2


STREAMS = {"fit": (stream_fit, 320, 4000), "edge": (stream_edge, 32, 320), "path": (stream_path, 30, 300),
           "bound": (stream_bound, 48, 480), "pre": (stream_pre, 36, 360), "repr": (stream_repr, 48, 480)}


def main():
    chk = Check("C03", props_files=["Props/C03.v", "Props/C03gen.v"])
    chk.build()
    chk.proofs()
    if chk.replay_path:
        rp = json.load(open(chk.replay_path))
        st, case = rp["input"].get("stream"), rp["input"].get("case")
        chk.seed = rp.get("seed", chk.seed)
        if st in STREAMS:
            chk.run_stream(st, STREAMS[st][0], 0, only=case)
    else:
        for name, (fn, q, th) in STREAMS.items():
            cnt = q if chk.tier == "quick" else th
            if chk.l1_broken:
                cnt *= 3
            chk.run_stream(name, fn, cnt)
    chk.finish(rule="stream bound: one sample per cluster, batch_size = n and > n, one feature/hidden unit/cut/pair/group, feature groups, pre-activations exactly 0 and -0.0, "
                    "data scaled by 1e150 / 1e-310, samples one ulp apart, tied cut points and a cut on a data value, underflowed bin memberships (full L2 + L3). "
                    "stream pre: precomputed affinities (indefinite symmetric kernels with negative entries, distance matrices; read-only) through fit, fit_predict and path, plain and decorated, "
                    "batch_size None / < n / = n / > n (full L2 + L3 + affinity alignment + arguments unchanged). "
                    "stream repr: metamorphic - X, the precomputed affinity and the constraint pairs as int64/int32/bool/float32/Fortran/strided and reversed views/read-only/lists/tuples must reproduce the "
                    "optimiser trace, labels and path results of the float64 C-contiguous call at 1e-12 (float32: no exception, finite, same shapes, first-step direction of the linear families at 1e-4), raise nothing new and leave the caller's objects bit-identical. stream edge: single cluster / duplicated rows + constant feature / saturated predictions / repeated, reversed and never-in-batch "
                    "constraint pairs, feature masks, a callable kernel. stream path: path() of the two sparse families (its own training loop). stream fit: real fits (3 epochs) of the 8 gradient-trained families x GEMINI names x {sgd, adam} x batch size {1, 2, n//2, n, None} x "
                    "plain / mlcl-decorated, n<=20, d<=4, h<=5, with update_params intercepted; every recorded step (capped per fit) is recomputed by the "
                    "extracted model (rtol 1e-9) and a few steps per fit are checked against central finite differences of the objective "
                    "(Richardson-extrapolated central differences at steps h, h/2, h/4: two estimates that must agree to rtol 5e-6, compared with the recorded direction at rtol 1e-5 plus ten times their spread; entries crossing a ReLU kink skipped, entries whose one-sided slopes keep a jump that does not shrink with h (kink of the score itself) skipped, states on the clip boundary skipped). "
                    "Every recorded batch is re-identified by looking its rows up in the data, and its affinity block A_full[idx][:, idx] is recomputed from gemini.compute_affinity on the full data: a recorded block that differs is an L3 failure (affinity-misaligned) and the recomputed block is the one the finite differences use. non-trivial = parameters moved during the fit and at least one finite-difference entry was compared "
                    "(and, when decorated, a constrained pair fell inside a batch); distinct = (family, gemini, solver, batch class, decorated)")


if __name__ == "__main__":
    main()
