"""C20 — synthetic data generators follow their documented distributions.

L1  Props/C20.v (generators as deterministic functions of the random oracle's draws; validation rule; constants).
L2  every generator is run with a *recording* RandomState (every choice / normal / multivariate_normal / chisquare /
    permutation call, its arguments and its result are logged; the log is proved complete by replaying it on a
    fresh RandomState and comparing the final generator state).  The extracted model is asked (a) which requests it
    makes - compared with the log - and (b) what it returns when fed the logged draws - compared with the returned
    arrays.  draw_gmm's validation verdict (which raise site fires) is compared with the model's on valid and invalid
    parameter sets (eigvalsh is the oracle, computed here with numpy).
L3  independent of the model: shapes, label ranges, seed determinism, "row i is row i of the draw array of component
    y_i" re-checked directly on the log, gstm's split / common shuffle, celeux_two's linear block against the
    hand-written documented constants below, every invalid parameter set raises a ValueError/TypeError, valid ones do
    not; and the distributional half of the property (not provable in Coq): 6-sigma moment / quantile tests on
    large samples against the documented parameters.
"""
import json
import math
import numpy as np
from scipy import stats as sps
from core import Check, enc_list, hx
import core  # noqa: F401
from gemclus.data import draw_gmm, multivariate_student_t, gstm, celeux_one, celeux_two

# ------------------------------------------------------------------ documented constants (hand-written golden copy,
# independent of translator/tr_dataconstants.py and of coq/Model/DataDoc.v; sources: docstrings + cited designs)
S3 = math.sqrt(3.0)


def _rot(th):
    return np.array([[math.cos(th), -math.sin(th)], [math.sin(th), math.cos(th)]])


def _blockdiag(blocks):
    n = sum(b.shape[0] for b in blocks)
    out = np.zeros((n, n))
    o = 0
    for b in blocks:
        out[o:o + b.shape[0], o:o + b.shape[0]] = b
        o += b.shape[0]
    return out


DOC = {
    "gstm_loc": np.array([[1, 1], [1, -1], [-1, 1], [-1, -1]], float),      # times alpha
    "c1_loc": np.array([[1] * 5, [-1] * 5, [0] * 5], float),                 # times mu
    "c2_loc": np.array([[0, 0], [4, 0], [0, 2], [4, 2]], float),
    "c2_offsets": np.array([0, 0, 0.4, 0.8, 1.2, 1.6, 2.0, 2.4, 2.8]),
    "c2_b": np.array([[0.5, 1], [2, 0], [0, 3], [-1, 2], [2, -4], [0.5, 0], [4, 0.5], [3, 0], [2, 1]]).T,
    "c2_omega": _blockdiag([np.eye(3), 0.5 * np.eye(2),
                            _rot(math.pi / 3).T @ np.diag([1.0, 3.0]) @ _rot(math.pi / 3),
                            _rot(math.pi / 6).T @ np.diag([2.0, 6.0]) @ _rot(math.pi / 6)]),
    "c2_tail_mean": np.array([3.2, 3.6, 4.0]),
}


# ------------------------------------------------------------------ recording random state
class RecRS(np.random.RandomState):
    """numpy RandomState that logs every sampling call the generators make."""

    def __init__(self, seed):
        super().__init__(seed)
        self.seed0 = seed
        self.log = []

    def choice(self, a, size=None, replace=True, p=None):
        r = super().choice(a, size=size, replace=replace, p=p)
        self.log.append(("choice", {"a": a, "p": None if p is None else np.array(p, float), "size": size, "replace": replace}, np.array(r)))
        return r

    def normal(self, loc=0.0, scale=1.0, size=None):
        r = super().normal(loc, scale, size)
        self.log.append(("normal", {"loc": np.array(loc, float), "scale": np.array(scale, float), "size": size}, np.array(r)))
        return r

    def multivariate_normal(self, mean, cov, size=None, check_valid="warn", tol=1e-8):
        r = super().multivariate_normal(mean, cov, size, check_valid, tol)
        self.log.append(("mvn", {"mean": np.array(mean, float), "cov": np.array(cov, float), "size": size}, np.array(r)))
        return r

    def chisquare(self, df, size=None):
        r = super().chisquare(df, size)
        self.log.append(("chisq", {"df": float(df), "size": size}, np.array(r)))
        return r

    def permutation(self, x):
        r = super().permutation(x)
        self.log.append(("perm", {"x": x}, np.array(r)))
        return r


def replay_log_complete(rs):
    """the log accounts for ALL the randomness consumed: replaying it on a fresh state gives the same results and
    the same final generator state"""
    g = np.random.RandomState(rs.seed0)
    for kind, a, res in rs.log:
        if kind == "choice":
            r = g.choice(a["a"], size=a["size"], replace=a["replace"], p=a["p"])
        elif kind == "normal":
            r = g.normal(a["loc"], a["scale"], a["size"])
        elif kind == "mvn":
            r = g.multivariate_normal(a["mean"], a["cov"], a["size"])
        elif kind == "chisq":
            r = g.chisquare(a["df"], a["size"])
        else:
            r = g.permutation(a["x"])
        if not np.array_equal(np.asarray(r), res):
            return False
    s1, s2 = g.get_state(), rs.get_state()
    return s1[0] == s2[0] and np.array_equal(s1[1], s2[1]) and s1[2:] == s2[2:]


def size_n(size):
    if size is None:
        return None
    if isinstance(size, (int, np.integer)):
        return (int(size),)
    return tuple(int(s) for s in size)


def contract_ok(entry):
    """resp_ok of Proofs/DataGen.v, checked on a logged call"""
    kind, a, r = entry
    if kind == "choice":
        return r.shape == size_n(a["size"]) and np.issubdtype(r.dtype, np.integer) and (r.size == 0 or (r.min() >= 0 and r.max() < a["a"]))
    if kind == "normal":
        return r.shape == size_n(a["size"]) and np.all(np.isfinite(r))
    if kind == "mvn":
        return r.shape == size_n(a["size"]) + (len(a["mean"]),)
    if kind == "chisq":
        return r.shape == size_n(a["size"]) and np.all(r > 0)
    return sorted(r.tolist()) == list(range(int(a["x"])))


# ------------------------------------------------------------------ protocol with ocaml/drv_c20.ml
def enc_v(v):
    return enc_list([float(x) for x in np.asarray(v, float).ravel()], hx)


def enc_m(m):
    m = np.asarray(m, float)
    return " ".join([str(m.shape[0])] + [enc_v(r) for r in m])


def enc_ms(ms):
    return " ".join([str(len(ms))] + [enc_m(m) for m in ms])


def enc_gmm(loc, scale, p):
    scale = np.asarray(scale, float)
    sc = "2 " + enc_m(scale) if scale.ndim == 2 else "3 " + enc_ms(scale)
    return f"{enc_m(loc)} {sc} {enc_v(p)}"


def enc_draws(log):
    parts = [str(len(log))]
    for kind, a, r in log:
        if kind in ("choice", "perm"):
            parts.append("L " + enc_list([int(x) for x in r]))
        elif r.ndim == 1:
            parts.append("V " + enc_v(r))
        else:
            parts.append("M " + enc_m(r))
    return " ".join(parts)


def rd_vec(t):
    return t.list(t.float)


def rd_mat(t):
    return t.list(lambda: rd_vec(t))


def rd_call(t):
    tag = t.int()
    if tag == 0:
        return ("choice", t.int(), rd_vec(t), t.int())
    if tag == 1:
        return ("normal", rd_vec(t), rd_vec(t), t.int())
    if tag == 2:
        return ("stdnormal", t.int(), t.int())
    if tag == 3:
        return ("mvn", rd_vec(t), rd_mat(t), t.int())
    if tag == 4:
        return ("chisq", t.float(), t.int())
    return ("perm", t.int())


def rd_run(t):
    if t.next() == "N":
        return None
    X = rd_mat(t)
    y = t.list(t.int)
    return X, y


def close(a, b, tol=1e-9):
    a, b = np.asarray(a, float), np.asarray(b, float)
    if a.shape != b.shape:
        return False
    if a.size == 0:
        return True
    scale = max(1.0, float(np.max(np.abs(b))))
    return bool(np.all(np.abs(a - b) <= tol * scale))


def calls_match(model_calls, log):
    """the model's requests = the logged calls (kinds, order, arguments)"""
    if len(model_calls) != len(log):
        return f"{len(log)} calls logged, model makes {len(model_calls)}"
    for j, (mc, (kind, a, r)) in enumerate(zip(model_calls, log)):
        ok = False
        if mc[0] == "choice":
            ok = kind == "choice" and a["a"] == mc[1] and a["p"] is not None and close(a["p"], mc[2], 1e-12) and size_n(a["size"]) == (mc[3],) and a["replace"]
        elif mc[0] == "normal":
            ok = kind == "normal" and close(a["loc"].ravel(), mc[1], 1e-12) and close(a["scale"].ravel(), mc[2], 1e-12) and size_n(a["size"]) == (mc[3],)
        elif mc[0] == "stdnormal":
            ok = kind == "normal" and a["loc"].shape == () and float(a["loc"]) == 0.0 and float(a["scale"]) == 1.0 and size_n(a["size"]) == (mc[1], mc[2])
        elif mc[0] == "mvn":
            ok = kind == "mvn" and close(a["mean"], mc[1], 1e-12) and close(a["cov"], np.array(mc[2], float).reshape(a["cov"].shape) if np.size(mc[2]) == a["cov"].size else mc[2], 1e-12) \
                and size_n(a["size"]) == (mc[3],)
        elif mc[0] == "chisq":
            ok = kind == "chisq" and close(a["df"], mc[1], 1e-12) and size_n(a["size"]) == (mc[2],)
        elif mc[0] == "perm":
            ok = kind == "perm" and isinstance(a["x"], (int, np.integer)) and int(a["x"]) == mc[1]
        if not ok:
            return f"call {j}: logged {kind} {({k: (v.tolist() if hasattr(v, 'tolist') else v) for k, v in a.items()})} vs model {mc}"
    return None


def check_log(chk, key, rs, replay):
    ok = True
    for e in rs.log:
        if not contract_ok(e):
            chk.fail(key + ":oracle-contract", f"a {e[0]} answer violates the assumed numpy contract (shape/range)", replay, layer="L3")
            ok = False
    if not replay_log_complete(rs):
        chk.fail(key + ":unrecorded-randomness", "the generator consumed randomness outside the recorded calls (replaying the log does not reproduce the generator state)", replay)
        ok = False
    return ok


def compare_run(chk, key, run, X, y, replay, what):
    if run is None:
        chk.fail(key + ":model-none", f"{what}: the model cannot consume the logged draws (kinds differ from its requests)", replay)
        return
    Xm, ym = run
    Xm = np.array(Xm, float).reshape(len(Xm), -1) if len(Xm) else np.zeros((0, X.shape[1]))
    if Xm.shape != X.shape or not close(X, Xm, 1e-9):
        chk.fail(key + ":output", f"{what}: returned X differs from the model run on the same draws (shape {X.shape} vs {Xm.shape}, max diff "
                 f"{float(np.max(np.abs(X - Xm))) if Xm.shape == X.shape and X.size else 'n/a'})", replay)
    else:
        chk.dist["X bit-identical" if np.array_equal(X, Xm) else "X within 1e-9"] += 1
    if [int(v) for v in y] != list(ym) or any(float(v) != int(v) for v in y):
        chk.fail(key + ":labels", f"{what}: returned labels differ from the model's", replay)


def seeds_check(chk, key, fn, seed, replay, X_rec, y_rec, expect_change=True):
    """identical output for identical integer seeds (and = the recorded run), different output for another seed"""
    a = fn(seed)
    b = fn(seed)
    c = fn(seed + 1)
    Xa, ya = (a if isinstance(a, tuple) else (a, None))
    Xb, yb = (b if isinstance(b, tuple) else (b, None))
    Xc, yc = (c if isinstance(c, tuple) else (c, None))
    if not (np.array_equal(Xa, Xb) and (ya is None or np.array_equal(ya, yb))):
        chk.fail(key + ":seed-determinism", "two calls with the same integer seed return different data", replay, layer="L3")
    if not (np.array_equal(Xa, X_rec) and (ya is None or np.array_equal(ya, y_rec))):
        chk.fail(key + ":seed-vs-instance", "an integer seed and a RandomState instance built from it give different data", replay, layer="L3")
    if expect_change and Xa.size >= 2 and np.array_equal(Xa, Xc):
        chk.fail(key + ":seed-ignored", "different integer seeds give identical data", replay, layer="L3")


# ------------------------------------------------------------------ parameter generation
def rand_spd(rng, d, kind):
    if kind == "eye":
        return np.eye(d)
    if kind == "diag":
        return np.diag(rng.uniform(0.2, 3.0, size=d))
    if kind == "rank1":                      # singular PSD, exactly representable
        v = rng.integers(-2, 4, size=d).astype(float)
        if not v.any():
            v[0] = 1.0
        return np.outer(v, v)
    A = rng.normal(size=(d, d))
    return A @ A.T + 0.3 * np.eye(d)


def rand_gmm(chk, rng):
    K = int(rng.choice([2, 2, 3, 3, 4, 5, 6]))
    d = int(rng.choice([1, 1, 2, 2, 3, 4]))
    loc = np.round(rng.normal(size=(K, d)) * 3, 3)
    if d == 1:
        scale = np.round(rng.uniform(0.05, 9.0, size=(K, 1)), 3)
        kinds = ["var"] * K
    else:
        kinds = [str(rng.choice(["eye", "diag", "full", "full", "rank1"])) for _ in range(K)]
        scale = np.array([rand_spd(rng, d, k) for k in kinds])
    mode = rng.random()
    if mode < 0.35:
        p = np.ones(K) / K
    elif mode < 0.8:
        p = rng.dirichlet(np.ones(K) * 2) + 1e-3
        p = p / p.sum()
    elif mode < 0.9:
        p = np.ones(K) / K
        p[0] += 4e-9                           # inside np.isclose and inside numpy.choice's own tolerance
    else:
        p = np.array([2.0 ** -(i + 1) for i in range(K)])
        p[-1] *= 2                             # dyadic: every partial sum exact
    return K, d, loc, scale, p, kinds


ERR_SITES = [("minimum of 2 is required", 0), ("feature(s)", 0), ("means and the covariances do not contain", 1),
             ("should be square", 2), ("proportions and the means do not contain", 3), ("strictly positive", 4),
             ("do not add up to one", 5), ("-th variance is negative", 6), ("not positive semi-definite", 7),
             ("contains only zeroes", 8)]


def impl_site(msg):
    for frag, code in ERR_SITES:
        if frag in msg:
            k = -1
            if code in (6, 7, 8):
                k = int(msg.split("The ")[1].split("-th")[0])
            return code, k
    return None


def model_verdict(chk, loc, scale, p):
    scale = np.asarray(scale, float)
    if scale.ndim == 3 and scale.shape[1] == scale.shape[2] and scale.shape[1] > 0:
        eig = [np.linalg.eigvalsh(m) for m in scale]          # the oracle, called exactly as the implementation calls it
    else:
        eig = [[] for _ in range(scale.shape[0])]
    t = chk.ask(f"c20.gmm_check {enc_gmm(loc, scale, p)} {len(eig)} " + " ".join(enc_v(e) for e in eig))
    gen = None if t.next() == "N" else (t.int(), t.int())       # regenerated from the source (Gen/DataGenRules.v)
    hand = None if t.next() == "N" else (t.int(), t.int())      # hand-written model the theorems are proved about
    if gen != hand:
        chk.fail("draw_gmm:regenerated-vs-model", f"the validation regenerated from the source gives {gen}, the proved hand-written model {hand}",
                 {"fn": "draw_gmm", "loc": np.asarray(loc).tolist(), "scale": np.asarray(scale).tolist(), "pvals": np.asarray(p).tolist()})
    return gen


# ------------------------------------------------------------------ streams
def stream_gmm(chk, i, rng):
    K, d, loc, scale, p, kinds = rand_gmm(chk, rng)
    n = int(rng.choice([1, 2, 3, 5, 8, 13, 21, 34])) if chk.tier == "quick" else int(rng.integers(1, 90))
    seed = int(rng.integers(0, 2 ** 31 - 2))
    replay = {"fn": "draw_gmm", "n": n, "loc": loc.tolist(), "scale": scale.tolist(), "pvals": p.tolist(), "seed": seed}
    verdict = model_verdict(chk, loc, scale, p)
    rs = RecRS(seed)
    snap = [a.copy() for a in (loc, scale, p)]
    try:
        X, y = draw_gmm(n, loc, scale, p, rs)
        if any(not np.array_equal(a, b) for a, b in zip(snap, (loc, scale, p))):
            chk.fail("draw_gmm:argument-modified", "draw_gmm modifies one of its array arguments", replay, layer="L3")
        if X.dtype != np.float64:
            chk.fail("draw_gmm:dtype", f"the samples have dtype {X.dtype}", replay, layer="L3")
    except Exception as e:  # noqa
        chk.fail("draw_gmm:valid-rejected", f"a valid mixture description is rejected: {type(e).__name__}: {e}", replay, layer="L3")
        chk.count(None)
        return
    if verdict is not None:
        chk.fail("draw_gmm:verdict", f"the model's validation rejects (site {verdict}) a parameter set the implementation accepts", replay)
    check_log(chk, "draw_gmm", rs, replay)
    t = chk.ask(f"c20.gmm {n} {enc_gmm(loc, scale, p)} {enc_draws(rs.log)}")
    mcalls = t.list(lambda: rd_call(t))
    run = rd_run(t)
    hcalls = t.list(lambda: rd_call(t))
    hrun = rd_run(t)
    if mcalls != hcalls or run != hrun:
        chk.fail("draw_gmm:regenerated-vs-model", "the draw protocol regenerated from the source differs from the proved hand-written model on these draws", replay)
    bad = calls_match(mcalls, rs.log)
    if bad:
        chk.fail("draw_gmm:requests", "requests to the random generator differ from the model's: " + bad, replay)
    compare_run(chk, "draw_gmm", run, X, y, replay, "draw_gmm")
    # L3, directly on the log: shapes, ranges, row i = row i of the draw array of component y_i, documented request parameters
    if X.shape != (n, d) or y.shape != (n,) or not np.issubdtype(y.dtype, np.integer) or (n and (y.min() < 0 or y.max() >= K)):
        chk.fail("draw_gmm:shape", f"X{X.shape} y{y.shape} do not have the documented shapes (n,d),(n,) with labels in range(K)", replay, layer="L3")
    elif len(rs.log) == K + 1:
        if not np.array_equal(y, rs.log[0][2]):
            chk.fail("draw_gmm:labels-not-choice", "the returned labels are not the categorical draw", replay, layer="L3")
        for r in range(n):
            src = np.atleast_1d(rs.log[1 + int(y[r])][2][r])
            if not np.array_equal(src, X[r]):
                chk.fail("draw_gmm:row-source", f"row {r} is not row {r} of the draw array of its labelled component {int(y[r])}", replay, layer="L3")
                break
        for k in range(K):
            kind, a, _ = rs.log[1 + k]
            if d == 1:
                ok = kind == "normal" and close(a["loc"].ravel(), loc[k], 1e-12) and close(a["scale"].ravel() ** 2, scale[k], 1e-12)
            else:
                ok = kind == "mvn" and close(a["mean"], loc[k], 1e-12) and close(a["cov"], scale[k], 1e-12)
            if not ok:
                chk.fail("draw_gmm:request-params", f"component {k} is not requested with its documented mean and (co)variance"
                         + (" (standard deviation**2 != variance)" if d == 1 else ""), replay, layer="L3")
                break
        if not close(rs.log[0][1]["p"], p, 1e-12):
            chk.fail("draw_gmm:request-params", "the categorical draw does not use the given proportions", replay, layer="L3")
    seeds_check(chk, "draw_gmm", lambda s: draw_gmm(n, loc, scale, p, s), seed, replay, X, y)
    chk.dist[f"gmm d={'1' if d == 1 else '>1'}"] += 1
    chk.dist[f"gmm K={K}"] += 1
    for kd in set(kinds):
        chk.dist["cov:" + kd] += 1
    nlab = len(set(y.tolist()))
    chk.count(("gmm", K, d, n, seed) if nlab >= 2 else None)
    chk.sample({"stream": "gmm", "K": K, "d": d, "n": n, "labels": y.tolist()[:10], "calls": [e[0] for e in rs.log]})


def invalid_case(rng, j):
    """(class, loc, scale, pvals, in_model_domain)"""
    K = int(rng.choice([2, 3, 4]))
    d = int(rng.choice([1, 2, 3]))
    loc = np.round(rng.normal(size=(K, d)) * 2, 3)
    scale = np.round(rng.uniform(0.1, 4.0, size=(K, 1)), 3) if d == 1 else np.array([rand_spd(rng, d, "full") for _ in range(K)])
    p = np.ones(K) / K
    classes = ["cov-count", "p-count", "nonsquare", "scale-ndim", "p-zero", "p-negative", "p-sum-far", "p-sum-isclose", "p-sum-choice",
               "not-psd", "nonsymmetric", "all-zero", "var-zero", "var-negative", "one-component", "nan", "p-2d", "scale-1d-3d", "scale-1d-wide",
               "ragged", "p-len-short", "p-negative-unnormalised", "count-and-square", "loc-1d", "loc-3d", "scale-1d", "scale-4d", "p-0d"]
    c = classes[j % len(classes)]
    dom = True
    k = int(rng.integers(0, K))
    if c == "cov-count":
        scale = np.concatenate([scale, scale[:1]])
    elif c == "p-count":
        p = np.ones(K + 1) / (K + 1)
    elif c == "p-len-short":
        if K == 2:
            K, loc, scale = 3, np.vstack([loc, loc[:1]]), np.concatenate([scale, scale[:1]])
        p = np.ones(K - 1) / (K - 1)
    elif c == "nonsquare":
        d = max(d, 2)
        loc = np.round(rng.normal(size=(K, d)), 3)
        scale = np.ones((K, d, d + 1)) if rng.random() < 0.5 else np.ones((K, d + 1, d))
    elif c == "scale-ndim":
        d = max(d, 2)
        loc = np.round(rng.normal(size=(K, d)), 3)
        scale = np.ones((K, d))
    elif c == "p-zero":
        p = np.ones(K) / (K - 1)
        p[k] = 0.0
    elif c == "p-negative":
        p = np.ones(K) / K
        p[k] = -p[k]
        p[(k + 1) % K] += 2 / K
    elif c == "p-negative-unnormalised":       # two tests fail: the first one in source order must fire
        p = np.ones(K) / K
        p[k] = -p[k]
    elif c == "count-and-square":
        d = max(d, 2)
        loc = np.round(rng.normal(size=(K, d)), 3)
        scale = np.ones((K + 1, d, d + 1))
    elif c == "p-sum-far":
        p = p * float(rng.choice([0.5, 0.9, 1.1, 2.0, 0.999]))
    elif c == "p-sum-isclose":
        p = p.copy()
        p[0] += float(rng.choice([1.2e-5, -1.2e-5, 3e-5]))
    elif c == "p-sum-choice":
        p = p.copy()
        p[0] += float(rng.choice([1e-6, -1e-6, 5e-8]))
    elif c == "not-psd":
        d = max(d, 2)
        loc = np.round(rng.normal(size=(K, d)), 3)
        scale = np.array([rand_spd(rng, d, "full") for _ in range(K)])
        Q, _ = np.linalg.qr(rng.normal(size=(d, d)))
        lam = rng.uniform(0.5, 3.0, size=d)
        lam[0] = -float(rng.choice([1e-6, 1e-4, 1e-3, 0.5, 3.0]))        # one clearly negative eigenvalue (tolerance is 1e-8)
        scale[k] = (Q * lam) @ Q.T
        scale[k] = (scale[k] + scale[k].T) / 2
    elif c == "nonsymmetric":
        d = max(d, 2)
        loc = np.round(rng.normal(size=(K, d)), 3)
        scale = np.array([np.eye(d) for _ in range(K)])
        scale[k][0, 1] = float(rng.choice([4.0, 0.5, 1e-3]))
    elif c == "all-zero":
        d = max(d, 2)
        loc = np.round(rng.normal(size=(K, d)), 3)
        scale = np.array([np.eye(d) for _ in range(K)])
        scale[k] = 0.0
    elif c in ("var-zero", "var-negative"):
        d = 1
        loc = np.round(rng.normal(size=(K, 1)), 3)
        scale = np.round(rng.uniform(0.1, 4.0, size=(K, 1)), 3)
        scale[k, 0] = 0.0 if c == "var-zero" else -float(rng.choice([1e-9, 0.5, 2.0]))
    elif c == "one-component":
        loc, scale, p = loc[:1], scale[:1], np.ones(1)
    elif c == "nan":
        dom = False
        which = int(rng.integers(0, 3))
        if which == 0:
            loc = loc.copy()
            loc[0, 0] = np.nan
        elif which == 1:
            scale = scale.copy()
            scale.flat[0] = np.inf
        else:
            p = p.copy()
            p[0] = np.nan
    elif c == "p-2d":
        dom = False
        p = p.reshape(-1, 1)
    elif c == "scale-1d-3d":
        d = 1
        loc = np.round(rng.normal(size=(K, 1)), 3)
        scale = np.ones((K, 1, 1))
    elif c == "scale-1d-wide":
        d = 1
        loc = np.round(rng.normal(size=(K, 1)), 3)
        scale = np.ones((K, 2))
    elif c in ("loc-1d", "loc-3d", "scale-1d", "scale-4d", "p-0d"):       # wrong rank: outside the model (L3 only)
        dom = False
        if c == "loc-1d":
            loc = loc[:, 0]
        elif c == "loc-3d":
            loc = loc.reshape(K, d, 1)
        elif c == "scale-1d":
            scale = np.ones(K)
        elif c == "scale-4d":
            d = max(d, 2)
            loc = np.round(rng.normal(size=(K, d)), 3)
            scale = np.ones((K, d, d, 1))
        else:
            p = 0.5
    elif c == "ragged":
        dom = False
        loc = [list(r) for r in loc]
        loc[0] = loc[0] + [0.0]
    return c, loc, scale, p, dom


def stream_invalid(chk, i, rng):
    c, loc, scale, p, dom = invalid_case(rng, i)
    n = int(rng.integers(1, 12))
    seed = int(rng.integers(0, 2 ** 31 - 2))
    replay = {"fn": "draw_gmm", "class": c, "n": n, "loc": np.asarray(loc, dtype=object).tolist() if c == "ragged" else np.asarray(loc).tolist(),
              "scale": np.asarray(scale).tolist(), "pvals": np.asarray(p).tolist(), "seed": seed}
    err = None
    try:
        draw_gmm(n, loc, scale, p, seed)
    except (ValueError, TypeError) as e:
        err = e
    except Exception as e:  # noqa
        chk.fail(f"draw_gmm:invalid:{c}:wrong-error", f"an invalid mixture description ({c}) raises {type(e).__name__} instead of a ValueError/TypeError: {e}", replay, layer="L3")
        chk.count(None)
        return
    if err is None:
        chk.fail(f"draw_gmm:invalid:{c}:accepted", f"an invalid mixture description ({c}) is accepted", replay, layer="L3")
    if dom:
        verdict = model_verdict(chk, np.asarray(loc, float), np.asarray(scale, float), np.asarray(p, float))
        if err is None:
            if verdict is not None:
                chk.fail(f"draw_gmm:invalid:{c}:verdict", f"the model's validation rejects (site {verdict}) what the implementation accepts", replay)
        elif verdict is None:
            # the model's own tests pass; the only legitimate rejection left is numpy.choice's |sum p - 1| > sqrt(eps)
            s = abs(float(np.sum(p)) - 1.0)
            if not (err is not None and "probabilities do not sum to 1" in str(err) and s > 1.4e-8):
                chk.fail(f"draw_gmm:invalid:{c}:verdict", f"the model's validation accepts a parameter set ({c}) that the implementation rejects with: {err}", replay)
            else:
                chk.dist["rejected by numpy.choice (sum off by 1.5e-8..1e-5)"] += 1
        elif err is not None:
            site = impl_site(str(err))
            if verdict[0] == 9:
                if site is not None and site[0] not in (6,):
                    chk.fail(f"draw_gmm:invalid:{c}:site", f"model: numpy-level array error, implementation: {err}", replay)
            elif site is None or site != tuple(verdict):
                chk.fail(f"draw_gmm:invalid:{c}:site", f"the raise site differs: model {verdict}, implementation {site}: {err}", replay)
    chk.dist["invalid:" + c] += 1
    if c == "scale-1d-3d":
        chk.dist["note: documented (K,1,1) covariances of a 1-D mixture raise a broadcast ValueError"] += 1
    chk.count(("invalid", c, i))


REGRESSION = [
    ("uniform-6", lambda: (np.zeros((6, 2)), [np.eye(2)] * 6, np.ones(6) / 6), True),
    ("uniform-7", lambda: (np.zeros((7, 2)), [np.eye(2)] * 7, np.ones(7) / 7), True),
    ("uniform-13", lambda: (np.zeros((13, 1)), np.ones((13, 1)), np.ones(13) / 13), True),
    ("uniform-20", lambda: (np.zeros((20, 2)), [np.eye(2)] * 20, np.ones(20) / 20), True),
    ("tenths", lambda: (np.zeros((10, 2)), [np.eye(2)] * 10, [0.1] * 10), True),
    ("nonsymmetric-1-4-0-1", lambda: ([[0., 0.], [1, 1]], [[[1, 4], [0, 1]], np.eye(2)], [.5, .5]), False),
    ("nonsymmetric-rotation", lambda: ([[0., 0.], [1, 1]], [[[1, -2], [2, 1]], np.eye(2)], [.5, .5]), False),
    ("scale-2d-for-d2", lambda: ([[0., 0.], [1, 1]], [[1, 1], [1, 1]], [.5, .5]), False),
    ("singular-4ones", lambda: (np.zeros((2, 3)), [4 * np.ones((3, 3)), np.eye(3)], [.5, .5]), True),
    ("singular-rank1", lambda: (np.zeros((2, 2)), [[[1, 2], [2, 4]], np.eye(2)], [.5, .5]), True),
    ("indefinite", lambda: (np.zeros((2, 2)), [[[1, 2], [2, 1]], np.eye(2)], [.5, .5]), False),
    ("slightly-negative", lambda: (np.zeros((2, 2)), [[[1, 0], [0, -1e-6]], np.eye(2)], [.5, .5]), False),
    ("one-d-documented-shape", lambda: ([[0.], [1.]], [[[1.]], [[2.]]], [.5, .5]), None),
]


def stream_regression(chk, i, rng):
    name, mk, valid = REGRESSION[i % len(REGRESSION)]
    loc, scale, p = mk()
    replay = {"fn": "draw_gmm", "regression": name}
    try:
        X, y = draw_gmm(7, loc, scale, p, 0)
        out = "ok"
    except (ValueError, TypeError) as e:
        out = "rejected"
    except Exception as e:  # noqa
        out = type(e).__name__
    if valid is True and out != "ok":
        chk.fail("draw_gmm:regression:" + name, f"a valid mixture description is {out}", replay, layer="L3")
    if valid is False and out != "rejected":
        chk.fail("draw_gmm:regression:" + name, f"an invalid mixture description gives: {out} (expected a ValueError/TypeError)", replay, layer="L3")
    if valid is None:
        chk.dist[f"note: {name} -> {out}"] += 1
    verdict = model_verdict(chk, np.asarray(loc, float), np.asarray(scale, float), np.asarray(p, float))
    if valid is not None and (verdict is None) != (out == "ok"):
        chk.fail("draw_gmm:regression:" + name + ":verdict", f"model verdict {verdict} vs implementation {out}", replay)
    chk.count(("regression", name))


def stream_student(chk, i, rng):
    d = int(rng.choice([1, 2, 2, 3, 4]))
    n = int(rng.choice([1, 2, 5, 9, 20, 33]))
    loc = np.round(rng.normal(size=d) * 3, 3)
    scale = rand_spd(rng, d, str(rng.choice(["eye", "diag", "full"])))
    df = float(rng.choice([0.5, 1, 2.5, 10, 30]))
    seed = int(rng.integers(0, 2 ** 31 - 2))
    replay = {"fn": "multivariate_student_t", "n": n, "loc": loc.tolist(), "scale": scale.tolist(), "df": df, "seed": seed}
    if i % 9 == 8:
        bad = np.eye(d + 1) if rng.random() < 0.5 else np.ones((d, d + 1))
        t = chk.ask(f"c20.student {n} {enc_v(loc)} {enc_m(bad)} {hx(df)} 0")
        mok = t.bool()
        t.list(lambda: rd_call(t))
        t.next()
        if t.bool() != mok:
            chk.fail("student:regenerated-vs-model", "regenerated and hand-written shape tests differ", replay)
        try:
            multivariate_student_t(n, loc, bad, df, seed)
            chk.fail("student:shape-accepted", "a scale matrix whose shape does not match the location is accepted", replay, layer="L3")
        except (ValueError, TypeError):
            pass
        if mok:
            chk.fail("student:verdict", "the model accepts a scale/location shape mismatch", replay)
        chk.dist["student invalid shape"] += 1
        chk.count(("student-bad", d, i))
        return
    rs = RecRS(seed)
    X = multivariate_student_t(n, loc, scale, df, rs)
    check_log(chk, "student", rs, replay)
    t = chk.ask(f"c20.student {n} {enc_v(loc)} {enc_m(scale)} {hx(df)} {enc_draws(rs.log)}")
    mok = t.bool()
    mcalls = t.list(lambda: rd_call(t))
    run = rd_mat(t) if t.next() == "S" else None
    hok = t.bool()
    hcalls = t.list(lambda: rd_call(t))
    hrun = rd_mat(t) if t.next() == "S" else None
    if (mok, mcalls, run) != (hok, hcalls, hrun):
        chk.fail("student:regenerated-vs-model", "multivariate_student_t regenerated from the source differs from the proved hand-written model on these draws", replay)
    if not mok:
        chk.fail("student:verdict", "the model rejects a valid location/scale pair", replay)
    bad = calls_match(mcalls, rs.log)
    if bad:
        chk.fail("student:requests", "requests differ from the model's: " + bad, replay)
    if run is None or np.array(run).shape != X.shape or not close(X, np.array(run), 1e-9):
        chk.fail("student:output", "multivariate_student_t output differs from the model run on the same draws", replay)
    else:
        chk.dist["student bit-identical" if np.array_equal(X, np.array(run)) else "student within 1e-9"] += 1
    if X.shape != (n, d):
        chk.fail("student:shape", f"shape {X.shape} is not (n, d)", replay, layer="L3")
    elif len(rs.log) == 2:
        z, u = rs.log[0][2], rs.log[1][2]
        ref = np.sqrt(df / u).reshape(-1, 1) * z + loc.reshape(1, -1)      # sqrt(df/u) * z + loc, re-computed here
        if not close(X, ref, 1e-12) or not close(rs.log[0][1]["mean"], np.zeros(d)) or not close(rs.log[0][1]["cov"], scale, 1e-12) \
                or abs(rs.log[1][1]["df"] - df) > 0:
            chk.fail("student:construction", "X is not sqrt(df / u) * z + loc with z ~ N(0, scale), u ~ chi2(df)", replay, layer="L3")
    seeds_check(chk, "student", lambda s: multivariate_student_t(n, loc, scale, df, s), seed, replay, X, None)
    chk.dist[f"student d={d}"] += 1
    chk.count(("student", d, n, df, seed))


STUDENT_BAD = ["scale-1d", "scale-0d", "scale-3d", "scale-nonsquare", "scale-bigger", "scale-smaller", "loc-0d", "loc-2d", "loc-empty",
               "df-zero", "df-negative", "df-nan", "df-inf", "df-neg-inf", "df-none", "df-str", "n-zero", "n-float", "nan-loc", "inf-scale"]


def stream_student_invalid(chk, i, rng):
    """malformed arguments of multivariate_student_t: a ValueError / TypeError (InvalidParameterError is both), never another
    exception, never a result; the model's shape verdict agrees where the arguments are inside its domain (2-D scale, 1-D loc)"""
    c = STUDENT_BAD[i % len(STUDENT_BAD)]
    d = int(rng.choice([1, 2, 3]))
    n = int(rng.choice([1, 4, 9]))
    loc = np.round(rng.normal(size=d) * 3, 3)
    scale = rand_spd(rng, d, "full")
    df = float(rng.choice([1, 3, 10]))
    dom = False
    if c == "scale-1d":
        scale = np.ones(d)
    elif c == "scale-0d":
        scale = 1.0
    elif c == "scale-3d":
        scale = np.ones((d, d, d)) if rng.random() < 0.5 else np.eye(d).reshape(1, d, d)
    elif c == "scale-nonsquare":
        scale, dom = (np.ones((d, d + 1)) if rng.random() < 0.5 else np.ones((d + 1, d))), True
    elif c == "scale-bigger":
        scale, dom = np.eye(d + 1), True
    elif c == "scale-smaller":
        d += 1
        loc = np.round(rng.normal(size=d), 3)
        scale, dom = np.eye(d - 1), True
    elif c == "loc-0d":
        loc = 1.5
    elif c == "loc-2d":
        d = max(d, 2)
        loc, scale = np.zeros((1, d)), np.eye(d)
    elif c == "loc-empty":
        loc = []
        scale = np.zeros((0, 0)) if rng.random() < 0.5 else scale
    elif c == "df-zero":
        df = 0 if rng.random() < 0.5 else 0.0
    elif c == "df-negative":
        df = -float(rng.choice([1e-9, 1, 3]))
    elif c == "df-nan":
        df = float("nan")
    elif c == "df-inf":
        df = float("inf")
    elif c == "df-neg-inf":
        df = -float("inf")
    elif c == "df-none":
        df = None
    elif c == "df-str":
        df = "3"
    elif c == "n-zero":
        n = 0
    elif c == "n-float":
        n = 2.5
    elif c == "nan-loc":
        loc = loc.copy()
        loc[0] = np.nan
    elif c == "inf-scale":
        scale = scale.copy()
        scale[0, 0] = np.inf
    replay = {"fn": "multivariate_student_t", "class": c, "n": n, "loc": np.asarray(loc).tolist(), "scale": np.asarray(scale).tolist(), "df": repr(df)}
    try:
        multivariate_student_t(n, loc, scale, df, 0)
        chk.fail(f"student:invalid:{c}:accepted", f"malformed arguments of multivariate_student_t ({c}) are accepted", replay, layer="L3")
    except (ValueError, TypeError):
        pass
    except Exception as e:  # noqa
        chk.fail(f"student:invalid:{c}:wrong-error", f"malformed arguments of multivariate_student_t ({c}) raise {type(e).__name__} instead of a ValueError/TypeError: {str(e)[:120]}", replay, layer="L3")
    if dom:
        t = chk.ask(f"c20.student 1 {enc_v(loc)} {enc_m(scale)} {hx(1.0)} 0")
        mok = t.bool()
        t.list(lambda: rd_call(t))
        t.next()
        if t.bool() != mok:
            chk.fail("student:regenerated-vs-model", "regenerated and hand-written shape tests differ", replay)
        if mok:
            chk.fail(f"student:invalid:{c}:verdict", "the model's shape test accepts a scale whose shape does not match the location", replay)
    chk.dist["student invalid:" + c] += 1
    chk.count(("student-invalid", c, i))


def stream_gstm(chk, i, rng):
    n = int(rng.choice([4, 5, 6, 7, 8, 11, 16, 23, 40])) if chk.tier == "quick" else int(rng.integers(4, 120))
    alpha = float(rng.choice([0.5, 1, 2, 5, 2.75]))
    df = float(rng.choice([0.5, 1, 2, 10]))
    if rng.random() < 0.3:
        alpha, df = int(rng.choice([1, 2, 5])), int(rng.choice([1, 2, 10]))     # the defaults are Python ints
    seed = int(rng.integers(0, 2 ** 31 - 2))
    replay = {"fn": "gstm", "n": n, "alpha": alpha, "df": df, "seed": seed}
    rs = RecRS(seed)
    X, y = gstm(n, alpha, df, rs)
    check_log(chk, "gstm", rs, replay)
    t = chk.ask(f"c20.gstm {n} {hx(alpha)} {hx(df)} {enc_draws(rs.log)}")
    ng_model = t.int()
    mcalls = t.list(lambda: rd_call(t))
    run = rd_run(t)
    bad = calls_match(mcalls, rs.log)
    if bad:
        chk.fail("gstm:requests", "requests differ from the model's: " + bad, replay)
    compare_run(chk, "gstm", run, X, y, replay, "gstm")
    # L3 on the log, against the documented design
    ng = 3 * n // 4
    ok_shape = X.shape == (n, 2) and y.shape == (n,)
    if not ok_shape:
        chk.fail("gstm:shape", f"X{X.shape} y{y.shape}: documented (n,2),(n,)", replay, layer="L3")
    else:
        lab = y.astype(int)
        if np.any(lab != y) or lab.min() < 0 or lab.max() > 3:
            chk.fail("gstm:labels", "labels outside {0,1,2,3}", replay, layer="L3")
        if int(np.sum(lab == 3)) != n - ng or ng_model != ng:
            chk.fail("gstm:counts", f"{int(np.sum(lab == 3))} Student-t samples (label 3), documented n - 3n//4 = {n - ng} (model {n - ng_model})", replay, layer="L3")
        if len(rs.log) == 7 and [e[0] for e in rs.log] == ["choice", "mvn", "mvn", "mvn", "mvn", "chisq", "perm"]:
            yg = rs.log[0][2]
            ok = len(yg) == ng
            if ok:
                Xg = np.array([rs.log[1 + int(k)][2][r] for r, k in enumerate(yg)]).reshape(ng, 2)
                z, u = rs.log[4][2], rs.log[5][2]
                Xs = np.sqrt(df / u).reshape(-1, 1) * z + (DOC["gstm_loc"][3] * alpha).reshape(1, -1)
                order = rs.log[6][2]
                Xall, yall = np.vstack([Xg, Xs]), np.concatenate([yg, 3 * np.ones(n - ng)])
                ok = close(X, Xall[order], 1e-12) and np.array_equal(y, yall[order])
                for k in range(3):
                    ok = ok and close(rs.log[1 + k][1]["mean"], DOC["gstm_loc"][k] * alpha, 1e-12) and close(rs.log[1 + k][1]["cov"], np.eye(2), 1e-12)
                ok = ok and close(rs.log[0][1]["p"], np.ones(3) / 3, 1e-12) and close(rs.log[4][1]["cov"], np.eye(2), 1e-12)
            if not ok:
                chk.fail("gstm:design", "gstm is not: 3n//4 draws of the documented 3-component mixture, n-3n//4 Student-t draws at (-alpha,-alpha), X and y shuffled by the same permutation", replay, layer="L3")
        else:
            chk.fail("gstm:design", f"unexpected sequence of random calls {[e[0] for e in rs.log]}", replay, layer="L3")
    seeds_check(chk, "gstm", lambda s: gstm(n, alpha, df, s), seed, replay, X, y)
    chk.dist[f"gstm n%4={n % 4}"] += 1
    chk.count(("gstm", n, alpha, df, seed) if ok_shape and len(set(y.tolist())) >= 2 else None)
    chk.sample({"stream": "gstm", "n": n, "alpha": alpha, "df": df, "labels": y.tolist()[:12]})


def stream_celeux(chk, i, rng):
    seed = int(rng.integers(0, 2 ** 31 - 2))
    n = int(rng.choice([1, 2, 3, 6, 10, 17, 30]))
    if i % 2 == 0:
        p = int(rng.choice([1, 2, 5, 8]))
        mu = float(rng.choice([0.5, 1.7, 3.0, 1.25]))
        replay = {"fn": "celeux_one", "n": n, "p": p, "mu": mu, "seed": seed}
        rs = RecRS(seed)
        X, y = celeux_one(n, p, mu, rs)
        check_log(chk, "celeux_one", rs, replay)
        t = chk.ask(f"c20.c1 {n} {p} {hx(mu)} {enc_draws(rs.log)}")
        mcalls = t.list(lambda: rd_call(t))
        run = rd_run(t)
        bad = calls_match(mcalls, rs.log)
        if bad:
            chk.fail("celeux_one:requests", "requests differ from the model's: " + bad, replay)
        compare_run(chk, "celeux_one", run, X, y, replay, "celeux_one")
        if X.shape != (n, 5 + p) or y.shape != (n,) or (n and (y.min() < 0 or y.max() > 2)):
            chk.fail("celeux_one:shape", f"X{X.shape} y{y.shape}: documented (n,5+p),(n,) labels in 0..2", replay, layer="L3")
        elif len(rs.log) == 5:
            ok = close(rs.log[0][1]["p"], np.ones(3) / 3, 1e-12)
            for k in range(3):
                ok = ok and close(rs.log[1 + k][1]["mean"], DOC["c1_loc"][k] * mu, 1e-12) and close(rs.log[1 + k][1]["cov"], np.eye(5), 1e-12)
            good = np.array([rs.log[1 + int(k)][2][r] for r, k in enumerate(y)]).reshape(n, 5)
            ok = ok and np.array_equal(X[:, :5], good) and np.array_equal(X[:, 5:], rs.log[4][2]) and rs.log[4][0] == "normal" \
                and float(rs.log[4][1]["loc"]) == 0.0 and float(rs.log[4][1]["scale"]) == 1.0
            if not ok:
                chk.fail("celeux_one:design", "celeux_one is not: the documented 3-component mixture in 5 dimensions followed by p N(0,1) columns", replay, layer="L3")
        seeds_check(chk, "celeux_one", lambda s: celeux_one(n, p, mu, s), seed, replay, X, y)
        chk.dist["celeux_one"] += 1
        chk.count(("c1", n, p, mu, seed))
    else:
        replay = {"fn": "celeux_two", "n": n, "seed": seed}
        rs = RecRS(seed)
        X, y = celeux_two(n, rs)
        check_log(chk, "celeux_two", rs, replay)
        t = chk.ask(f"c20.c2 {n} {enc_draws(rs.log)}")
        mcalls = t.list(lambda: rd_call(t))
        run = rd_run(t)
        bad = calls_match(mcalls, rs.log)
        if bad:
            chk.fail("celeux_two:requests", "requests differ from the model's: " + bad, replay)
        compare_run(chk, "celeux_two", run, X, y, replay, "celeux_two")
        if X.shape != (n, 14) or y.shape != (n,) or (n and (y.min() < 0 or y.max() > 3)):
            chk.fail("celeux_two:shape", f"X{X.shape} y{y.shape}: documented (n,14),(n,) labels in 0..3", replay, layer="L3")
        elif len(rs.log) == 7:
            ok = close(rs.log[0][1]["p"], np.ones(4) / 4, 1e-12)
            for k in range(4):
                ok = ok and close(rs.log[1 + k][1]["mean"], DOC["c2_loc"][k], 1e-12) and close(rs.log[1 + k][1]["cov"], np.eye(2), 1e-12)
            good = np.array([rs.log[1 + int(k)][2][r] for r, k in enumerate(y)]).reshape(n, 2)
            noise, tail = rs.log[5][2], rs.log[6][2]
            ok = ok and np.array_equal(X[:, :2], good) and np.array_equal(X[:, 11:], tail)
            ok = ok and close(rs.log[5][1]["mean"], np.zeros(9)) and close(rs.log[5][1]["cov"], DOC["c2_omega"], 1e-12)
            ok = ok and close(rs.log[6][1]["mean"], DOC["c2_tail_mean"], 1e-12) and close(rs.log[6][1]["cov"], np.eye(3), 1e-12)
            lin = DOC["c2_offsets"] + good @ DOC["c2_b"] + noise
            if not (ok and close(X[:, 2:11], lin, 1e-12)):
                chk.fail("celeux_two:design", "celeux_two is not the documented design (means, noise covariance, offsets + informative @ b + noise, trailing N((3.2,3.6,4), I))", replay, layer="L3")
        seeds_check(chk, "celeux_two", lambda s: celeux_two(n, s), seed, replay, X, y)
        chk.dist["celeux_two"] += 1
        chk.count(("c2", n, seed))


# ------------------------------------------------------------------ representation corners (metamorphic, L3)
def _nested_tuple(a):
    return tuple(_nested_tuple(x) for x in a) if isinstance(a, list) else a


def _noncontig(a):
    """the same values as a non-contiguous view of a larger array"""
    a = np.asarray(a)
    big = np.full(tuple(2 * s for s in a.shape), 7.0, dtype=a.dtype)
    big[tuple(slice(None, None, 2) for _ in a.shape)] = a
    return big[tuple(slice(None, None, 2) for _ in a.shape)]


def _readonly(a):
    b = np.array(a, copy=True)
    b.setflags(write=False)
    return b


REPRS = {"list": lambda a: np.asarray(a).tolist(), "tuple": lambda a: _nested_tuple(np.asarray(a).tolist()),
         "fortran": lambda a: np.asfortranarray(a), "noncontiguous": _noncontig, "readonly": _readonly,
         "float32": lambda a: np.asarray(a, dtype=np.float32), "float16": lambda a: np.asarray(a, dtype=np.float16),
         "int64": lambda a: np.asarray(a).astype(np.int64), "int32": lambda a: np.asarray(a).astype(np.int32),
         "intlist": lambda a: np.asarray(a).astype(int).tolist(), "float64": lambda a: np.array(a, dtype=np.float64)}
INT_REPRS = ("int64", "int32", "intlist")


def _snapshot(o):
    return ("arr", o.dtype.str, o.shape, o.tobytes(), o.flags["WRITEABLE"]) if isinstance(o, np.ndarray) else ("obj", repr(o))


def _same_log(a, b):
    if len(a) != len(b):
        return f"{len(a)} vs {len(b)} random calls"
    for j, ((k1, a1, r1), (k2, a2, r2)) in enumerate(zip(a, b)):
        if k1 != k2:
            return f"call {j}: {k1} vs {k2}"
        for key in a1:
            v1, v2 = a1[key], a2[key]
            if isinstance(v1, np.ndarray) or isinstance(v2, np.ndarray):
                if v1 is None or v2 is None or np.asarray(v1).shape != np.asarray(v2).shape or not np.array_equal(np.asarray(v1, float), np.asarray(v2, float)):
                    return f"call {j} ({k1}): argument {key} differs"
            elif key == "size":
                if size_n(v1) != size_n(v2):
                    return f"call {j} ({k1}): size differs"
            elif isinstance(v1, (int, float, np.integer, np.floating)) and not isinstance(v1, bool):
                if float(v1) != float(v2):
                    return f"call {j} ({k1}): argument {key} differs"
            elif v1 != v2:
                return f"call {j} ({k1}): argument {key} differs"
        if r1.shape != r2.shape or not np.array_equal(r1, r2):
            return f"call {j} ({k1}): the answer differs"
    return None


def repr_compare(chk, fn_name, call, ref_args, var_args, vname, seed, replay):
    """call(args, random_state) on the float64 reference and on another spelling of the same values"""
    rs0 = RecRS(seed)
    ref = call(ref_args, rs0)
    X0, y0 = ref if isinstance(ref, tuple) else (ref, None)
    before = [_snapshot(a) for a in var_args]
    rs1 = RecRS(seed)
    key = f"repr:{fn_name}:{vname}"
    rp = dict(replay, spelling=vname, seed=seed)
    try:
        out = call(var_args, rs1)
    except Exception as e:  # noqa
        chk.fail(key + ":exception", f"{fn_name} succeeds on float64 arrays but raises {type(e).__name__}: {str(e)[:120]} on the same values given as {vname}", rp, layer="L3")
        return
    X1, y1 = out if isinstance(out, tuple) else (out, None)
    if [_snapshot(a) for a in var_args] != before:
        chk.fail(key + ":argument-modified", f"{fn_name} modifies an argument given as {vname}", rp, layer="L3")
    if not isinstance(X1, np.ndarray) or X1.dtype != np.float64:
        chk.fail(key + ":dtype", f"{fn_name} returns samples of dtype {getattr(X1, 'dtype', type(X1))} for parameters given as {vname} (documented: real-valued samples; float64 for the float64 spelling)", rp, layer="L3")
    if not isinstance(X1, np.ndarray) or X1.shape != X0.shape or not np.array_equal(np.asarray(X1, float), X0):
        d = float(np.max(np.abs(np.asarray(X1, float) - X0))) if isinstance(X1, np.ndarray) and X1.shape == X0.shape and X0.size else float("nan")
        chk.fail(key + ":samples", f"{fn_name}: the same parameter values given as {vname} give different samples under the same random_state (max difference {d:.3g})", rp, layer="L3")
    if y0 is not None and not (isinstance(y1, np.ndarray) and y1.dtype == y0.dtype and np.array_equal(y1, y0)):
        chk.fail(key + ":labels", f"{fn_name}: the same parameter values given as {vname} give different labels under the same random_state", rp, layer="L3")
    bad = _same_log(rs0.log, rs1.log)
    if bad:
        chk.fail(key + ":requests", f"{fn_name}: the requests to the random generator differ for parameters given as {vname}: {bad}", rp, layer="L3")
    chk.dist["repr:" + vname] += 1


def dyadic_spd(rng, d, integral):
    if integral:
        kind = int(rng.integers(0, 3))
        if kind == 0 or d == 1:
            return np.diag(rng.integers(1, 5, size=d)).astype(float)
        A = rng.integers(-1, 2, size=(d, d)).astype(float)
        return A @ A.T + np.eye(d)
    A = rng.integers(-2, 3, size=(d, d)) / 2.0
    return A @ A.T + np.eye(d) * 0.5


def stream_repr(chk, i, rng):
    kind = ["gmm1d", "gmmnd", "gmmnd", "student", "gstm", "celeux_one"][i % 6]
    integral = (i // 6) % 2 == 0
    seed = int(rng.integers(0, 2 ** 31 - 2))
    n = int(rng.choice([1, 5, 12, 30]))
    names = ["list", "tuple", "fortran", "noncontiguous", "readonly", "float32"] + (list(INT_REPRS) if integral else [])
    if kind in ("gmm1d", "gmmnd"):
        K = int(rng.choice([2, 3, 4]))
        d = 1 if kind == "gmm1d" else int(rng.choice([2, 3]))
        loc = (rng.integers(-10, 11, size=(K, d)) if integral else rng.integers(-40, 41, size=(K, d)) / 8.0).astype(float)
        if d == 1:
            scale = rng.choice([1.0, 4.0, 9.0] if integral else [0.25, 1.0, 2.25, 4.0, 0.0625], size=(K, 1))
        else:
            scale = np.array([dyadic_spd(rng, d, integral) for _ in range(K)])
        p = {2: [0.5, 0.5], 3: [0.5, 0.25, 0.25], 4: [0.125, 0.375, 0.25, 0.25]}[K]
        p = np.array(p)
        replay = {"fn": "draw_gmm", "n": n, "loc": loc.tolist(), "scale": scale.tolist(), "pvals": p.tolist()}
        call = lambda a, r: draw_gmm(n, a[0], a[1], a[2], r)
        ref = [loc, scale, p]
        for v in names:
            pv = REPRS[v](p) if v not in INT_REPRS else p              # proportions are never integral
            repr_compare(chk, "draw_gmm", call, ref, [REPRS[v](loc), REPRS[v](scale), pv], v, seed, replay)
        if integral:                                                    # mixed spellings: only one of the two integer-typed
            repr_compare(chk, "draw_gmm", call, ref, [REPRS["int64"](loc), scale.copy(), p.copy()], "int64-loc-only", seed, replay)
            repr_compare(chk, "draw_gmm", call, ref, [loc.copy(), REPRS["intlist"](scale), p.tolist()], "int-scale-only", seed, replay)
        if d > 1:                                                       # one covariance per component as a python list of arrays
            repr_compare(chk, "draw_gmm", call, ref, [[r for r in loc], [m for m in scale], p], "list-of-arrays", seed, replay)
            if integral:
                repr_compare(chk, "draw_gmm", call, ref, [[r.astype(int) for r in loc], [m.astype(int) for m in scale], p], "list-of-int-arrays", seed, replay)
    elif kind == "student":
        d = int(rng.choice([1, 2, 3]))
        loc = (rng.integers(-10, 11, size=d) if integral else rng.integers(-40, 41, size=d) / 8.0).astype(float)
        scale = dyadic_spd(rng, d, integral)
        df = float(rng.choice([1, 2, 5, 10]))
        replay = {"fn": "multivariate_student_t", "n": n, "loc": loc.tolist(), "scale": scale.tolist(), "df": df}
        call = lambda a, r: multivariate_student_t(n, a[0], a[1], a[2], r)
        ref = [loc, scale, df]
        for v in names:
            repr_compare(chk, "multivariate_student_t", call, ref, [REPRS[v](loc), REPRS[v](scale), df], v, seed, replay)
        for dv, nm in ((int(df), "int-df"), (np.float32(df), "float32-df"), (np.int64(df), "int64-df")):
            repr_compare(chk, "multivariate_student_t", call, ref, [loc.copy(), scale.copy(), dv], nm, seed, replay)
    elif kind == "gstm":
        n = max(n, 4)
        alpha = float(rng.choice([1, 2, 5])) if integral else float(rng.choice([0.5, 2.75, 1.125]))
        df = float(rng.choice([1, 2, 10]))
        replay = {"fn": "gstm", "n": n, "alpha": alpha, "df": df}
        call = lambda a, r: gstm(a[0], a[1], a[2], r)
        ref = [n, alpha, df]
        alts = [("numpy-scalars", [np.int64(n), np.float64(alpha), np.float64(df)]), ("int-df", [n, alpha, int(df)]),
                ("float32-scalars", [n, np.float32(alpha), np.float32(df)])]
        if integral:
            alts += [("int-alpha", [n, int(alpha), int(df)]), ("int64-alpha", [np.int32(n), np.int64(alpha), df])]
        for nm, args in alts:
            repr_compare(chk, "gstm", call, ref, args, nm, seed, replay)
    else:
        p_ = int(rng.choice([1, 3]))
        mu = float(rng.choice([1, 2, 3])) if integral else float(rng.choice([1.75, 0.5, 2.125]))
        replay = {"fn": "celeux_one", "n": n, "p": p_, "mu": mu}
        call = lambda a, r: celeux_one(a[0], a[1], a[2], r)
        ref = [n, p_, mu]
        alts = [("numpy-scalars", [np.int64(n), np.int32(p_), np.float64(mu)]), ("float32-scalars", [n, p_, np.float32(mu)])]
        if integral:
            alts += [("int-mu", [n, p_, int(mu)]), ("int64-mu", [n, p_, np.int64(mu)])]
        for nm, args in alts:
            repr_compare(chk, "celeux_one", call, ref, args, nm, seed, replay)
        Xa, ya = celeux_two(np.int64(n), seed)
        Xb, yb = celeux_two(n, seed)
        if not (np.array_equal(Xa, Xb) and np.array_equal(ya, yb) and Xa.dtype == np.float64):
            chk.fail("repr:celeux_two:numpy-scalars:samples", "celeux_two(np.int64(n)) differs from celeux_two(n)", dict(replay, seed=seed), layer="L3")
    chk.dist[f"repr {kind} {'integral' if integral else 'dyadic'}"] += 1
    chk.count(("repr", kind, integral, seed))


# ------------------------------------------------------------------ L3 statistics (6-sigma bands)
class Band:
    def __init__(self, chk, key, replay):
        self.chk, self.key, self.replay, self.n, self.worst = chk, key, replay, 0, 0.0

    def test(self, what, est, true, se):
        est, true, se = np.asarray(est, float), np.asarray(true, float), np.asarray(se, float)
        z = np.abs(est - true) / np.maximum(se, 1e-300)
        self.n += int(z.size)
        self.worst = max(self.worst, float(np.max(z)) if z.size else 0.0)
        if np.any(z > 6.0):
            j = int(np.argmax(z))
            self.chk.fail(self.key, f"{what}: estimate {est.ravel()[j]:.6g} vs documented {np.broadcast_to(true, est.shape).ravel()[j]:.6g} "
                          f"is {float(z.ravel()[j]):.1f} standard errors away (6-sigma band)", self.replay, layer="L3")
            return False
        return True


def gauss_component(band, what, Xk, mean, cov):
    nk = len(Xk)
    mean, cov = np.asarray(mean, float), np.atleast_2d(np.asarray(cov, float))
    band.test(what + " mean", Xk.mean(0), mean, np.sqrt(np.diag(cov) / nk))
    S = np.atleast_2d(np.cov(Xk.T))
    se = np.sqrt((np.outer(np.diag(cov), np.diag(cov)) + cov ** 2) / (nk - 1))
    band.test(what + " covariance", S, cov, np.maximum(se, 1e-12))


def student_component(band, what, X, loc, scale, df, rng):
    n, d = X.shape
    f0 = sps.t.pdf(0, df)
    band.test(what + " location (median)", np.median(X, 0), loc, np.sqrt(np.diag(scale)) / (2 * f0 * math.sqrt(n)))
    Xc = X - loc
    w = np.einsum("ij,jk,ik->i", Xc, np.linalg.inv(scale), Xc) / d
    for q in (0.25, 0.5, 0.75, 0.9):
        band.test(what + f" scatter (F({d},{df}) quantile {q})", np.mean(w <= sps.f.ppf(q, d, df)), q, math.sqrt(q * (1 - q) / n))
    for _ in range(3):
        a = rng.normal(size=d)
        tt = Xc @ a / math.sqrt(a @ scale @ a)
        for q in (0.1, 0.5, 0.9):
            band.test(what + f" projection t({df}) quantile {q}", np.mean(tt <= sps.t.ppf(q, df)), q, math.sqrt(q * (1 - q) / n))


def stream_stats(chk, i, rng):
    kind = ["gmm1d", "gmmnd", "student", "gstm", "celeux_one", "celeux_two"][i % 6]
    seed = int(rng.integers(0, 2 ** 31 - 2))
    big = 40000 if chk.tier == "quick" else 120000
    replay = {"fn": kind, "seed": seed, "statistical": True}
    band = Band(chk, f"stats:{kind}", replay)
    if kind in ("gmm1d", "gmmnd"):
        K = int(rng.choice([2, 3, 4]))
        d = 1 if kind == "gmm1d" else int(rng.choice([2, 3]))
        loc = np.round(rng.normal(size=(K, d)) * 3, 2)
        scale = np.round(rng.uniform(0.1, 9.0, size=(K, 1)), 2) if d == 1 else np.array([rand_spd(rng, d, "full") for _ in range(K)])
        p = rng.dirichlet(np.ones(K) * 3) * 0.7 + 0.3 / K
        p = p / p.sum()
        replay.update(n=big, loc=loc.tolist(), scale=scale.tolist(), pvals=p.tolist())
        X, y = draw_gmm(big, loc, scale, p, seed)
        band.test("mixing proportions", np.bincount(y, minlength=K) / big, p, np.sqrt(p * (1 - p) / big))
        for k in range(K):
            gauss_component(band, f"component {k}", X[y == k], loc[k], scale[k] if d > 1 else scale[k].reshape(1, 1))
    elif kind == "student":
        d = int(rng.choice([1, 2, 3]))
        loc = np.round(rng.normal(size=d) * 3, 2)
        scale = rand_spd(rng, d, "full")
        df = float(rng.choice([1, 2, 3, 10]))
        replay.update(n=big, loc=loc.tolist(), scale=scale.tolist(), df=df)
        X = multivariate_student_t(big, loc, scale, df, seed)
        student_component(band, "Student-t", X, loc, scale, df, rng)
    elif kind == "gstm":
        alpha = float(rng.choice([2, 5, 1.5]))
        df = float(rng.choice([1, 2, 5]))
        n = big + int(rng.integers(0, 4))
        replay.update(n=n, alpha=alpha, df=df)
        X, y = gstm(n, alpha, df, seed)
        lab = y.astype(int)
        ng = 3 * n // 4
        if int(np.sum(lab == 3)) != n - ng:
            chk.fail("stats:gstm:counts", "number of Student-t samples is not n - 3n//4", replay, layer="L3")
        cnt = np.bincount(lab, minlength=4)[:3]
        band.test("Gaussian mixing proportions", cnt / max(ng, 1), np.ones(3) / 3, np.sqrt((2 / 9) / ng) * np.ones(3))
        for k in range(3):
            gauss_component(band, f"Gaussian component {k}", X[lab == k], DOC["gstm_loc"][k] * alpha, np.eye(2))
        student_component(band, "Student-t component", X[lab == 3], DOC["gstm_loc"][3] * alpha, np.eye(2), df, rng)
        # shuffled: the label sequence must not be sorted by component
        runs = int(np.sum(lab[1:] != lab[:-1]))
        if runs < n / 4:
            chk.fail("stats:gstm:shuffle", f"only {runs} label changes along {n} samples: the data is not shuffled", replay, layer="L3")
    elif kind == "celeux_one":
        p = int(rng.choice([2, 4]))
        mu = float(rng.choice([1.7, 0.8, 2.5]))
        replay.update(n=big, p=p, mu=mu)
        X, y = celeux_one(big, p, mu, seed)
        band.test("mixing proportions", np.bincount(y, minlength=3) / big, np.ones(3) / 3, np.sqrt((2 / 9) / big) * np.ones(3))
        for k in range(3):
            gauss_component(band, f"component {k}", X[y == k][:, :5], DOC["c1_loc"][k] * mu, np.eye(5))
            band.test(f"noise columns given label {k}: mean", X[y == k][:, 5:].mean(0), 0.0, 1 / math.sqrt(max(1, np.sum(y == k))))
        gauss_component(band, "noise columns", X[:, 5:], np.zeros(p), np.eye(p))
        vg = 1 + mu * mu * 2 / 3
        C = (X[:, :5] - X[:, :5].mean(0)).T @ (X[:, 5:] - X[:, 5:].mean(0)) / big
        band.test("noise vs informative covariance", C, 0.0, math.sqrt(vg / big))
    else:
        n = big
        replay.update(n=n)
        X, y = celeux_two(n, seed)
        band.test("mixing proportions", np.bincount(y, minlength=4) / n, np.ones(4) / 4, np.sqrt((3 / 16) / n) * np.ones(4))
        for k in range(4):
            gauss_component(band, f"component {k}", X[y == k][:, :2], DOC["c2_loc"][k], np.eye(2))
        Z = np.hstack([np.ones((n, 1)), X[:, :2]])
        G = np.linalg.inv(Z.T @ Z)
        B = G @ Z.T @ X[:, 2:11]
        Btrue = np.vstack([DOC["c2_offsets"], DOC["c2_b"]])
        se = np.sqrt(np.outer(np.diag(G), np.diag(DOC["c2_omega"])))
        band.test("regression of columns 3..11 on (1, x1, x2): offsets and b", B, Btrue, se)
        R = X[:, 2:11] - Z @ Btrue
        gauss_component(band, "residual of columns 3..11 (noise)", R, np.zeros(9), DOC["c2_omega"])
        gauss_component(band, "columns 12..14", X[:, 11:], DOC["c2_tail_mean"], np.eye(3))
        C = (X[:, :2] - X[:, :2].mean(0)).T @ (X[:, 11:] - X[:, 11:].mean(0)) / n
        band.test("columns 12..14 vs informative covariance", C, 0.0, np.sqrt(np.outer(np.var(X[:, :2], axis=0), np.ones(3)) / n))
    chk.dist[f"stats:{kind}"] += 1
    chk.dist["statistical tests"] += band.n
    chk.notes_worst = max(getattr(chk, "notes_worst", 0.0), band.worst)
    chk.count(("stats", kind, seed))
    chk.sample({"stream": "stats", "kind": kind, "tests": band.n, "worst_z": round(band.worst, 2)}, limit=8)


STREAMS = {"regression": (stream_regression, len(REGRESSION), len(REGRESSION)),
           "gmm": (stream_gmm, 600, 6000), "invalid": (stream_invalid, 560, 5600), "student": (stream_student, 144, 1500), "student_invalid": (stream_student_invalid, 100, 1000),
           "gstm": (stream_gstm, 160, 1600), "celeux": (stream_celeux, 120, 1200), "repr": (stream_repr, 72, 720), "stats": (stream_stats, 24, 180)}


def main():
    chk = Check("C20")
    out = chk.build()
    chk.proofs()
    def tie_of(name):
        return "unavailable (translator failed closed; the previous Gen file stays; relying on the correspondence)" if f"TRANSLATOR-FAIL translator/{name}.py" in out \
            else "regenerated from the source on this run"
    if chk.replay_path:
        rp = json.load(open(chk.replay_path))
        st, case = rp["input"].get("stream"), rp["input"].get("case")
        chk.seed = rp.get("seed", chk.seed)
        if st in STREAMS:
            chk.run_stream(st, STREAMS[st][0], 0, only=case)
    else:
        for name, (fn, q, th) in STREAMS.items():
            cnt = q if chk.tier == "quick" else th
            if chk.l1_broken and name != "regression":
                cnt *= 3       # proof obligation broken: widen the failing-input search
            chk.run_stream(name, fn, cnt)
    chk.partial.append("distributional claim (moments within sampling error): not a theorem, decided statistically (stream 'stats', 6-sigma bands)")
    chk.notes.append("multivariate_student_t does not validate `scale` (a non-PSD scale only triggers numpy's RuntimeWarning); the property's rejection clause is about mixtures")
    chk.notes.append("a 1-D mixture must pass variances with shape (K,1); the documented 'K arrays of shape (d,d)' = (K,1,1) raises a broadcast ValueError")
    chk.notes.append(f"largest |z| over all statistical tests of this run: {getattr(chk, 'notes_worst', 0.0):.2f} (acceptance band 6)")
    chk.finish(rule="streams: draw_gmm on random valid descriptions (K 2..6, d 1..4, n<=34 quick / <90 thorough; identity, diagonal, full and singular rank-one "
                    "covariances; uniform, Dirichlet, dyadic and within-tolerance proportions) with a recording RandomState: requests and outputs vs the extracted model, "
                    "row-source / request-parameter / seed oracles; 28 classes of invalid descriptions (raise site vs the model, must be a ValueError/TypeError); "
                    "regression cases of the repaired defects; 20 classes of malformed multivariate_student_t arguments (scale / loc of wrong rank or shape, df and n outside their domain, non-finite entries); multivariate_student_t, gstm, celeux_one, celeux_two likewise against the model and the hand-written documented "
                    "design; representation stream (the same parameter values as lists, tuples, Fortran / non-contiguous / read-only arrays, float32, int64 / int32 / python ints, numpy scalars: bit-identical samples, labels and random requests under the same random_state, float64 output, arguments unchanged); large-sample 6-sigma moment/quantile/regression tests. non-trivial = a mixture run whose labels name at least two components, "
                    "an invalid class instance, or a statistical case; distinct = distinct (generator, sizes, parameters, seed) signature",
               extra={"regenerated_ties": {"Gen/DataConstants.v": tie_of("tr_dataconstants"), "Gen/DataGenRules.v": tie_of("tr_datagen")}})


if __name__ == "__main__":
    main()
