"""C16 — invalid hyperparameters and malformed inputs are rejected, never trained on.

L1  Props/C16.v (regenerated Gen/Constraints.v vs the hand-written documented domains of Model/Doc.v).
L2  the extracted model against the implementation: `satisfied` on the LIVE constraint objects vs the verdict of
    `_validate_params` / of the decorated call; the regenerated table vs the live objects; check_groups vs the model;
    cross-parameter rules, data shape rule and the checks/writes order of fit vs the model.
L3  the property itself on the implementation: a value outside the documented domain must make fit / the call raise a
    ValueError/TypeError-family error and leave nothing fitted, a value inside must be accepted; malformed training
    data must be rejected; predict/score/print before fit must raise; check_groups against an independent spec.
"""
import contextlib, inspect, io, itertools, json, sys
from fractions import Fraction
from numbers import Integral, Real
import numpy as np
from core import Check, enc_list, enc_opt
import impl
from sklearn.utils import _param_validation as skpv
from sklearn.utils.validation import check_is_fitted
from sklearn.exceptions import NotFittedError
from sklearn.metrics import pairwise_distances
from gemclus._base_gemini import DiscriminativeModel
from gemclus.sparse._base_sparse import check_groups
from gemclus.tree.kauri import Tree
import gemclus.data as gdata

N, D = 8, 3
G = impl.G
GEMINI_CLASSES = {c.__name__: c for c in (G.KLGEMINI, G.MI, G.TVGEMINI, G.HellingerGEMINI, G.ChiSquareGEMINI, G.MMDGEMINI, G.WassersteinGEMINI)}
FUNCTIONS = {"KLGEMINI": G.KLGEMINI.__init__, "TVGEMINI": G.TVGEMINI.__init__, "HellingerGEMINI": G.HellingerGEMINI.__init__,
             "ChiSquareGEMINI": G.ChiSquareGEMINI.__init__, "MMDGEMINI": G.MMDGEMINI.__init__, "WassersteinGEMINI": G.WassersteinGEMINI.__init__,
             "print_kauri_tree": impl.print_kauri_tree, "draw_gmm": gdata.draw_gmm, "multivariate_student_t": gdata.multivariate_student_t,
             "gstm": gdata.gstm, "celeux_one": gdata.celeux_one, "celeux_two": gdata.celeux_two, "add_mlcl_constraint": impl.add_mlcl_constraint}
SPARSE = set(impl.SPARSE)
# attributes that hold no learnt parameter: the number of features, the completed group partition (a function of the groups
# hyper-parameter and the number of features), KernelRIM's copy of the training data and its kernel
BOOKKEEPING = {"n_features_in_", "groups_", "input_data_", "training_kernel_"}
NON_WEIGHTS = {"n_features_in_", "optimiser_", "labels_", "n_iter_", "groups_", "input_data_", "training_kernel_", "tree_", "leaves_"}


def family(name):
    return "sparse" if name in SPARSE else "kernelrim" if name == "KernelRIM" else "kauri" if name == "Kauri" else "base"


def data(n=N, d=D, seed=0):
    return np.abs(np.random.RandomState(seed).normal(size=(n, d))) + 0.1      # positive: the chi2 kernels need it


def universal_kernel(a, b=None, **kw):
    a = np.asarray(a, dtype=float)
    b = a if b is None else np.asarray(b, dtype=float)
    return float(a @ b) if a.ndim == 1 else a @ b.T


def universal_metric(a, b=None, **kw):
    a = np.asarray(a, dtype=float)
    if a.ndim == 1:
        return float(np.abs(a - np.asarray(b, dtype=float)).sum())
    return pairwise_distances(a, a if b is None else np.asarray(b, dtype=float))


_FITTED = {}


def fitted_kauri():
    if "k" not in _FITTED:
        _FITTED["k"] = impl.Kauri(max_clusters=2, random_state=0).fit(data())
    return _FITTED["k"]


def quiet(fn):
    with contextlib.redirect_stdout(io.StringIO()):
        return fn()


def outcome(fn):
    """('accepted', result) | ('VT', exc) for the ValueError/TypeError family | ('other', exc)."""
    try:
        return "accepted", quiet(fn)
    except Exception as e:  # noqa
        return ("VT" if isinstance(e, (ValueError, TypeError)) else "other"), e


def fitted_attrs(est):
    return sorted(k for k in vars(est) if k.endswith("_") and not k.startswith("__"))


# ------------------------------------------------------------------------------------------- values
def hexs(s):
    return s.encode().hex() if s else "-"


class V:
    """A test value: token for the model, factory for the Python object, kind label."""

    def __init__(self, tok, make, kind, label=None, extreme=False):
        self.tok, self.make, self.kind, self.label, self.extreme = tok, make, kind, label or tok, extreme


def v_int(z, numpy_flavour=False):
    z = int(z)
    return V(f"I {z}", (lambda: np.int64(z)) if numpy_flavour and abs(z) < 2 ** 62 else (lambda: z), "int", f"int {z}" + (" (np.int64)" if numpy_flavour else ""))


def v_real(x, extreme=False):
    x = float(x)
    f = Fraction(x)
    return V(f"R {f.numerator} {f.denominator}", lambda: x, "real", f"float {x!r}", extreme)


def v_str(s):
    return V("S " + hexs(s), lambda: s, "str", f"str {s!r}")


def v_inst(cls, make):
    return V("X " + cls, make, "instance", f"{cls} instance")


V_TRUE, V_FALSE = V("B 1", lambda: True, "bool", "True"), V("B 0", lambda: False, "bool", "False")
V_NPBOOL = V("NB 1", lambda: np.bool_(True), "npbool", "np.bool_(True)")
V_NAN, V_PINF, V_NINF = V("NAN", lambda: float("nan"), "nan"), V("PINF", lambda: float("inf"), "inf"), V("NINF", lambda: float("-inf"), "inf")
V_NONE = V("N", lambda: None, "none", "None")
V_OTHER = V("O", lambda: object(), "object", "object()")


def context_values(e, p):
    """Containers / callables concretised so that they are *content-valid* for (e, p) whenever the type can be valid."""
    arr, lst, tup, dct = np.zeros(3), [1, 2], (1, 2), {"a": 1}
    call = universal_metric if "metric" in p else universal_kernel
    if p == "feature_mask":
        arr, lst, tup = np.array([True, True, False]), [True, True, False], (True, True, False)
    elif p == "groups":
        arr, lst, tup = np.array([[0, 1]]), [[0, 1]], ([0, 1],)
    elif p in ("kernel_params", "metric_params", "base_kernel_params"):
        dct = {}
    elif p == "feature_names":
        arr, lst, tup = np.array(["a", "b", "c"]), ["a", "b", "c"], ("a", "b", "c")
    elif p == "loc":
        arr, lst, tup = (np.zeros((2, 2)), [np.zeros(2), np.ones(2)], (np.zeros(2), np.ones(2))) if e == "draw_gmm" else (np.zeros(2), [0.0, 0.0], (0.0, 0.0))
    elif p == "scale":
        arr, lst, tup = (np.stack([np.eye(2)] * 2), [np.eye(2)] * 2, (np.eye(2), np.eye(2))) if e == "draw_gmm" else (np.eye(2), [[1.0, 0.0], [0.0, 1.0]], ((1.0, 0.0), (0.0, 1.0)))
    elif p == "pvals":
        arr, lst, tup = np.array([0.5, 0.5]), [0.5, 0.5], (0.5, 0.5)
    elif p == "must_link":
        arr, lst, tup = np.array([[0, 1]]), [[0, 1]], ((0, 1),)
    elif p == "cannot_link":
        arr, lst, tup = np.array([[2, 3]]), [[2, 3]], ((2, 3),)
    return [V("C", lambda: call, "callable", "a callable"), V("A", lambda: arr, "ndarray", "an ndarray"), V("D", lambda: dct, "dict", "a dict"),
            V("L", lambda: lst, "list", "a list"), V("T", lambda: tup, "tuple", "a tuple")]


def instance_values():
    return [v_inst("RandomState", lambda: np.random.RandomState(0)), v_inst("Generator", lambda: np.random.default_rng(0)),
            v_inst("MMDGEMINI", lambda: G.MMDGEMINI()), v_inst("KLGEMINI", lambda: G.KLGEMINI()), v_inst("MI", lambda: G.MI()),
            v_inst("LinearModel", lambda: impl.LinearModel(max_iter=1)), v_inst("Douglas", lambda: impl.Douglas(max_iter=1)),
            v_inst("Kauri", fitted_kauri), v_inst("Tree", lambda: Tree())]


def interval_bounds(cons):
    out = []
    for c in cons or []:
        if isinstance(c, skpv.Interval):
            out += [b for b in (c.left, c.right) if b is not None and np.isfinite(b)]
        elif isinstance(c, str) and c == "random_state":
            out += [0, 2 ** 32 - 1]
    return sorted(set(out))


def doc_info(chk, e, p):
    """Finite bounds and strings of the documented domain of (e, p): probed whatever the code declares."""
    t = chk.ask(f"c16.docinfo {e} {p}")
    if t.next() == "U":
        return [], []
    zb = t.list(t.int)
    qb = t.list(lambda: Fraction(t.int(), t.int()))
    return sorted(set(zb) | {float(q) for q in qb}), [bytes.fromhex(h).decode() if h != "-" else "" for h in t.list(t.next)]


def candidate_values(chk, e, p, cons, rng):
    dbounds, dstrs = doc_info(chk, "KLGEMINI" if e == "MI" else e, p)
    bounds = sorted(set(interval_bounds(cons)) | set(dbounds)) or [0, 1]
    ints = {-1, 0, 1, 2, 3}
    reals = {0.5, -0.5, 1.5, 2.0, 1e-3}
    ulps = set()            # one ulp off a bound: decides open / closed for the validator; not a sensible hyper-parameter to train with
    for b in bounds:
        ints |= {int(b) - 1, int(b), int(b) + 1}
        eps = 1e-6 * max(1.0, abs(b))
        reals |= {float(b), float(b) - eps, float(b) + eps}
        ulps |= {float(np.nextafter(float(b), np.inf)), float(np.nextafter(float(b), -np.inf))}
    if chk.tier == "thorough":
        lo, hi = min(bounds) - 4, max(bounds) + 4
        ints |= {int(rng.integers(lo, hi + 1)) for _ in range(12)}
        reals |= {float(rng.uniform(lo, hi)) for _ in range(24)}
    vals = [v_int(z, numpy_flavour=(k % 3 == 2)) for k, z in enumerate(sorted(ints))] + [v_real(x) for x in sorted(reals)] + [v_real(x, True) for x in sorted(ulps - reals)]
    vals += [V_TRUE, V_FALSE, V_NPBOOL, V_NAN, V_PINF, V_NINF, V_NONE, V_OTHER]
    opts = sorted({o for c in cons or [] if isinstance(c, skpv.StrOptions) for o in c.options} | set(dstrs))
    vals += [v_str(o) for o in opts] + [v_str("nonsense"), v_str("")]
    if opts:
        vals += [v_str(opts[0].upper()), v_str(opts[-1] + " ")]
    return vals + context_values(e, p) + instance_values()


# ------------------------------------------------------------------------------------------- live constraints -> tokens
def enc_bound(b):
    if b is None:
        return "-"
    if isinstance(b, float) and np.isinf(b):
        return "PI" if b > 0 else "NI"
    f = Fraction(b)
    return f"F {f.numerator} {f.denominator}"


TYPE_NAMES = {bool: "bool", dict: "dict", list: "list", tuple: "tuple", str: "str", np.ndarray: "ndarray"}


def enc_constraint(c, decorator):
    if isinstance(c, skpv.Interval):
        ty = {Integral: "I", Real: "R", skpv.RealNotInt: "RN"}[c.type]
        return f"IV {ty} {enc_bound(c.left)} {enc_bound(c.right)} " + {"left": "L", "right": "R", "both": "B", "neither": "N"}[c.closed]
    if isinstance(c, skpv.StrOptions):
        return "SO " + enc_list(sorted(c.options), hexs)
    if c is None:
        return "NONE"
    if c is callable:
        return "CALL"
    if isinstance(c, type):
        return "IO " + TYPE_NAMES.get(c, c.__name__)
    if isinstance(c, str) and c == "random_state":
        return "RS"
    if isinstance(c, str) and c == "array-like":
        return "AL"
    if isinstance(c, str) and (c == "boolean" or (decorator and c == "bool")):
        return "BOOL"
    raise ValueError(f"constraint object outside the modelled fragment: {c!r}")


def enc_ocs(cons, decorator=False):
    return "U" if cons is None else "K " + enc_list([enc_constraint(c, decorator) for c in cons])


def ctor_params(cls):
    return [k for k, q in inspect.signature(cls.__init__).parameters.items() if k != "self" and q.kind not in (q.VAR_POSITIONAL, q.VAR_KEYWORD)]


def fn_params(fn):
    return [k for k, q in inspect.signature(fn).parameters.items() if k != "self" and q.kind not in (q.VAR_POSITIONAL, q.VAR_KEYWORD)]


def live_fn_constraints(fn):
    """The dict given to @constraint_params (a closure variable of the wrapper); None when it cannot be reached."""
    try:
        return inspect.getclosurevars(fn).nonlocals["parameter_constraints"]
    except Exception:  # noqa
        return None


# ------------------------------------------------------------------------------------------- rejected fits
def trace_model(chk, fam, weights, stage):
    flags = {"params": "0 1 1 1 1 1", "data": "1 0 1 1 1 1", "samples": "1 1 0 1 1 1", "groups": "1 1 1 0 1 1", "cross": "1 1 1 1 0 1",
             "affinity": "1 1 1 1 1 0", "none": "1 1 1 1 1 1"}[stage]
    t = chk.ask(f"c16.trace {fam} {enc_list(weights)} {flags}")
    acc, vf = t.bool(), t.bool()
    return acc, vf, t.list(t.next)


_WEIGHTS = {}


def weights_of(name):
    """Names of the learnt-parameter attributes of an estimator class, read off a successful fit."""
    if name not in _WEIGHTS:
        est = impl.make(name, max_iter=1, random_state=0)
        quiet(lambda: est.fit(data()))
        _WEIGHTS[name] = (sorted(a for a in fitted_attrs(est) if a not in NON_WEIGHTS and a != "H_"), fitted_attrs(est))
    return _WEIGHTS[name]


def check_rejected(chk, name, est, stage, key, replay, X=None, cause=None):
    """After a rejected fit: L2 the attributes left behind are those of the checks/writes model for this stage (when the
    stage is known); L3 no learnt attribute (anything outside BOOKKEEPING) may be left, and predict must still raise.
    cause='bool-for-int': the rejection is numpy's TypeError for a bool that validation let through as an integer — the
    leftovers of that crash are reported under the key of that root cause (Kauri keeps its own keys)."""
    fam = family(name)
    left = fitted_attrs(est)
    if stage is not None:
        w = weights_of(name)[0] if fam in ("base", "sparse") else []
        acc, vf, exp = trace_model(chk, fam, w, stage)
        if acc or sorted(set(exp)) != left:
            chk.fail(f"trace:{fam}:{stage}", f"{name}: attributes left by a fit rejected at stage '{stage}' are {left}, the checks/writes model says {sorted(set(exp))}", replay)
    extra = [a for a in left if a not in BOOKKEEPING]
    by_cause = cause == "bool-for-int" and fam != "kauri"
    chk.dist["rejected-fit leaves: " + (",".join(left) or "nothing")] += 1
    if extra:
        chk.fail("doc-rejects:bool-for-int" if by_cause else f"unfitted:{fam}", f"{name}: fit rejected ({key}; stage {stage or 'after validation'}) left fitted attributes {left}", replay, layer="L3")
    still_fitted = True
    try:
        check_is_fitted(est)
    except NotFittedError:
        still_fitted = False
    if still_fitted and not extra:
        chk.dist["check_is_fitted passes after a rejected fit (bookkeeping attributes only: " + ",".join(left) + ")"] += 1
    if X is not None:
        r, res = outcome(lambda: est.predict(X))
        if r == "accepted":
            chk.fail("doc-rejects:bool-for-int" if by_cause else f"predict-after-rejected-fit:{fam}", f"{name}: predict returns {np.asarray(res).tolist()[:8]} after a rejected fit ({key}; stage {stage or 'after validation'})", replay, layer="L3")


def stage_of(name, exc, default):
    """The estimator's own parameter validation names the estimator in its message (scikit-learn functions called later
    raise the same exception class for their own parameters)."""
    return "params" if type(exc).__name__ == "InvalidParameterError" and f"parameter of {name} " in str(exc) else default


# ------------------------------------------------------------------------------------------- stream: table
def live_classes():
    out = {}
    for mname, mod in list(sys.modules.items()):
        if mname.startswith("gemclus") and "tests" not in mname:
            for k, v in vars(mod).items():
                if inspect.isclass(v) and v.__module__.startswith("gemclus"):
                    out[v.__name__] = v
    return out


def stream_table(chk, i, rng):
    """The regenerated Gen/Constraints.v against the live constraint objects (translator check)."""
    t = chk.ask("c16.dump")

    def rd_table():
        return {t.next(): [(t.next(), rd_ocs()) for _ in range(t.int())] for _ in range(t.int())}

    def rd_ocs():
        if t.next() == "U":
            return "U"
        return "K " + " ".join([str(n := t.int())] + [rd_c() for _ in range(n)])

    def rd_c():
        k = t.next()
        if k == "IV":
            return "IV " + t.next() + " " + rd_b() + " " + rd_b() + " " + t.next()
        if k == "SO":
            return "SO " + " ".join([str(n := t.int())] + [t.next() for _ in range(n)])
        if k == "IO":
            return "IO " + t.next()
        return k

    def rd_b():
        k = t.next()
        return k + (" " + t.next() + " " + t.next() if k == "F" else "")

    gen_est, gen_fn = rd_table(), rd_table()
    gen_classes = {t.next(): (t.list(t.next), t.list(t.next)) for _ in range(t.int())}
    dead = [(t.next(), bytes.fromhex(t.next()).decode()) for _ in range(t.int())]
    translator_failed = "TRANSLATOR-FAIL translator/tr_constraints.py" in chk.build_out
    if translator_failed:
        chk.notes.append("tr_constraints.py failed: Gen/Constraints.v is stale, the table comparison is skipped (correspondence uses the live objects)")
    n = 0
    for name, cls in list(impl.ALL_ESTIMATORS.items()) + [("DiscriminativeModel", DiscriminativeModel)]:
        live = [(p, enc_ocs(cls._parameter_constraints.get(p))) for p in ctor_params(cls)]
        n += len(live)
        if not translator_failed and gen_est.get(name) != live:
            chk.fail("gen-vs-live:estimator", f"{name}: regenerated constraints {gen_est.get(name)} differ from the live _parameter_constraints {live}", {"estimator": name})
    if not translator_failed and set(gen_est) != set(impl.ALL_ESTIMATORS) | {"DiscriminativeModel"}:
        chk.fail("gen-vs-live:estimator", f"classes with _parameter_constraints in the sources {sorted(gen_est)} differ from the estimator registry", {})
    if not translator_failed and set(gen_fn) != set(FUNCTIONS):
        chk.fail("gen-vs-live:function", f"decorated functions in the sources {sorted(gen_fn)} differ from the functions the check calls {sorted(FUNCTIONS)}", {})
    for name, fn in FUNCTIONS.items():
        cons = live_fn_constraints(fn)
        if cons is None:
            chk.notes.append(f"{name}: the decorator's constraint dict is not reachable; the regenerated table is used for it")
            continue
        live = [(p, enc_ocs(cons.get(p), True)) for p in fn_params(fn)]
        n += len(live)
        if not translator_failed and gen_fn.get(name) != live:
            chk.fail("gen-vs-live:function", f"{name}: regenerated constraints {gen_fn.get(name)} differ from the live decorator dict {live}", {"function": name})
        for k in cons:
            if k not in fn_params(fn):
                chk.dist[f"decorator key naming no parameter: {name}.{k}"] += 1
    if not translator_failed:
        lc = live_classes()
        for cname, (bases, special) in gen_classes.items():
            c = lc.get(cname)
            if c is None or [b.__name__ for b in c.__bases__ if b is not object] != bases or sorted(m for m in ("__call__", "__len__", "__array__") if m in vars(c)) != sorted(special):
                chk.fail("gen-vs-live:classes", f"class table entry {cname}: {bases} {special} differs from the live class", {"class": cname})
    chk.regenerated["Gen/Constraints.v"] = "stale (translator failed)" if translator_failed else f"{n} (estimator|function, parameter) entries equal to the live objects"
    t = chk.ask("c16.known")
    act = [(t.next(), t.next()) for _ in range(t.int())]
    chk.notes.append("validator-level disagreements with the documentation present in the current sources (Doc.known_asis rows in force): "
                     + ", ".join(f"{a}.{b}" for a, b in act))
    chk.dist["known_asis rows in force"] += len(act)
    chk.count(("table", n))
    chk.traces += 1


# ------------------------------------------------------------------------------------------- stream: estimator parameters
def est_cases():
    return [(name, p) for name, cls in impl.ALL_ESTIMATORS.items() for p in ctor_params(cls)]


def base_kwargs(name, p):
    cls = impl.ALL_ESTIMATORS[name]
    kw = {}
    pr = ctor_params(cls)
    if "max_iter" in pr and p != "max_iter":
        kw["max_iter"] = 1
    if p != "random_state":
        kw["random_state"] = 0
    if name in ("MLPModel", "MLPMMD", "MLPWasserstein", "SparseMLPModel", "SparseMLPMMD") and p != "n_hidden_dim":
        kw["n_hidden_dim"] = 4
    return kw


def classify(chk, what, p, v, sat, doc, r_val, r_call, exc, replay):
    """L2: validator verdict vs model.  L3: call outcome vs documented domain.  Returns True when rejected."""
    if r_val is not None and (r_val == "accepted") != sat:
        chk.fail(f"validator:{p}:{v.kind}", f"{what}={v.label}: validation {'accepts' if r_val == 'accepted' else 'rejects'} but the model of the declared constraints says {'accept' if sat else 'reject'}", replay)
    if doc is None:
        chk.fail(f"undocumented:{p}", f"{what}: no documented domain in Model/Doc.v", replay)
        return r_call != "accepted"
    # in-domain by type only: a value one ulp inside a bound (numerical degeneracy is property C17's subject), an object that
    # is callable but is no kernel / metric function (a GEMINI instance) — validation is compared, training with it is not
    by_type_only = v.extreme or (v.kind == "instance" and p in ("kernel", "metric", "base_kernel"))
    if doc and by_type_only and r_call != "accepted":
        chk.dist["in-domain by type only, not trainable: " + ("ulp-from-bound" if v.extreme else "callable instance")] += 1
    elif r_call == "other":
        chk.fail(f"other-exception:{p}", f"{what}={v.label} ({'inside' if doc else 'outside'} the documented domain) raises {type(exc).__name__}: {str(exc)[:160]} — neither a ValueError nor a TypeError", replay, layer="L3")
    elif doc and r_call != "accepted":
        key = "doc-rejects:bool-for-int" if v.kind == "bool" else f"doc-rejects:{p}"
        chk.fail(key, f"{what}={v.label} is inside the documented domain (validation accepts it) but is rejected: {type(exc).__name__}: {str(exc)[:160]}", replay, layer="L3")
    elif not doc and r_call == "accepted":
        chk.fail(f"doc-accepts:{p}", f"{what}={v.label} is outside the documented domain but is accepted", replay, layer="L3")
    return r_call != "accepted"


def ask_models(chk, e, p, ocs_tok, v):
    sat = chk.ask(f"c16.sat {ocs_tok} {v.tok}").bool()
    g = chk.ask(f"c16.gen {e} {p} {v.tok}").next()
    d = chk.ask(f"c16.doc {e} {p} {v.tok}").next()
    return sat, (None if g == "U" else g == "1"), (None if d == "U" else d == "1")


def stream_params(chk, i, rng):
    name, p = est_cases()[i]
    cls = impl.ALL_ESTIMATORS[name]
    cons = cls._parameter_constraints.get(p)
    ocs_tok = enc_ocs(cons)
    X = data()
    K = universal_kernel(X)
    Dm = universal_metric(X)
    translator_failed = "TRANSLATOR-FAIL translator/tr_constraints.py" in chk.build_out
    for v in candidate_values(chk, name, p, cons, rng):
        replay = {"estimator": name, "param": p, "value": v.label, "token": v.tok}
        sat, gen, doc = ask_models(chk, name, p, ocs_tok, v)
        if gen != sat and not translator_failed:
            chk.fail("gen-vs-live:value", f"{name}.{p}={v.label}: regenerated table says {gen}, live constraints say {sat}", replay)
        kw = base_kwargs(name, p)
        obj = v.make()
        if name == "Kauri" and p == "min_samples_leaf" and isinstance(obj, (int, np.integer)) and not isinstance(obj, bool) and 1 <= obj <= N:
            kw["min_samples_split"] = 2 * int(obj)          # keep the documented cross rule satisfied
        kw[p] = obj
        r_val, _ = outcome(lambda: cls(**kw)._validate_params())
        est = cls(**kw)
        y = (Dm if p == "metric" else K) if (p in ("kernel", "metric") and isinstance(obj, str) and obj == "precomputed") else None
        r_fit, exc = outcome(lambda: est.fit(X, y))
        rejected = classify(chk, f"{name}.{p}", p, v, sat, doc, r_val, r_fit, exc, replay)
        by_type_only = v.extreme or (v.kind == "instance" and p in ("kernel", "metric", "base_kernel"))
        if rejected and not (sat and by_type_only):        # a crash while training with such a value is not a validation matter
            check_rejected(chk, name, est, stage_of(name, exc, None), f"{p}={v.label}", replay, X,
                           cause="bool-for-int" if (v.kind == "bool" and sat and doc) else None)
        elif r_fit == "accepted":
            missing = [a for a in weights_of(name)[1] if not hasattr(est, a)]
            if missing:
                chk.fail(f"accepted-fit-incomplete:{family(name)}", f"{name}.{p}={v.label}: fit returned but {missing} are not set", replay, layer="L3")
        chk.dist[f"{'in' if doc else 'out'}-domain:{v.kind}"] += 1
        chk.count((name, p, v.tok))
    chk.sample({"stream": "params", "estimator": name, "param": p, "constraints": ocs_tok})


# ------------------------------------------------------------------------------------------- stream: validated functions
def fn_cases():
    return [(name, p) for name, fn in FUNCTIONS.items() for p in fn_params(fn)] + [("MI", "epsilon")]


def call_function(name, p, obj):
    if name in GEMINI_CLASSES:
        return GEMINI_CLASSES[name](**{p: obj})
    if name == "print_kauri_tree":
        kw = dict(kauri_tree=fitted_kauri(), feature_names=None)
    elif name == "draw_gmm":
        kw = dict(n=5, loc=[np.zeros(2), np.ones(2)], scale=[np.eye(2), np.eye(2)], pvals=[0.5, 0.5], random_state=0)
    elif name == "multivariate_student_t":
        kw = dict(n=5, loc=np.zeros(2), scale=np.eye(2), df=10, random_state=0)
    elif name == "gstm":
        kw = dict(n=8, alpha=2, df=1, random_state=0)
    elif name == "celeux_one":
        kw = dict(n=6, p=2, mu=1.7, random_state=0)
    elif name == "celeux_two":
        kw = dict(n=6, random_state=0)
    elif name == "add_mlcl_constraint":
        kw = dict(gemini_model=impl.LinearModel(max_iter=1), must_link=[[0, 1]], cannot_link=[[2, 3]], factor=1.0)
    kw[p] = obj
    return FUNCTIONS[name](**kw)


def stream_functions(chk, i, rng):
    name, p = fn_cases()[i]
    table = "KLGEMINI" if name == "MI" else name
    live = live_fn_constraints(FUNCTIONS[table])
    cons = None if live is None else live.get(p)
    ocs_tok = enc_ocs(cons, True)
    translator_failed = "TRANSLATOR-FAIL translator/tr_constraints.py" in chk.build_out
    for v in candidate_values(chk, name, p, cons, rng):
        replay = {"function": name, "param": p, "value": v.label, "token": v.tok}
        sat, gen, doc = ask_models(chk, table, p, ocs_tok, v)
        if live is None:
            sat = gen
        if gen != sat and not translator_failed:
            chk.fail("gen-vs-live:value", f"{name}.{p}={v.label}: regenerated table says {gen}, live constraints say {sat}", replay)
        obj = v.make()
        r, exc = outcome(lambda: call_function(name, p, obj))
        # the decorated call is validation followed by the body: the validator's own verdict is visible in the exception class
        r_val = None
        if r == "accepted":
            r_val = "accepted"
        elif type(exc).__name__ == "InvalidParameterError":
            r_val = "VT"
        if r_val is None and not sat:
            chk.fail(f"validator:{p}:{v.kind}", f"{name}.{p}={v.label}: the model of the declared constraints rejects, but the call fails later with {type(exc).__name__}: {str(exc)[:120]} instead of the validation error", replay)
        classify(chk, f"{name}({p})", p, v, sat, doc, r_val, r, exc, replay)
        chk.dist[f"fn {'in' if doc else 'out'}-domain:{v.kind}"] += 1
        chk.count(("fn", name, p, v.tok))
    chk.sample({"stream": "functions", "function": name, "param": p, "constraints": ocs_tok})


# ------------------------------------------------------------------------------------------- stream: cross-parameter rules
def stream_cross(chk, i, rng):
    X = data(10, 3)
    if i < 32:
        leaf, split = 1 + i // 8, 2 + i % 8
        ok = chk.ask(f"c16.cross {leaf} {split}").bool()
        est = impl.Kauri(max_clusters=2, min_samples_leaf=leaf, min_samples_split=split, random_state=0)
        r, exc = outcome(lambda: est.fit(X))
        replay = {"estimator": "Kauri", "min_samples_leaf": leaf, "min_samples_split": split}
        if (r == "accepted") != ok:
            chk.fail("cross:kauri:model-mismatch", f"Kauri(min_samples_leaf={leaf}, min_samples_split={split}).fit: {r}, model says {'accept' if ok else 'reject'}", replay)
        if (r == "accepted") != (2 * leaf <= split) or r == "other":
            chk.fail("cross:kauri", f"Kauri(min_samples_leaf={leaf}, min_samples_split={split}).fit: {r} but 2*leaf<=split is {2 * leaf <= split}", replay, layer="L3")
        if r != "accepted":
            check_rejected(chk, "Kauri", est, "cross", "2*min_samples_leaf > min_samples_split", replay, X)
        chk.dist["kauri cross " + ("ok" if ok else "violated")] += 1
        chk.count(("kauri", leaf, split))
    else:
        masks = [None, [], [True], [True, False], [True, False, True], [False, False, False], [False, True, False], [True, True, True],
                 [True, False, True, True], [False, False, False, False], [True] * 6]
        mask = masks[i - 32]
        d = 3
        arr = None if mask is None else np.array(mask, dtype=bool)
        ok = chk.ask(f"c16.mask {enc_opt(mask, lambda m: enc_list(m, lambda b: str(int(b))))} {d}").bool()
        est = impl.Douglas(n_clusters=2, feature_mask=arr, max_iter=1, random_state=0)
        r, exc = outcome(lambda: est.fit(X))
        replay = {"estimator": "Douglas", "feature_mask": mask, "d": d}
        if (r == "accepted") != ok:
            chk.fail("cross:douglas:model-mismatch", f"Douglas(feature_mask={mask}).fit on {d} features: {r}, model says {'accept' if ok else 'reject'}", replay)
        if (r == "accepted") != (mask is None or (len(mask) == d and any(mask))) or r == "other":
            chk.fail("cross:douglas", f"Douglas(feature_mask={mask}).fit on {d} features: {r} ({exc})", replay, layer="L3")
        if r != "accepted":
            check_rejected(chk, "Douglas", est, "cross", f"feature_mask={mask}", replay, X)
        t = chk.ask(f"c16.douglas {int(mask is None)} {int(mask is None or len(mask) == d)} {int(mask is None or any(mask))} 1 1 1 1")
        acc, exp = t.bool(), t.list(t.next)
        if acc != (r == "accepted") or (not acc and sorted(set(exp)) != fitted_attrs(est)):
            chk.fail("trace:douglas", f"Douglas(feature_mask={mask}): {r}, attributes {fitted_attrs(est)}; the checks/writes model of fit with _init_params spelled out says accepted={acc}, {sorted(set(exp))}", replay)
        chk.dist["douglas mask " + ("ok" if ok else "wrong length" if len(mask) != d else "selects nothing")] += 1
        chk.count(("douglas", str(mask)))


# ------------------------------------------------------------------------------------------- stream: malformed training data
def malformed_inputs():
    X = data()
    bad = lambda v: (lambda: (lambda A: (A.__setitem__((1, 1), v), A)[1])(X.copy()))   # noqa: E731
    return [
        ("nan", bad(np.nan), (2, N, D, True, False)), ("inf", bad(np.inf), (2, N, D, True, False)), ("-inf", bad(-np.inf), (2, N, D, True, False)),
        ("strings", lambda: np.array([["a", "b", "c"]] * N, dtype=object), (2, N, D, False, True)),
        ("1-D", lambda: X[:, 0].copy(), (1, N, 1, True, True)), ("3-D", lambda: X.reshape(N, D, 1).copy(), (3, N, D, True, True)),
        ("no rows", lambda: np.zeros((0, D)), (2, 0, D, True, True)), ("no columns", lambda: np.zeros((N, 0)), (2, N, 0, True, True)),
        ("too few samples", lambda: X[:2].copy(), (2, 2, D, True, True)),
        ("scalar", lambda: 3.0, (0, 1, 1, True, True)), ("None", lambda: None, (0, 0, 0, False, True)),
        ("ragged", lambda: [[1.0, 2.0, 3.0], [1.0, 2.0]] * 4, (1, N, 1, False, True)),
        ("complex", lambda: X.astype(complex) + 1j, (2, N, D, False, True)),
        ("complex, zero imaginary part", lambda: X.astype(complex), (2, N, D, False, True)),
        # non-numeric data that LOOKS numeric: text is not a number, whatever it spells
        ("unicode strings", lambda: np.round(X, 2).astype(str), (2, N, D, False, True)),
        ("byte strings", lambda: np.round(X, 2).astype("S"), (2, N, D, False, True)),
        ("list of lists of str", lambda: [[str(v) for v in row] for row in np.round(X, 2)], (2, N, D, False, True)),
        ("special number spellings", lambda: [["1.5", "-2", "1e3"]] * (N - 2) + [["nan", "inf", "1"]] * 2, (2, N, D, False, False)),
        # check_array(dtype="numeric") converts an object array with astype(float64): strings that parse as numbers pass.
        # The as-is model takes them as numeric (L2); the property does not (L3).
        ("object array of numeric strings", lambda: np.round(X, 2).astype(str).astype(object), (2, N, D, True, True)),
        ("object array of words", lambda: np.array([["a", "b", "c"]] * N, dtype=object), (2, N, D, False, True)),
        ("object array with None", lambda: np.array([[1.0, None, 2.0]] * N, dtype=object), (2, N, D, False, True)),
        ("object array with a list entry", lambda: np.array([[1.0, [2.0], 3.0]] * N, dtype=object), (2, N, D, False, True)),
        # controls: well-formed data in other containers / dtypes must be accepted
        ("ok:float32", lambda: X.astype(np.float32), (2, N, D, True, True)), ("ok:int", lambda: (X * 10).astype(int) + 1, (2, N, D, True, True)),
        ("ok:list", lambda: X.tolist(), (2, N, D, True, True)), ("ok:tuple of tuples", lambda: tuple(map(tuple, X.tolist())), (2, N, D, True, True)),
        ("ok:bool", lambda: X > np.median(X), (2, N, D, True, True)),          # "numeric": a bool array is an integer array of 0/1
        ("ok:object array of numbers", lambda: X.astype(object), (2, N, D, True, True)),
    ]


def entry_points(est):
    eps = [("fit", lambda Xb: est.fit(Xb)), ("fit_predict", lambda Xb: est.fit_predict(Xb))]
    if hasattr(est, "path"):
        eps.append(("path", lambda Xb: est.path(Xb, alpha_multiplier=3.0, min_features=2, max_patience=1)))
    return eps


def stream_malformed(chk, i, rng):
    """Every estimator x every kind of training data x every data-taking entry point (fit, fit_predict, path)."""
    names = list(impl.ALL_ESTIMATORS)
    kinds = malformed_inputs()
    name, (kind, make, (ndim, n, d, numeric, finite)) = names[i // len(kinds)], kinds[i % len(kinds)]
    m = 3
    ok = chk.ask(f"c16.data {ndim} {n} {d} {int(numeric)} {int(finite)} {m}").bool()
    well_formed = kind.startswith("ok:")
    probe = impl.Kauri() if name == "Kauri" else impl.make(name)
    for ep, _ in entry_points(probe):
        if name == "Kauri":
            est = impl.Kauri(max_clusters=3, min_samples_leaf=3, min_samples_split=6, random_state=0)
        else:
            est = impl.make(name, n_clusters=3, max_iter=1, random_state=0)
        call = dict(entry_points(est))[ep]
        Xb = make()
        r, exc = outcome(lambda: call(Xb))
        replay = {"estimator": name, "input": kind, "entry_point": ep}
        what = f"{name}.{ep} on {kind} data"
        if (r == "accepted") != ok:
            chk.fail(f"data:model-mismatch:{kind}", f"{what}: {r} ({type(exc).__name__ if r != 'accepted' else ''}: {str(exc)[:120] if r != 'accepted' else ''}), the data rule of the model says {'accept' if ok else 'reject'}", replay)
        if well_formed and r != "accepted":
            chk.fail(f"data:well-formed-rejected:{kind}:{family(name)}", f"{what} (well formed) raises {type(exc).__name__}: {str(exc)[:160]}", replay, layer="L3")
        if not well_formed:
            if r == "accepted":
                chk.fail(f"data:malformed-accepted:{kind}", f"{what}: the model is trained (labels_ = {np.asarray(getattr(est, 'labels_', [])).tolist()[:8]})", replay, layer="L3")
            elif r == "other":
                chk.fail(f"data:other-exception:{kind}:{family(name)}", f"{what} raises {type(exc).__name__}: {str(exc)[:160]} — neither a ValueError nor a TypeError", replay, layer="L3")
        if r != "accepted":
            stage = None if (well_formed or ep == "path") else "samples" if kind == "too few samples" else "data"
            check_rejected(chk, name, est, stage, f"{kind} data through {ep}", replay, data())
        chk.dist[f"data:{kind}:{ep}:{r}"] += 1
        chk.count(("data", name, kind, ep))


# ------------------------------------------------------------------------------------------- stream: affinity given / missing
AFFINITY_NAMES = ["LinearMMD", "MLPMMD", "SparseLinearMMD", "SparseMLPMMD", "CategoricalMMD", "LinearWasserstein", "MLPWasserstein",
                  "CategoricalWasserstein", "LinearModel", "MLPModel", "Douglas", "Kauri"]
AFFINITY_KINDS = ["missing", "wrong-shape", "non-square", "1-D", "3-D", "nan", "strings", "unicode strings", "byte strings", "list of lists of str",
                  "object array of numeric strings", "object array with None", "complex", "given", "given-as-list", "given-as-object-array"]


def stream_affinity(chk, i, rng):
    """A precomputed kernel / metric that is missing or has the wrong shape is a malformed input of fit."""
    names = AFFINITY_NAMES
    kinds = AFFINITY_KINDS
    name, kind = names[i // len(kinds)], kinds[i % len(kinds)]
    X = data()
    kw = dict(max_iter=1, random_state=0, n_clusters=2)
    if name in ("LinearModel", "MLPModel", "Douglas"):
        kw["gemini"] = G.MMDGEMINI(kernel="precomputed")
    elif "Wasserstein" in name:
        kw["metric"] = "precomputed"
    else:
        kw["kernel"] = "precomputed"
    if name == "Kauri":
        if kind == "missing":          # Kauri warns and falls back to the linear kernel: property C11's known finding F17
            chk.count(None)
            return
        est = impl.Kauri(max_clusters=2, kernel="precomputed", random_state=0)
    else:
        est = impl.make(name, **kw)
    A = universal_metric(X) if "Wasserstein" in name else universal_kernel(X)
    nanA = A.copy()
    nanA[1, 2] = np.nan
    y, shape = {"missing": (None, None), "wrong-shape": (A[:-2, :-2], (2, N - 2, N - 2, 1, 1)), "non-square": (A[:, :-1], (2, N, N - 1, 1, 1)),
                "1-D": (A[0], (1, N, 1, 1, 1)), "3-D": (A.reshape(N, N, 1), (3, N, N, 1, 1)), "nan": (nanA, (2, N, N, 1, 0)),
                "strings": (np.array([["a"] * N] * N, dtype=object), (2, N, N, 0, 1)),
                "unicode strings": (np.round(A, 2).astype(str), (2, N, N, 0, 1)), "byte strings": (np.round(A, 2).astype("S"), (2, N, N, 0, 1)),
                "list of lists of str": ([[str(v) for v in row] for row in np.round(A, 2)], (2, N, N, 0, 1)),
                # check_array converts object arrays with astype(float64): the as-is rule takes text that parses as numeric (L2)
                "object array of numeric strings": (np.round(A, 2).astype(str).astype(object), (2, N, N, 1, 1)),
                "object array with None": (np.where(np.eye(N) > 0, None, A.astype(object)), (2, N, N, 0, 1)),
                "complex": (A.astype(complex), (2, N, N, 0, 1)),
                "given": (A, (2, N, N, 1, 1)), "given-as-list": (A.tolist(), (2, N, N, 1, 1)), "given-as-object-array": (A.astype(object), (2, N, N, 1, 1))}[kind]
    ep = "fit_predict" if i % 2 else "fit"
    r, exc = outcome(lambda: getattr(est, ep)(X, y))
    replay = {"estimator": name, "precomputed": kind, "entry_point": ep}
    if shape is not None:
        ok = chk.ask(f"c16.precomputed {shape[0]} {shape[1]} {shape[2]} {N} {shape[3]} {shape[4]}").bool()
        if (r == "accepted") != ok:
            chk.fail("affinity:model-mismatch", f"{name}.fit with a {kind} precomputed affinity: {r} ({exc if r != 'accepted' else ''}), the model of the precomputed rule says {'accept' if ok else 'reject'}", replay)
    if kind.startswith("given"):
        if r != "accepted":
            chk.fail("affinity:given-rejected", f"{name} with a precomputed affinity of the right shape: {type(exc).__name__}: {str(exc)[:160]}", replay, layer="L3")
    else:
        key = "affinity:missing" if kind == "missing" else "affinity:ill-shaped" if kind in ("wrong-shape", "non-square", "1-D", "3-D") else "affinity:non-numeric"
        if r == "accepted":
            chk.fail(key, f"{name}.fit trains although the precomputed affinity is {kind}", replay, layer="L3")
        elif r == "other":
            chk.fail(key, f"{name}.fit with a {kind} precomputed affinity raises {type(exc).__name__}: {str(exc)[:160]} — neither a ValueError nor a TypeError", replay, layer="L3")
        if r != "accepted":
            check_rejected(chk, name, est, "affinity", f"precomputed affinity {kind}", replay, X)
    chk.dist[f"affinity:{kind}:{r}"] += 1
    chk.count(("affinity", name, kind))


# ------------------------------------------------------------------------------------------- stream: before fit
def stream_beforefit(chk, i, rng):
    names = list(impl.ALL_ESTIMATORS)
    X = data()
    if i == len(names):
        for fn_names in (None, ["a", "b", "c"]):
            r, exc = outcome(lambda: impl.print_kauri_tree(impl.Kauri(), fn_names))
            if r == "accepted":
                chk.fail("before-fit:print_kauri_tree", "print_kauri_tree prints an unfitted Kauri", {"feature_names": fn_names}, layer="L3")
            chk.dist[f"before-fit:print_kauri_tree:{type(exc).__name__ if r != 'accepted' else 'returned'}"] += 1
            chk.count(("before", "print", str(fn_names)))
        return
    name = names[i]
    for meth in ("predict", "predict_proba", "score", "get_selection"):
        est = impl.make(name)
        if not hasattr(est, meth):
            continue
        r, exc = outcome((lambda: getattr(est, meth)()) if meth == "get_selection" else (lambda: getattr(est, meth)(X)))
        if r == "accepted":
            chk.fail(f"before-fit:{meth}", f"{name}.{meth} returns before fit", {"estimator": name, "method": meth}, layer="L3")
        else:
            chk.dist[f"before-fit:{meth}:{'NotFittedError' if isinstance(exc, NotFittedError) else type(exc).__name__}"] += 1
        if fitted_attrs(est):
            chk.fail(f"before-fit:{meth}:writes", f"{name}.{meth} before fit set {fitted_attrs(est)}", {"estimator": name, "method": meth}, layer="L3")
        chk.count(("before", name, meth))


# ------------------------------------------------------------------------------------------- stream: check_groups
def splits(seq):
    """All ways to cut a sequence into consecutive non-empty groups."""
    n = len(seq)
    if n == 0:
        yield []
        return
    for mask in range(1 << (n - 1)):
        out, cur = [], [seq[0]]
        for k in range(1, n):
            if mask >> (k - 1) & 1:
                out.append(cur)
                cur = []
            cur.append(seq[k])
        yield out + [cur]


def all_group_lists(d, max_len):
    for L in range(0, max_len + 1):
        for seq in itertools.product(range(-1, d + 1), repeat=L):
            for g in splits(list(seq)):
                yield g
            if L <= 2:                                       # a few lists with empty groups
                yield [[]] + [list(seq)] if L else [[]]
                yield [list(seq), []] if L else [[], []]


def group_universe(chk):
    if "u" not in _FITTED:
        u = []
        for d in (1, 2, 3):
            u += [(d, g) for g in all_group_lists(d, d + 1)]
        u += [(4, g) for g in all_group_lists(4, 4 if chk.tier == "quick" else 5)]
        _FITTED["u"] = u
    return _FITTED["u"]


CHUNK = 250


def enc_entry(x):
    if isinstance(x, (bool, np.bool_)):
        return f"b{int(x)}"
    return str(int(x)) if isinstance(x, (int, np.integer)) else "o"


def spec_groups(groups, d):
    """Independent specification: None when rejected, else the completed partition."""
    flat = [x for g in groups for x in g]
    if any(type(x) is not int and not (isinstance(x, np.integer)) for x in flat):
        return None
    if any(not (0 <= x < d) for x in flat) or len(set(flat)) != len(flat):
        return None
    return [list(g) for g in groups] + [[i] for i in range(d) if i not in flat]


def one_groups(chk, d, groups, via_fit=False):
    replay = {"d": d, "groups": repr(groups)}
    t = chk.ask(f"c16.groups {d} " + enc_list(groups, lambda g: enc_list(g, enc_entry)))
    model = t.opt(lambda: t.list(lambda: t.list(t.int)))
    r, res = outcome(lambda: check_groups([list(g) for g in groups], d))
    got = [list(map(int, g)) for g in res] if r == "accepted" else None
    if r == "other":
        chk.fail("groups:other-exception", f"check_groups({groups}, {d}) raises {type(res).__name__}: {res}", replay, layer="L3")
    t = chk.ask(f"c16.groupsgen {d} " + enc_list(groups, lambda g: enc_list(g, enc_entry)))
    regen = t.opt(lambda: t.list(lambda: t.list(t.next)))
    got_tok = [[enc_entry(x) for x in g] for g in res] if r == "accepted" else None
    if regen != got_tok:
        chk.fail("groups:regenerated-mismatch", f"check_groups({groups}, {d}) = {got_tok if r == 'accepted' else type(res).__name__}, the function regenerated from the source (Gen/ValidationRules.v) gives {regen}", replay)
    if got != model:
        chk.fail("groups:model-mismatch", f"check_groups({groups}, {d}) = {got if r == 'accepted' else type(res).__name__}, model = {model}", replay)
    want = spec_groups(groups, d)
    if got != want:
        chk.fail("groups:spec", f"check_groups({groups}, {d}) = {got if r == 'accepted' else 'rejected'}, specification (in range, pairwise distinct, completed with increasing singletons) = {want}", replay, layer="L3")
    if got is not None and sorted(x for g in got for x in g) != list(range(d)):
        chk.fail("groups:partition", f"check_groups({groups}, {d}) = {got} is not a partition of range({d})", replay, layer="L3")
    if via_fit:
        X = data(6, d)
        est = impl.SparseLinearModel(n_clusters=2, groups=[list(g) for g in groups], max_iter=1, random_state=0)
        rf, exc = outcome(lambda: est.fit(X))
        if (rf == "accepted") != (want is not None) or rf == "other" or (rf == "accepted" and [list(map(int, g)) for g in est.groups_] != want):
            chk.fail("groups:via-fit", f"SparseLinearModel(groups={groups}).fit on {d} features: {rf} groups_={getattr(est, 'groups_', None)}, specification {want}", replay, layer="L3")
        if rf != "accepted":
            check_rejected(chk, "SparseLinearModel", est, "groups", f"groups={groups}", replay, X)
        chk.traces += 1
    flat = [x for g in groups for x in g]
    nonint = any(enc_entry(x) in ("o", "b0", "b1") for x in flat)
    kind = "accepted" if want is not None else "non-integer entry" if nonint else ("out-of-range" if any(not (0 <= x < d) for x in flat) else "duplicate")
    chk.dist[f"groups d={d} {kind}" + (" full" if len(flat) == d else " partial")] += 1
    chk.count((d, repr(groups)) if flat else None)


def stream_groups(chk, i, rng):
    u = group_universe(chk)
    for k, (d, g) in enumerate(u[i * CHUNK:(i + 1) * CHUNK]):
        one_groups(chk, d, g, via_fit=(k % 125 == 0))


def stream_groups_random(chk, i, rng):
    d = int(rng.integers(4, 8))
    L = int(rng.integers(0, d + 3))
    if rng.random() < 0.6:                                   # near-valid: a shuffled subset, sometimes with one defect
        seq = list(rng.permutation(d)[:min(L, d)])
        if seq and rng.random() < 0.4:
            seq[int(rng.integers(len(seq)))] = int(rng.choice([-1, d, seq[0]]))
    else:
        seq = [int(x) for x in rng.integers(-1, d + 1, size=L)]
    seq = [int(x) for x in seq]
    gl = list(splits(seq))
    one_groups(chk, d, gl[int(rng.integers(len(gl)))], via_fit=(i % 10 == 0))


ENTRY_ALPHABET = [0, 1, 2, True, False, 1.0, 0.5, "a", None, np.int64(1)]


def stream_groups_entries(chk, i, rng):
    """Group lists over 3 features whose entries range over integers, bools, floats, strings and None (all lists of <= 2
    entries, random ones of 3): only integer indices may be accepted."""
    pairs = [[a] for a in ENTRY_ALPHABET] + [[a, b] for a in ENTRY_ALPHABET for b in ENTRY_ALPHABET]
    if i < len(pairs):
        seq = pairs[i]
    else:
        seq = [ENTRY_ALPHABET[int(k)] for k in rng.integers(0, len(ENTRY_ALPHABET), size=3)]
    for g in splits(seq):
        one_groups(chk, 3, g, via_fit=True)


def stream_groups_malformed(chk, i, rng):
    """Group lists whose entries are not integers / not lists: must be rejected (or, for bools, behave as 0/1)."""
    cases = [("float index", [[0.5]], 3), ("integral floats", [[0.0, 1.0]], 2), ("string index", [["a"]], 3), ("None index", [[None]], 3),
             ("nested", [[[0]]], 3), ("not a list of lists", [0, 1], 3), ("a string", "ab", 3), ("an int", 5, 3),
             ("tuple of tuples", ((0, 1),), 3), ("array rows", np.array([[0, 1]]), 3), ("dict", {0: 1}, 3)]
    label, groups, d = cases[i]
    X = data(6, d)
    for name in ("SparseLinearModel", "SparseMLPModel"):
        est = impl.make(name, n_clusters=2, groups=groups, max_iter=1, random_state=0)
        r, exc = outcome(lambda: est.fit(X))
        replay = {"estimator": name, "groups": repr(groups), "d": d}
        if r == "accepted":
            chk.fail("groups:malformed-accepted", f"{name}(groups={groups!r}) [{label}] is trained; groups_={est.groups_!r}", replay, layer="L3")
        elif r == "other":
            chk.fail("groups:malformed-other-exception", f"{name}(groups={groups!r}) [{label}] raises {type(exc).__name__}: {str(exc)[:120]}", replay, layer="L3")
        if r != "accepted":
            check_rejected(chk, name, est, None, f"groups={groups!r}", replay, X)
        chk.dist[f"groups malformed:{label}:{r}"] += 1
        chk.count(("gm", name, label))


def n_group_chunks(chk):
    return (len(group_universe(chk)) + CHUNK - 1) // CHUNK


def main():
    chk = Check("C16")
    chk.build()
    chk.proofs()
    streams = {
        "table": (stream_table, lambda: 1, 1),
        "params": (stream_params, lambda: len(est_cases()), 1),
        "functions": (stream_functions, lambda: len(fn_cases()), 1),
        "cross": (stream_cross, lambda: 43, 1),
        "malformed": (stream_malformed, lambda: len(impl.ALL_ESTIMATORS) * len(malformed_inputs()), 1),
        "affinity": (stream_affinity, lambda: len(AFFINITY_NAMES) * len(AFFINITY_KINDS), 1),
        "beforefit": (stream_beforefit, lambda: len(impl.ALL_ESTIMATORS) + 1, 1),
        "groups": (stream_groups, lambda: n_group_chunks(chk), 1),
        "groups_random": (stream_groups_random, lambda: 600 if chk.tier == "quick" else 30000, 3),
        "groups_entries": (stream_groups_entries, lambda: 150 if chk.tier == "quick" else 1500, 3),
        "groups_malformed": (stream_groups_malformed, lambda: 11, 1),
    }
    timing = {}
    if chk.replay_path:
        rp = json.load(open(chk.replay_path))
        st, case = rp["input"].get("stream"), rp["input"].get("case")
        chk.seed = rp.get("seed", chk.seed)
        if st in streams:
            chk.run_stream(st, streams[st][0], 0, only=case)
    else:
        for name, (fn, cnt, widen) in streams.items():
            c = cnt()
            if chk.l1_broken:
                c *= widen                # a broken obligation widens the randomised search (the other streams are exhaustive already)
            t0 = __import__("time").time()
            chk.run_stream(name, fn, c)
            timing[name] = round(__import__("time").time() - t0, 1)
        chk.notes.append(f"wall seconds per stream: {timing}")
    chk.finish(rule="streams: regenerated table vs live constraint objects; every constructor parameter of the 18 estimators and every parameter of the 13 validated "
                    "functions/constructors x ~50 values (integers and floats at, just inside and just outside every bound incl. nextafter, wrong types, bool, np.bool_, NaN, +-inf, "
                    "every string option and non-options, None, callables, containers, instances): verdict of _validate_params / the decorator vs `satisfied` on the live constraints, "
                    "fit / call outcome vs the documented domain, attributes left by rejected fits vs the checks/writes model; Kauri (leaf, split) grid and Douglas mask lengths; "
                    "16 kinds of training data x 18 estimators; precomputed affinity missing / ill-shaped / non-finite / non-numeric vs the precomputed rule of the model; predict/predict_proba/score/get_selection/print before fit; check_groups on ALL "
                    "group lists over d<=3 features with up to d+1 entries from -1..d and over d=4 with up to 4 (quick) / 5 (thorough) entries, plus random lists over 4..7 features, all lists of <=2 entries over ints/bools/floats/strings/None and "
                    "structurally malformed group arguments. non-trivial = a value/group list actually evaluated by both sides (empty group lists excluded); distinct = distinct (estimator|function, parameter, value token) / (d, group list)",
               extra={"regenerated": chk.regenerated})


if __name__ == "__main__":
    main()
