"""C16 — invalid hyperparameters and malformed inputs are rejected, never trained on.

L1  Props/C16.v (regenerated Gen/Constraints.v vs the hand-written documented domains of Model/Doc.v).
L2  the extracted model against the implementation: `satisfied` on the LIVE constraint objects vs the verdict of
    `_validate_params` / of the decorated call; the regenerated table vs the live objects; check_groups vs the model;
    cross-parameter rules, data shape rule and the checks/writes order of fit vs the model.
L3  the property itself on the implementation: a value outside the documented domain must make fit / the call raise a
    ValueError/TypeError-family error and leave nothing fitted, a value inside must be accepted; malformed training
    data must be rejected; predict/score/print before fit must raise; check_groups against an independent spec.
"""
import collections, contextlib, inspect, io, itertools, json, os, select, signal, sys, time
from fractions import Fraction
from numbers import Integral, Real
import numpy as np
from core import Check, enc_list, enc_opt
import impl
from sklearn.utils import _param_validation as skpv
from sklearn.utils.validation import check_is_fitted
from sklearn.exceptions import NotFittedError
from sklearn.metrics import pairwise_distances
from gemclus._base_gemini import DiscriminativeModel
from gemclus.sparse._base_sparse import check_groups
from gemclus._constraints import check_constraint
from gemclus.tree.kauri import Tree
import gemclus.data as gdata

N, D = 8, 3
G = impl.G
GEMINI_CLASSES = {c.__name__: c for c in (G.KLGEMINI, G.MI, G.TVGEMINI, G.HellingerGEMINI, G.ChiSquareGEMINI, G.MMDGEMINI, G.WassersteinGEMINI)}
FUNCTIONS = {"KLGEMINI": G.KLGEMINI.__init__, "TVGEMINI": G.TVGEMINI.__init__, "HellingerGEMINI": G.HellingerGEMINI.__init__,
             "ChiSquareGEMINI": G.ChiSquareGEMINI.__init__, "MMDGEMINI": G.MMDGEMINI.__init__, "WassersteinGEMINI": G.WassersteinGEMINI.__init__,
             "print_kauri_tree": impl.print_kauri_tree, "draw_gmm": gdata.draw_gmm, "multivariate_student_t": gdata.multivariate_student_t,
             "gstm": gdata.gstm, "celeux_one": gdata.celeux_one, "celeux_two": gdata.celeux_two, "add_mlcl_constraint": impl.add_mlcl_constraint}
SPARSE = set(impl.SPARSE)
# attributes that hold no learnt parameter: the number of features, the completed group partition (a function of the groups
# hyper-parameter and the number of features), KernelRIM's copy of the training data and its kernel
BOOKKEEPING = {"n_features_in_", "groups_", "input_data_", "training_kernel_"}
NON_WEIGHTS = {"n_features_in_", "optimiser_", "labels_", "n_iter_", "groups_", "input_data_", "training_kernel_", "tree_", "leaves_"}


def family(name):
    return "sparse" if name in SPARSE else "kernelrim" if name == "KernelRIM" else "kauri" if name == "Kauri" else "base"


def data(n=N, d=D, seed=0):
    return np.abs(np.random.RandomState(seed).normal(size=(n, d))) + 0.1      # positive: the chi2 kernels need it


def universal_kernel(a, b=None, **kw):
    a = np.asarray(a, dtype=float)
    b = a if b is None else np.asarray(b, dtype=float)
    return float(a @ b) if a.ndim == 1 else a @ b.T


def universal_metric(a, b=None, **kw):
    a = np.asarray(a, dtype=float)
    if a.ndim == 1:
        return float(np.abs(a - np.asarray(b, dtype=float)).sum())
    return pairwise_distances(a, a if b is None else np.asarray(b, dtype=float))


_FITTED = {}


def fitted_kauri():
    if "k" not in _FITTED:
        _FITTED["k"] = impl.Kauri(max_clusters=2, random_state=0).fit(data())
    return _FITTED["k"]


def quiet(fn):
    with contextlib.redirect_stdout(io.StringIO()):
        return fn()


def outcome(fn):
    """('accepted', result) | ('VT', exc) for the ValueError/TypeError family | ('other', exc)."""
    try:
        return "accepted", quiet(fn)
    except Exception as e:  # noqa
        return ("VT" if isinstance(e, (ValueError, TypeError)) else "other"), e


def canary(fn, timeout=10.0):
    """Run fn in a forked child first: 'accepted' / 'VT' / 'other' as outcome(), or 'died:<signal>' / 'timeout' when the call kills
    or hangs the interpreter.  Used before every call made with a configuration that is expected to be rejected (or whose
    validation verdict already disagrees with the model / the documentation): the concrete input is then reported even when the
    implementation crashes on it."""
    sys.stdout.flush()
    sys.stderr.flush()
    r, w = os.pipe()
    pid = os.fork()
    if pid == 0:
        code = b"other"
        try:
            os.close(r)
            code = outcome(fn)[0].encode()
        except BaseException:  # noqa
            code = b"other"
        finally:
            try:
                os.write(w, code)
            finally:
                os._exit(0)
    os.close(w)
    ready, _, _ = select.select([r], [], [], timeout)
    if not ready:
        os.kill(pid, signal.SIGKILL)
        os.waitpid(pid, 0)
        os.close(r)
        return "timeout"
    msg = os.read(r, 64).decode()
    os.close(r)
    _, status = os.waitpid(pid, 0)
    if os.WIFSIGNALED(status) or not msg:
        return "died:" + (signal.Signals(os.WTERMSIG(status)).name if os.WIFSIGNALED(status) else f"exit {os.WEXITSTATUS(status)}")
    return msg


CRASHED = {}


def survives(chk, sig, key, what, replay, fn):
    """True when it is safe to make the call in this process.  A call that kills or hangs the interpreter is a failure of the
    property (neither accepted nor a ValueError/TypeError), recorded with its concrete input; the same configuration is not run again."""
    if sig in CRASHED:
        chk.fail(key, f"{what}: not run, the same configuration {CRASHED[sig]}", replay, layer="L3")
        return False
    c = canary(fn)
    chk.dist[f"canary:{c.split(':')[0] if c.startswith('died') or c == 'timeout' else 'survived'}"] += 1
    if c.startswith("died") or c == "timeout":
        CRASHED[sig] = f"already {'killed the interpreter (' + c[5:] + ')' if c.startswith('died') else 'hung for more than 10 s'} in an earlier case"
        chk.fail(key, f"{what}: the call {'kills the interpreter (' + c[5:] + ')' if c.startswith('died') else 'does not return within 10 s'} — neither accepted nor a ValueError/TypeError", replay, layer="L3")
        return False
    return True


def fitted_attrs(est):
    return sorted(k for k in vars(est) if k.endswith("_") and not k.startswith("__"))


# ------------------------------------------------------------------------------------------- values
def hexs(s):
    return s.encode().hex() if s else "-"


class V:
    """A test value: token for the model, factory for the Python object, kind label."""

    def __init__(self, tok, make, kind, label=None, extreme=False):
        self.tok, self.make, self.kind, self.label, self.extreme = tok, make, kind, label or tok, extreme


def v_int(z, numpy_flavour=False):
    z = int(z)
    return V(f"I {z}", (lambda: np.int64(z)) if numpy_flavour and abs(z) < 2 ** 62 else (lambda: z), "int", f"int {z}" + (" (np.int64)" if numpy_flavour else ""))


def v_real(x, extreme=False):
    x = float(x)
    f = Fraction(x)
    return V(f"R {f.numerator} {f.denominator}", lambda: x, "real", f"float {x!r}", extreme)


def v_str(s):
    return V("S " + hexs(s), lambda: s, "str", f"str {s!r}")


def v_inst(cls, make):
    return V("X " + cls, make, "instance", f"{cls} instance")


V_TRUE, V_FALSE = V("B 1", lambda: True, "bool", "True"), V("B 0", lambda: False, "bool", "False")
V_NPBOOL = V("NB 1", lambda: np.bool_(True), "npbool", "np.bool_(True)")
V_NAN, V_PINF, V_NINF = V("NAN", lambda: float("nan"), "nan"), V("PINF", lambda: float("inf"), "inf"), V("NINF", lambda: float("-inf"), "inf")
V_NONE = V("N", lambda: None, "none", "None")
V_OTHER = V("O", lambda: object(), "object", "object()")


def context_values(e, p):
    """Containers / callables concretised so that they are *content-valid* for (e, p) whenever the type can be valid."""
    arr, lst, tup, dct = np.zeros(3), [1, 2], (1, 2), {"a": 1}
    call = universal_metric if "metric" in p else universal_kernel
    if p == "feature_mask":
        arr, lst, tup = np.array([True, True, False]), [True, True, False], (True, True, False)
    elif p == "groups":
        arr, lst, tup = np.array([[0, 1]]), [[0, 1]], ([0, 1],)
    elif p in ("kernel_params", "metric_params", "base_kernel_params"):
        dct = {}
    elif p == "feature_names":
        arr, lst, tup = np.array(["a", "b", "c"]), ["a", "b", "c"], ("a", "b", "c")
    elif p == "loc":
        arr, lst, tup = (np.zeros((2, 2)), [np.zeros(2), np.ones(2)], (np.zeros(2), np.ones(2))) if e == "draw_gmm" else (np.zeros(2), [0.0, 0.0], (0.0, 0.0))
    elif p == "scale":
        arr, lst, tup = (np.stack([np.eye(2)] * 2), [np.eye(2)] * 2, (np.eye(2), np.eye(2))) if e == "draw_gmm" else (np.eye(2), [[1.0, 0.0], [0.0, 1.0]], ((1.0, 0.0), (0.0, 1.0)))
    elif p == "pvals":
        arr, lst, tup = np.array([0.5, 0.5]), [0.5, 0.5], (0.5, 0.5)
    elif p == "must_link":
        arr, lst, tup = np.array([[0, 1]]), [[0, 1]], ((0, 1),)
    elif p == "cannot_link":
        arr, lst, tup = np.array([[2, 3]]), [[2, 3]], ((2, 3),)
    return [V("C", lambda: call, "callable", "a callable"), V("A", lambda: arr, "ndarray", "an ndarray"), V("D", lambda: dct, "dict", "a dict"),
            V("L", lambda: lst, "list", "a list"), V("T", lambda: tup, "tuple", "a tuple")]


def instance_values():
    return [v_inst("RandomState", lambda: np.random.RandomState(0)), v_inst("Generator", lambda: np.random.default_rng(0)),
            v_inst("MMDGEMINI", lambda: G.MMDGEMINI()), v_inst("KLGEMINI", lambda: G.KLGEMINI()), v_inst("MI", lambda: G.MI()),
            v_inst("LinearModel", lambda: impl.LinearModel(max_iter=1)), v_inst("Douglas", lambda: impl.Douglas(max_iter=1)),
            v_inst("Kauri", fitted_kauri), v_inst("Tree", lambda: Tree())]


def interval_bounds(cons):
    out = []
    for c in cons or []:
        if isinstance(c, skpv.Interval):
            out += [b for b in (c.left, c.right) if b is not None and np.isfinite(b)]
        elif isinstance(c, str) and c == "random_state":
            out += [0, 2 ** 32 - 1]
    return sorted(set(out))


def doc_info(chk, e, p):
    """Finite bounds and strings of the documented domain of (e, p): probed whatever the code declares."""
    t = chk.ask(f"c16.docinfo {e} {p}")
    if t.next() == "U":
        return [], []
    zb = t.list(t.int)
    qb = t.list(lambda: Fraction(t.int(), t.int()))
    return sorted(set(zb) | {float(q) for q in qb}), [bytes.fromhex(h).decode() if h != "-" else "" for h in t.list(t.next)]


def candidate_values(chk, e, p, cons, rng):
    dbounds, dstrs = doc_info(chk, "KLGEMINI" if e == "MI" else e, p)
    bounds = sorted(set(interval_bounds(cons)) | set(dbounds)) or [0, 1]
    ints = {-1, 0, 1, 2, 3}
    reals = {0.5, -0.5, 1.5, 2.0, 1e-3}
    ulps = set()            # one ulp off a bound: decides open / closed for the validator; not a sensible hyper-parameter to train with
    for b in bounds:
        ints |= {int(b) - 1, int(b), int(b) + 1}
        eps = 1e-6 * max(1.0, abs(b))
        reals |= {float(b), float(b) - eps, float(b) + eps}
        ulps |= {float(np.nextafter(float(b), np.inf)), float(np.nextafter(float(b), -np.inf))}
    ulps |= {5e-324, -5e-324, 1e300, -1e300, float(np.nextafter(0.1 + 0.2, 1.0))}      # denormals, huge magnitudes, adjacent doubles
    neg_zero = V("R 0 1", lambda: -0.0, "real", "float -0.0")
    if chk.tier == "thorough":
        lo, hi = min(bounds) - 4, max(bounds) + 4
        ints |= {int(rng.integers(lo, hi + 1)) for _ in range(12)}
        reals |= {float(rng.uniform(lo, hi)) for _ in range(24)}
    vals = [v_int(z, numpy_flavour=(k % 3 == 2)) for k, z in enumerate(sorted(ints))] + [v_real(x) for x in sorted(reals)] + [v_real(x, True) for x in sorted(ulps - reals)] + [neg_zero]
    vals += [V_TRUE, V_FALSE, V_NPBOOL, V_NAN, V_PINF, V_NINF, V_NONE, V_OTHER]
    opts = sorted({o for c in cons or [] if isinstance(c, skpv.StrOptions) for o in c.options} | set(dstrs))
    vals += [v_str(o) for o in opts] + [v_str("nonsense"), v_str("")]
    if opts:
        vals += [v_str(opts[0].upper()), v_str(opts[-1] + " ")]
    return vals + context_values(e, p) + instance_values()


# ------------------------------------------------------------------------------------------- live constraints -> tokens
def enc_bound(b):
    if b is None:
        return "-"
    if isinstance(b, float) and np.isinf(b):
        return "PI" if b > 0 else "NI"
    f = Fraction(b)
    return f"F {f.numerator} {f.denominator}"


TYPE_NAMES = {bool: "bool", dict: "dict", list: "list", tuple: "tuple", str: "str", np.ndarray: "ndarray"}


def enc_constraint(c, decorator):
    if isinstance(c, skpv.Interval):
        ty = {Integral: "I", Real: "R", skpv.RealNotInt: "RN"}[c.type]
        return f"IV {ty} {enc_bound(c.left)} {enc_bound(c.right)} " + {"left": "L", "right": "R", "both": "B", "neither": "N"}[c.closed]
    if isinstance(c, skpv.StrOptions):
        return "SO " + enc_list(sorted(c.options), hexs)
    if c is None:
        return "NONE"
    if c is callable:
        return "CALL"
    if isinstance(c, type):
        return "IO " + TYPE_NAMES.get(c, c.__name__)
    if isinstance(c, str) and c == "random_state":
        return "RS"
    if isinstance(c, str) and c == "array-like":
        return "AL"
    if isinstance(c, str) and (c == "boolean" or (decorator and c == "bool")):
        return "BOOL"
    raise ValueError(f"constraint object outside the modelled fragment: {c!r}")


def enc_ocs(cons, decorator=False):
    return "U" if cons is None else "K " + enc_list([enc_constraint(c, decorator) for c in cons])


def ctor_params(cls):
    return [k for k, q in inspect.signature(cls.__init__).parameters.items() if k != "self" and q.kind not in (q.VAR_POSITIONAL, q.VAR_KEYWORD)]


def fn_params(fn):
    return [k for k, q in inspect.signature(fn).parameters.items() if k != "self" and q.kind not in (q.VAR_POSITIONAL, q.VAR_KEYWORD)]


def live_fn_constraints(fn):
    """The dict given to @constraint_params (a closure variable of the wrapper); None when it cannot be reached."""
    try:
        return inspect.getclosurevars(fn).nonlocals["parameter_constraints"]
    except Exception:  # noqa
        return None


# ------------------------------------------------------------------------------------------- rejected fits
def trace_model(chk, fam, weights, stage):
    flags = {"params": "0 1 1 1 1 1", "data": "1 0 1 1 1 1", "samples": "1 1 0 1 1 1", "groups": "1 1 1 0 1 1", "cross": "1 1 1 1 0 1",
             "affinity": "1 1 1 1 1 0", "none": "1 1 1 1 1 1"}[stage]
    t = chk.ask(f"c16.trace {fam} {enc_list(weights)} {flags}")
    acc, vf = t.bool(), t.bool()
    return acc, vf, t.list(t.next)


_WEIGHTS = {}


def weights_of(name):
    """Names of the learnt-parameter attributes of an estimator class, read off a successful fit."""
    if name not in _WEIGHTS:
        est = impl.make(name, max_iter=1, random_state=0)
        quiet(lambda: est.fit(data()))
        _WEIGHTS[name] = (sorted(a for a in fitted_attrs(est) if a not in NON_WEIGHTS and a != "H_"), fitted_attrs(est))
    return _WEIGHTS[name]


def check_rejected(chk, name, est, stage, key, replay, X=None, cause=None):
    """After a rejected fit: L2 the attributes left behind are those of the checks/writes model for this stage (when the
    stage is known); L3 no learnt attribute (anything outside BOOKKEEPING) may be left, and predict must still raise.
    cause='bool-for-int': the rejection is numpy's TypeError for a bool that validation let through as an integer — the
    leftovers of that crash are reported under the key of that root cause (Kauri keeps its own keys)."""
    fam = family(name)
    left = fitted_attrs(est)
    if stage is not None:
        w = weights_of(name)[0] if fam in ("base", "sparse") else []
        acc, vf, exp = trace_model(chk, fam, w, stage)
        if acc or sorted(set(exp)) != left:
            chk.fail(f"trace:{fam}:{stage}", f"{name}: attributes left by a fit rejected at stage '{stage}' are {left}, the checks/writes model says {sorted(set(exp))}", replay)
    extra = [a for a in left if a not in BOOKKEEPING]
    by_cause = cause == "bool-for-int" and fam != "kauri"
    chk.dist["rejected-fit leaves: " + (",".join(left) or "nothing")] += 1
    if extra:
        chk.fail("doc-rejects:bool-for-int" if by_cause else f"unfitted:{fam}", f"{name}: fit rejected ({key}; stage {stage or 'after validation'}) left fitted attributes {left}", replay, layer="L3")
    still_fitted = True
    try:
        check_is_fitted(est)
    except NotFittedError:
        still_fitted = False
    if still_fitted and not extra:
        chk.dist["check_is_fitted passes after a rejected fit (bookkeeping attributes only: " + ",".join(left) + ")"] += 1
    if X is not None:
        r, res = outcome(lambda: est.predict(X))
        if r == "accepted":
            chk.fail("doc-rejects:bool-for-int" if by_cause else f"predict-after-rejected-fit:{fam}", f"{name}: predict returns {np.asarray(res).tolist()[:8]} after a rejected fit ({key}; stage {stage or 'after validation'})", replay, layer="L3")


def stage_of(name, exc, default):
    """The estimator's own parameter validation names the estimator in its message (scikit-learn functions called later
    raise the same exception class for their own parameters)."""
    return "params" if type(exc).__name__ == "InvalidParameterError" and f"parameter of {name} " in str(exc) else default


# ------------------------------------------------------------------------------------------- stream: table
def live_classes():
    out = {}
    for mname, mod in list(sys.modules.items()):
        if mname.startswith("gemclus") and "tests" not in mname:
            for k, v in vars(mod).items():
                if inspect.isclass(v) and v.__module__.startswith("gemclus"):
                    out[v.__name__] = v
    return out


def stream_table(chk, i, rng):
    """The regenerated Gen/Constraints.v against the live constraint objects (translator check)."""
    t = chk.ask("c16.dump")

    def rd_table():
        return {t.next(): [(t.next(), rd_ocs()) for _ in range(t.int())] for _ in range(t.int())}

    def rd_ocs():
        if t.next() == "U":
            return "U"
        return "K " + " ".join([str(n := t.int())] + [rd_c() for _ in range(n)])

    def rd_c():
        k = t.next()
        if k == "IV":
            return "IV " + t.next() + " " + rd_b() + " " + rd_b() + " " + t.next()
        if k == "SO":
            return "SO " + " ".join([str(n := t.int())] + [t.next() for _ in range(n)])
        if k == "IO":
            return "IO " + t.next()
        return k

    def rd_b():
        k = t.next()
        return k + (" " + t.next() + " " + t.next() if k == "F" else "")

    gen_est, gen_fn = rd_table(), rd_table()
    gen_classes = {t.next(): (t.list(t.next), t.list(t.next)) for _ in range(t.int())}
    dead = [(t.next(), bytes.fromhex(t.next()).decode()) for _ in range(t.int())]
    translator_failed = "TRANSLATOR-FAIL translator/tr_constraints.py" in chk.build_out
    if translator_failed:
        chk.notes.append("tr_constraints.py failed: Gen/Constraints.v is stale, the table comparison is skipped (correspondence uses the live objects)")
    n = 0
    for name, cls in list(impl.ALL_ESTIMATORS.items()) + [("DiscriminativeModel", DiscriminativeModel)]:
        live = [(p, enc_ocs(cls._parameter_constraints.get(p))) for p in ctor_params(cls)]
        n += len(live)
        if not translator_failed and gen_est.get(name) != live:
            chk.fail("gen-vs-live:estimator", f"{name}: regenerated constraints {gen_est.get(name)} differ from the live _parameter_constraints {live}", {"estimator": name})
    if not translator_failed and set(gen_est) != set(impl.ALL_ESTIMATORS) | {"DiscriminativeModel"}:
        chk.fail("gen-vs-live:estimator", f"classes with _parameter_constraints in the sources {sorted(gen_est)} differ from the estimator registry", {})
    if not translator_failed and set(gen_fn) != set(FUNCTIONS):
        chk.fail("gen-vs-live:function", f"decorated functions in the sources {sorted(gen_fn)} differ from the functions the check calls {sorted(FUNCTIONS)}", {})
    for name, fn in FUNCTIONS.items():
        cons = live_fn_constraints(fn)
        if cons is None:
            chk.notes.append(f"{name}: the decorator's constraint dict is not reachable; the regenerated table is used for it")
            continue
        live = [(p, enc_ocs(cons.get(p), True)) for p in fn_params(fn)]
        n += len(live)
        if not translator_failed and gen_fn.get(name) != live:
            chk.fail("gen-vs-live:function", f"{name}: regenerated constraints {gen_fn.get(name)} differ from the live decorator dict {live}", {"function": name})
        for k in cons:
            if k not in fn_params(fn):
                chk.dist[f"decorator key naming no parameter: {name}.{k}"] += 1
    if not translator_failed:
        lc = live_classes()
        for cname, (bases, special) in gen_classes.items():
            c = lc.get(cname)
            if c is None or [b.__name__ for b in c.__bases__ if b is not object] != bases or sorted(m for m in ("__call__", "__len__", "__array__") if m in vars(c)) != sorted(special):
                chk.fail("gen-vs-live:classes", f"class table entry {cname}: {bases} {special} differs from the live class", {"class": cname})
    chk.regenerated["Gen/Constraints.v"] = "stale (translator failed)" if translator_failed else f"{n} (estimator|function, parameter) entries equal to the live objects"
    t = chk.ask("c16.known")
    act = [(t.next(), t.next()) for _ in range(t.int())]
    chk.notes.append("validator-level disagreements with the documentation present in the current sources (Doc.known_asis rows in force): "
                     + ", ".join(f"{a}.{b}" for a, b in act))
    chk.dist["known_asis rows in force"] += len(act)
    chk.count(("table", n))
    chk.traces += 1


# ------------------------------------------------------------------------------------------- stream: estimator parameters
def est_cases():
    return [(name, p) for name, cls in impl.ALL_ESTIMATORS.items() for p in ctor_params(cls)]


def base_kwargs(name, p):
    cls = impl.ALL_ESTIMATORS[name]
    kw = {}
    pr = ctor_params(cls)
    if "max_iter" in pr and p != "max_iter":
        kw["max_iter"] = 1
    if p != "random_state":
        kw["random_state"] = 0
    if name in ("MLPModel", "MLPMMD", "MLPWasserstein", "SparseMLPModel", "SparseMLPMMD") and p != "n_hidden_dim":
        kw["n_hidden_dim"] = 4
    return kw


def classify(chk, what, p, v, sat, doc, r_val, r_call, exc, replay):
    """L2: validator verdict vs model.  L3: call outcome vs documented domain.  Returns True when rejected."""
    if r_val is not None and (r_val == "accepted") != sat:
        chk.fail(f"validator:{p}:{v.kind}", f"{what}={v.label}: validation {'accepts' if r_val == 'accepted' else 'rejects'} but the model of the declared constraints says {'accept' if sat else 'reject'}", replay)
    if doc is None:
        chk.fail(f"undocumented:{p}", f"{what}: no documented domain in Model/Doc.v", replay)
        return r_call != "accepted"
    # in-domain by type only: a value one ulp inside a bound (numerical degeneracy is property C17's subject), an object that
    # is callable but is no kernel / metric function (a GEMINI instance) — validation is compared, training with it is not
    by_type_only = v.extreme or (v.kind == "instance" and p in ("kernel", "metric", "base_kernel"))
    if doc and by_type_only and r_call != "accepted":
        chk.dist["in-domain by type only, not trainable: " + ("ulp-from-bound" if v.extreme else "callable instance")] += 1
    elif r_call == "other":
        chk.fail(f"other-exception:{p}", f"{what}={v.label} ({'inside' if doc else 'outside'} the documented domain) raises {type(exc).__name__}: {str(exc)[:160]} — neither a ValueError nor a TypeError", replay, layer="L3")
    elif doc and r_call != "accepted":
        key = "doc-rejects:bool-for-int" if v.kind == "bool" else f"doc-rejects:{p}"
        chk.fail(key, f"{what}={v.label} is inside the documented domain (validation accepts it) but is rejected: {type(exc).__name__}: {str(exc)[:160]}", replay, layer="L3")
    elif not doc and r_call == "accepted":
        chk.fail(f"doc-accepts:{p}", f"{what}={v.label} is outside the documented domain but is accepted", replay, layer="L3")
    return r_call != "accepted"


def ask_models(chk, e, p, ocs_tok, v):
    sat = chk.ask(f"c16.sat {ocs_tok} {v.tok}").bool()
    g = chk.ask(f"c16.gen {e} {p} {v.tok}").next()
    d = chk.ask(f"c16.doc {e} {p} {v.tok}").next()
    return sat, (None if g == "U" else g == "1"), (None if d == "U" else d == "1")


def stream_params(chk, i, rng):
    name, p = est_cases()[i]
    cls = impl.ALL_ESTIMATORS[name]
    cons = cls._parameter_constraints.get(p)
    ocs_tok = enc_ocs(cons)
    X = data()
    K = universal_kernel(X)
    Dm = universal_metric(X)
    translator_failed = "TRANSLATOR-FAIL translator/tr_constraints.py" in chk.build_out
    for v in candidate_values(chk, name, p, cons, rng):
        replay = {"estimator": name, "param": p, "value": v.label, "token": v.tok}
        sat, gen, doc = ask_models(chk, name, p, ocs_tok, v)
        if gen != sat and not translator_failed:
            chk.fail("gen-vs-live:value", f"{name}.{p}={v.label}: regenerated table says {gen}, live constraints say {sat}", replay)
        kw = base_kwargs(name, p)
        obj = v.make()
        if name == "Kauri" and p == "min_samples_leaf" and isinstance(obj, (int, np.integer)) and not isinstance(obj, bool) and 1 <= obj <= N:
            kw["min_samples_split"] = 2 * int(obj)          # keep the documented cross rule satisfied
        kw[p] = obj
        r_val, _ = outcome(lambda: cls(**kw)._validate_params())
        est = cls(**kw)
        y = (Dm if p == "metric" else K) if (p in ("kernel", "metric") and isinstance(obj, str) and obj == "precomputed") else None
        if r_val == "accepted" and (not sat or doc is False):
            # validation let through a value that the model of the constraints / the documentation excludes: nothing may be
            # trained in this process with it before the input is on record
            if (r_val == "accepted") != sat:
                chk.fail(f"validator:{p}:{v.kind}", f"{name}.{p}={v.label}: validation accepts but the model of the declared constraints says reject", replay)
            if not survives(chk, (p, v.tok), f"doc-accepts:{p}" if doc is False else f"other-exception:{p}",
                            f"{name}.{p}={v.label} ({'outside' if doc is False else 'inside'} the documented domain) passes validation and fit is called", replay,
                            lambda: cls(**kw).fit(X, y)):
                chk.count((name, p, v.tok))
                continue
        r_fit, exc = outcome(lambda: est.fit(X, y))
        rejected = classify(chk, f"{name}.{p}", p, v, sat, doc, r_val, r_fit, exc, replay)
        by_type_only = v.extreme or (v.kind == "instance" and p in ("kernel", "metric", "base_kernel"))
        if rejected and not (sat and by_type_only):        # a crash while training with such a value is not a validation matter
            check_rejected(chk, name, est, stage_of(name, exc, None), f"{p}={v.label}", replay, X,
                           cause="bool-for-int" if (v.kind == "bool" and sat and doc) else None)
        elif r_fit == "accepted":
            missing = [a for a in weights_of(name)[1] if not hasattr(est, a)]
            if missing:
                chk.fail(f"accepted-fit-incomplete:{family(name)}", f"{name}.{p}={v.label}: fit returned but {missing} are not set", replay, layer="L3")
        chk.dist[f"{'in' if doc else 'out'}-domain:{v.kind}"] += 1
        chk.count((name, p, v.tok))
    chk.sample({"stream": "params", "estimator": name, "param": p, "constraints": ocs_tok})


# ------------------------------------------------------------------------------------------- stream: validated functions
def fn_cases():
    return [(name, p) for name, fn in FUNCTIONS.items() for p in fn_params(fn)] + [("MI", "epsilon")]


def call_function(name, p, obj):
    if name in GEMINI_CLASSES:
        return GEMINI_CLASSES[name](**{p: obj})
    if name == "print_kauri_tree":
        kw = dict(kauri_tree=fitted_kauri(), feature_names=None)
    elif name == "draw_gmm":
        kw = dict(n=5, loc=[np.zeros(2), np.ones(2)], scale=[np.eye(2), np.eye(2)], pvals=[0.5, 0.5], random_state=0)
    elif name == "multivariate_student_t":
        kw = dict(n=5, loc=np.zeros(2), scale=np.eye(2), df=10, random_state=0)
    elif name == "gstm":
        kw = dict(n=8, alpha=2, df=1, random_state=0)
    elif name == "celeux_one":
        kw = dict(n=6, p=2, mu=1.7, random_state=0)
    elif name == "celeux_two":
        kw = dict(n=6, random_state=0)
    elif name == "add_mlcl_constraint":
        kw = dict(gemini_model=impl.LinearModel(max_iter=1), must_link=[[0, 1]], cannot_link=[[2, 3]], factor=1.0)
    kw[p] = obj
    return FUNCTIONS[name](**kw)


def stream_functions(chk, i, rng):
    name, p = fn_cases()[i]
    table = "KLGEMINI" if name == "MI" else name
    live = live_fn_constraints(FUNCTIONS[table])
    cons = None if live is None else live.get(p)
    ocs_tok = enc_ocs(cons, True)
    translator_failed = "TRANSLATOR-FAIL translator/tr_constraints.py" in chk.build_out
    for v in candidate_values(chk, name, p, cons, rng):
        replay = {"function": name, "param": p, "value": v.label, "token": v.tok}
        sat, gen, doc = ask_models(chk, table, p, ocs_tok, v)
        if live is None:
            sat = gen
        if gen != sat and not translator_failed:
            chk.fail("gen-vs-live:value", f"{name}.{p}={v.label}: regenerated table says {gen}, live constraints say {sat}", replay)
        obj = v.make()
        pre = True if cons is None else any(check_constraint(c).is_satisfied_by(obj) for c in cons)     # what the decorator will decide
        if pre and (not sat or doc is False):
            if not survives(chk, ("fn", name, p, v.tok), f"doc-accepts:{p}" if doc is False else f"other-exception:{p}",
                            f"{name}({p})={v.label} ({'outside' if doc is False else 'inside'} the documented domain) passes validation and the body runs", replay,
                            lambda: call_function(name, p, obj)):
                chk.count(("fn", name, p, v.tok))
                continue
        r, exc = outcome(lambda: call_function(name, p, obj))
        # the decorated call is validation followed by the body: the validator's own verdict is visible in the exception class
        r_val = None
        if r == "accepted":
            r_val = "accepted"
        elif type(exc).__name__ == "InvalidParameterError":
            r_val = "VT"
        if r_val is None and not sat:
            chk.fail(f"validator:{p}:{v.kind}", f"{name}.{p}={v.label}: the model of the declared constraints rejects, but the call fails later with {type(exc).__name__}: {str(exc)[:120]} instead of the validation error", replay)
        classify(chk, f"{name}({p})", p, v, sat, doc, r_val, r, exc, replay)
        chk.dist[f"fn {'in' if doc else 'out'}-domain:{v.kind}"] += 1
        chk.count(("fn", name, p, v.tok))
    chk.sample({"stream": "functions", "function": name, "param": p, "constraints": ocs_tok})


# ------------------------------------------------------------------------------------------- stream: cross-parameter rules
def stream_cross(chk, i, rng):
    X = data(10, 3)
    if i < 32:
        leaf, split = 1 + i // 8, 2 + i % 8
        ok = chk.ask(f"c16.cross {leaf} {split}").bool()
        est = impl.Kauri(max_clusters=2, min_samples_leaf=leaf, min_samples_split=split, random_state=0)
        replay = {"estimator": "Kauri", "min_samples_leaf": leaf, "min_samples_split": split}
        if not ok and not survives(chk, ("kauri-cross", leaf, split), "cross:kauri", f"Kauri(min_samples_leaf={leaf}, min_samples_split={split}).fit", replay,
                                   lambda: impl.Kauri(max_clusters=2, min_samples_leaf=leaf, min_samples_split=split, random_state=0).fit(X)):
            chk.count(("kauri", leaf, split))
            return
        r, exc = outcome(lambda: est.fit(X))
        if (r == "accepted") != ok:
            chk.fail("cross:kauri:model-mismatch", f"Kauri(min_samples_leaf={leaf}, min_samples_split={split}).fit: {r}, model says {'accept' if ok else 'reject'}", replay)
        if (r == "accepted") != (2 * leaf <= split) or r == "other":
            chk.fail("cross:kauri", f"Kauri(min_samples_leaf={leaf}, min_samples_split={split}).fit: {r} but 2*leaf<=split is {2 * leaf <= split}", replay, layer="L3")
        if r != "accepted":
            check_rejected(chk, "Kauri", est, "cross", "2*min_samples_leaf > min_samples_split", replay, X)
        chk.dist["kauri cross " + ("ok" if ok else "violated")] += 1
        chk.count(("kauri", leaf, split))
    else:
        masks = [None, [], [True], [True, False], [True, False, True], [False, False, False], [False, True, False], [True, True, True],
                 [True, False, True, True], [False, False, False, False], [True] * 6]
        mask = masks[i - 32]
        d = 3
        arr = None if mask is None else np.array(mask, dtype=bool)
        ok = chk.ask(f"c16.mask {enc_opt(mask, lambda m: enc_list(m, lambda b: str(int(b))))} {d}").bool()
        est = impl.Douglas(n_clusters=2, feature_mask=arr, max_iter=1, random_state=0)
        replay = {"estimator": "Douglas", "feature_mask": mask, "d": d}
        if not ok and not survives(chk, ("douglas-mask", str(mask)), "cross:douglas", f"Douglas(feature_mask={mask}).fit on {d} features", replay,
                                   lambda: impl.Douglas(n_clusters=2, feature_mask=arr, max_iter=1, random_state=0).fit(X)):
            chk.count(("douglas", str(mask)))
            return
        r, exc = outcome(lambda: est.fit(X))
        if (r == "accepted") != ok:
            chk.fail("cross:douglas:model-mismatch", f"Douglas(feature_mask={mask}).fit on {d} features: {r}, model says {'accept' if ok else 'reject'}", replay)
        if (r == "accepted") != (mask is None or (len(mask) == d and any(mask))) or r == "other":
            chk.fail("cross:douglas", f"Douglas(feature_mask={mask}).fit on {d} features: {r} ({exc})", replay, layer="L3")
        if r != "accepted":
            check_rejected(chk, "Douglas", est, "cross", f"feature_mask={mask}", replay, X)
        t = chk.ask(f"c16.douglas {int(mask is None)} {int(mask is None or len(mask) == d)} {int(mask is None or any(mask))} 1 1 1 1")
        acc, exp = t.bool(), t.list(t.next)
        if acc != (r == "accepted") or (not acc and sorted(set(exp)) != fitted_attrs(est)):
            chk.fail("trace:douglas", f"Douglas(feature_mask={mask}): {r}, attributes {fitted_attrs(est)}; the checks/writes model of fit with _init_params spelled out says accepted={acc}, {sorted(set(exp))}", replay)
        chk.dist["douglas mask " + ("ok" if ok else "wrong length" if len(mask) != d else "selects nothing")] += 1
        chk.count(("douglas", str(mask)))


# ------------------------------------------------------------------------------------------- stream: malformed training data
def malformed_inputs():
    X = data()
    bad = lambda v: (lambda: (lambda A: (A.__setitem__((1, 1), v), A)[1])(X.copy()))   # noqa: E731
    return [
        ("nan", bad(np.nan), (2, N, D, True, False)), ("inf", bad(np.inf), (2, N, D, True, False)), ("-inf", bad(-np.inf), (2, N, D, True, False)),
        ("strings", lambda: np.array([["a", "b", "c"]] * N, dtype=object), (2, N, D, False, True)),
        ("1-D", lambda: X[:, 0].copy(), (1, N, 1, True, True)), ("3-D", lambda: X.reshape(N, D, 1).copy(), (3, N, D, True, True)),
        ("no rows", lambda: np.zeros((0, D)), (2, 0, D, True, True)), ("no columns", lambda: np.zeros((N, 0)), (2, N, 0, True, True)),
        ("too few samples", lambda: X[:2].copy(), (2, 2, D, True, True)),
        ("scalar", lambda: 3.0, (0, 1, 1, True, True)), ("None", lambda: None, (0, 0, 0, False, True)),
        ("ragged", lambda: [[1.0, 2.0, 3.0], [1.0, 2.0]] * 4, (1, N, 1, False, True)),
        ("complex", lambda: X.astype(complex) + 1j, (2, N, D, False, True)),
        ("complex, zero imaginary part", lambda: X.astype(complex), (2, N, D, False, True)),
        # non-numeric data that LOOKS numeric: text is not a number, whatever it spells
        ("unicode strings", lambda: np.round(X, 2).astype(str), (2, N, D, False, True)),
        ("byte strings", lambda: np.round(X, 2).astype("S"), (2, N, D, False, True)),
        ("list of lists of str", lambda: [[str(v) for v in row] for row in np.round(X, 2)], (2, N, D, False, True)),
        ("special number spellings", lambda: [["1.5", "-2", "1e3"]] * (N - 2) + [["nan", "inf", "1"]] * 2, (2, N, D, False, False)),
        # check_array(dtype="numeric") deliberately converts an object array with astype(float64): text that parses as numbers is
        # numeric data in scikit-learn's sense once validated.  Observed only: run, counted, never failed (either way).
        ("observed:object array of numeric strings", lambda: np.round(X, 2).astype(str).astype(object), (2, N, D, True, True)),
        ("object array of words", lambda: np.array([["a", "b", "c"]] * N, dtype=object), (2, N, D, False, True)),
        ("object array with None", lambda: np.array([[1.0, None, 2.0]] * N, dtype=object), (2, N, D, False, True)),
        ("object array with a list entry", lambda: np.array([[1.0, [2.0], 3.0]] * N, dtype=object), (2, N, D, False, True)),
        # controls: well-formed data in other containers / dtypes must be accepted
        ("ok:float32", lambda: X.astype(np.float32), (2, N, D, True, True)), ("ok:int", lambda: (X * 10).astype(int) + 1, (2, N, D, True, True)),
        ("ok:list", lambda: X.tolist(), (2, N, D, True, True)), ("ok:tuple of tuples", lambda: tuple(map(tuple, X.tolist())), (2, N, D, True, True)),
        ("ok:bool", lambda: X > np.median(X), (2, N, D, True, True)),          # "numeric": a bool array is an integer array of 0/1
        ("ok:object array of numbers", lambda: X.astype(object), (2, N, D, True, True)),
    ]


def entry_points(est):
    eps = [("fit", lambda Xb: est.fit(Xb)), ("fit_predict", lambda Xb: est.fit_predict(Xb))]
    if hasattr(est, "path"):
        eps.append(("path", lambda Xb: est.path(Xb, alpha_multiplier=3.0, min_features=2, max_patience=1)))
    return eps


def stream_malformed(chk, i, rng):
    """Every estimator x every kind of training data x every data-taking entry point (fit, fit_predict, path)."""
    names = list(impl.ALL_ESTIMATORS)
    kinds = malformed_inputs()
    name, (kind, make, (ndim, n, d, numeric, finite)) = names[i // len(kinds)], kinds[i % len(kinds)]
    m = 3
    ok = chk.ask(f"c16.data {ndim} {n} {d} {int(numeric)} {int(finite)} {m}").bool()
    well_formed = kind.startswith("ok:")
    observed = kind.startswith("observed:")
    probe = impl.Kauri() if name == "Kauri" else impl.make(name)
    for ep, _ in entry_points(probe):
        if name == "Kauri":
            est = impl.Kauri(max_clusters=3, min_samples_leaf=3, min_samples_split=6, random_state=0)
        else:
            est = impl.make(name, n_clusters=3, max_iter=1, random_state=0)
        call = dict(entry_points(est))[ep]
        Xb = make()
        replay = {"estimator": name, "input": kind, "entry_point": ep}
        what = f"{name}.{ep} on {kind} data"
        # fit_predict is fit followed by an attribute read: the canary of fit (same configuration) stands for it
        if not well_formed and not observed and (ep != "fit_predict" or ("data", name, kind) in CRASHED) and \
                not survives(chk, ("data", name, kind), f"data:other-exception:{kind}:{family(name)}", what, replay, lambda: call(make())):
            chk.count(("data", name, kind, ep))
            continue
        r, exc = outcome(lambda: call(Xb))
        if observed:
            chk.dist[f"data:{kind}:{ep}:{r}"] += 1
            note = "training data given as an object array of numeric strings is converted by scikit-learn's check_array (astype(float64)): observed, not judged (see input_distribution 'data:observed:...')"
            if note not in chk.notes:
                chk.notes.append(note)
            if r != "accepted":
                check_rejected(chk, name, est, None, f"{kind} data through {ep}", replay, data())
            chk.count(("data", name, kind, ep))
            continue
        if (r == "accepted") != ok:
            chk.fail(f"data:model-mismatch:{kind}", f"{what}: {r} ({type(exc).__name__ if r != 'accepted' else ''}: {str(exc)[:120] if r != 'accepted' else ''}), the data rule of the model says {'accept' if ok else 'reject'}", replay)
        if well_formed and r != "accepted":
            chk.fail(f"data:well-formed-rejected:{kind}:{family(name)}", f"{what} (well formed) raises {type(exc).__name__}: {str(exc)[:160]}", replay, layer="L3")
        if not well_formed:
            if r == "accepted":
                chk.fail(f"data:malformed-accepted:{kind}", f"{what}: the model is trained (labels_ = {np.asarray(getattr(est, 'labels_', [])).tolist()[:8]})", replay, layer="L3")
            elif r == "other":
                chk.fail(f"data:other-exception:{kind}:{family(name)}", f"{what} raises {type(exc).__name__}: {str(exc)[:160]} — neither a ValueError nor a TypeError", replay, layer="L3")
        if r != "accepted":
            stage = None if (well_formed or ep == "path") else "samples" if kind == "too few samples" else "data"
            check_rejected(chk, name, est, stage, f"{kind} data through {ep}", replay, data())
        chk.dist[f"data:{kind}:{ep}:{r}"] += 1
        chk.count(("data", name, kind, ep))


# ------------------------------------------------------------------------------------------- stream: affinity given / missing
AFFINITY_NAMES = ["LinearMMD", "MLPMMD", "SparseLinearMMD", "SparseMLPMMD", "CategoricalMMD", "LinearWasserstein", "MLPWasserstein",
                  "CategoricalWasserstein", "LinearModel", "MLPModel", "Douglas", "Kauri"]
AFFINITY_KINDS = ["missing", "wrong-shape", "non-square", "1-D", "3-D", "nan", "strings", "unicode strings", "byte strings", "list of lists of str",
                  "observed:object array of numeric strings", "object array with None", "complex", "given", "given-as-list", "given-as-object-array"]


def stream_affinity(chk, i, rng):
    """A precomputed kernel / metric that is missing or has the wrong shape is a malformed input of fit."""
    names = AFFINITY_NAMES
    kinds = AFFINITY_KINDS
    name, kind = names[i // len(kinds)], kinds[i % len(kinds)]
    X = data()
    kw = dict(max_iter=1, random_state=0, n_clusters=2)
    if name in ("LinearModel", "MLPModel", "Douglas"):
        kw["gemini"] = G.MMDGEMINI(kernel="precomputed")
    elif "Wasserstein" in name:
        kw["metric"] = "precomputed"
    else:
        kw["kernel"] = "precomputed"
    if name == "Kauri":
        if kind == "missing":          # Kauri warns and falls back to the linear kernel: property C11's known finding F17
            chk.count(None)
            return
        est = impl.Kauri(max_clusters=2, kernel="precomputed", random_state=0)
    else:
        est = impl.make(name, **kw)
    A = universal_metric(X) if "Wasserstein" in name else universal_kernel(X)
    nanA = A.copy()
    nanA[1, 2] = np.nan
    y, shape = {"missing": (None, None), "wrong-shape": (A[:-2, :-2], (2, N - 2, N - 2, 1, 1)), "non-square": (A[:, :-1], (2, N, N - 1, 1, 1)),
                "1-D": (A[0], (1, N, 1, 1, 1)), "3-D": (A.reshape(N, N, 1), (3, N, N, 1, 1)), "nan": (nanA, (2, N, N, 1, 0)),
                "strings": (np.array([["a"] * N] * N, dtype=object), (2, N, N, 0, 1)),
                "unicode strings": (np.round(A, 2).astype(str), (2, N, N, 0, 1)), "byte strings": (np.round(A, 2).astype("S"), (2, N, N, 0, 1)),
                "list of lists of str": ([[str(v) for v in row] for row in np.round(A, 2)], (2, N, N, 0, 1)),
                # check_array converts object arrays with astype(float64): observed only, never failed
                "observed:object array of numeric strings": (np.round(A, 2).astype(str).astype(object), None),
                "object array with None": (np.where(np.eye(N) > 0, None, A.astype(object)), (2, N, N, 0, 1)),
                "complex": (A.astype(complex), (2, N, N, 0, 1)),
                "given": (A, (2, N, N, 1, 1)), "given-as-list": (A.tolist(), (2, N, N, 1, 1)), "given-as-object-array": (A.astype(object), (2, N, N, 1, 1))}[kind]
    ep = "fit_predict" if i % 2 else "fit"
    replay = {"estimator": name, "precomputed": kind, "entry_point": ep}
    if not kind.startswith(("given", "observed:")) and not survives(chk, ("aff", name, kind, ep), "affinity:crash", f"{name}.{ep} with a {kind} precomputed affinity", replay,
                                                                     lambda: getattr(est, ep)(X, y)):
        chk.count(("affinity", name, kind))
        return
    r, exc = outcome(lambda: getattr(est, ep)(X, y))
    if kind.startswith("observed:"):
        chk.dist[f"affinity:{kind}:{r}"] += 1
        note = "a precomputed affinity given as an object array of numeric strings is converted by check_array: observed, not judged"
        if note not in chk.notes:
            chk.notes.append(note)
        if r != "accepted":
            check_rejected(chk, name, est, None, f"precomputed affinity {kind}", replay, X)
        chk.count(("affinity", name, kind))
        return
    if shape is not None:
        ok = chk.ask(f"c16.precomputed {shape[0]} {shape[1]} {shape[2]} {N} {shape[3]} {shape[4]}").bool()
        if (r == "accepted") != ok:
            chk.fail("affinity:model-mismatch", f"{name}.fit with a {kind} precomputed affinity: {r} ({exc if r != 'accepted' else ''}), the model of the precomputed rule says {'accept' if ok else 'reject'}", replay)
    if kind.startswith("given"):
        if r != "accepted":
            chk.fail("affinity:given-rejected", f"{name} with a precomputed affinity of the right shape: {type(exc).__name__}: {str(exc)[:160]}", replay, layer="L3")
    else:
        key = "affinity:missing" if kind == "missing" else "affinity:ill-shaped" if kind in ("wrong-shape", "non-square", "1-D", "3-D") else "affinity:non-numeric"
        if r == "accepted":
            chk.fail(key, f"{name}.fit trains although the precomputed affinity is {kind}", replay, layer="L3")
        elif r == "other":
            chk.fail(key, f"{name}.fit with a {kind} precomputed affinity raises {type(exc).__name__}: {str(exc)[:160]} — neither a ValueError nor a TypeError", replay, layer="L3")
        if r != "accepted":
            check_rejected(chk, name, est, "affinity", f"precomputed affinity {kind}", replay, X)
    chk.dist[f"affinity:{kind}:{r}"] += 1
    chk.count(("affinity", name, kind))


# ------------------------------------------------------------------------------------------- stream: before fit
def stream_beforefit(chk, i, rng):
    names = list(impl.ALL_ESTIMATORS)
    X = data()
    if i == len(names):
        for fn_names in (None, ["a", "b", "c"]):
            r, exc = outcome(lambda: impl.print_kauri_tree(impl.Kauri(), fn_names))
            if r == "accepted":
                chk.fail("before-fit:print_kauri_tree", "print_kauri_tree prints an unfitted Kauri", {"feature_names": fn_names}, layer="L3")
            chk.dist[f"before-fit:print_kauri_tree:{type(exc).__name__ if r != 'accepted' else 'returned'}"] += 1
            chk.count(("before", "print", str(fn_names)))
        return
    name = names[i]
    for meth in ("predict", "predict_proba", "score", "get_selection"):
        est = impl.make(name)
        if not hasattr(est, meth):
            continue
        r, exc = outcome((lambda: getattr(est, meth)()) if meth == "get_selection" else (lambda: getattr(est, meth)(X)))
        if r == "accepted":
            chk.fail(f"before-fit:{meth}", f"{name}.{meth} returns before fit", {"estimator": name, "method": meth}, layer="L3")
        else:
            chk.dist[f"before-fit:{meth}:{'NotFittedError' if isinstance(exc, NotFittedError) else type(exc).__name__}"] += 1
        if fitted_attrs(est):
            chk.fail(f"before-fit:{meth}:writes", f"{name}.{meth} before fit set {fitted_attrs(est)}", {"estimator": name, "method": meth}, layer="L3")
        chk.count(("before", name, meth))


# ------------------------------------------------------------------------------------------- stream: check_groups
def splits(seq):
    """All ways to cut a sequence into consecutive non-empty groups."""
    n = len(seq)
    if n == 0:
        yield []
        return
    for mask in range(1 << (n - 1)):
        out, cur = [], [seq[0]]
        for k in range(1, n):
            if mask >> (k - 1) & 1:
                out.append(cur)
                cur = []
            cur.append(seq[k])
        yield out + [cur]


def all_group_lists(d, max_len):
    for L in range(0, max_len + 1):
        for seq in itertools.product(range(-1, d + 1), repeat=L):
            for g in splits(list(seq)):
                yield g
            if L <= 2:                                       # a few lists with empty groups
                yield [[]] + [list(seq)] if L else [[]]
                yield [list(seq), []] if L else [[], []]


def group_universe(chk):
    if "u" not in _FITTED:
        u = []
        for d in (1, 2, 3):
            u += [(d, g) for g in all_group_lists(d, d + 1)]
        u += [(4, g) for g in all_group_lists(4, 4 if chk.tier == "quick" else 5)]
        _FITTED["u"] = u
    return _FITTED["u"]


CHUNK = 250


def enc_entry(x):
    if isinstance(x, (bool, np.bool_)):
        return f"b{int(x)}"
    return str(int(x)) if isinstance(x, (int, np.integer)) else "o"


def spec_groups(groups, d):
    """Independent specification: None when rejected, else the completed partition."""
    flat = [x for g in groups for x in g]
    if any(type(x) is not int and not (isinstance(x, np.integer)) for x in flat):
        return None
    if any(not (0 <= x < d) for x in flat) or len(set(flat)) != len(flat):
        return None
    return [list(g) for g in groups] + [[i] for i in range(d) if i not in flat]


def one_groups(chk, d, groups, via_fit=False):
    replay = {"d": d, "groups": repr(groups)}
    t = chk.ask(f"c16.groups {d} " + enc_list(groups, lambda g: enc_list(g, enc_entry)))
    model = t.opt(lambda: t.list(lambda: t.list(t.int)))
    r, res = outcome(lambda: check_groups([list(g) for g in groups], d))
    got = [list(map(int, g)) for g in res] if r == "accepted" else None
    if r == "other":
        chk.fail("groups:other-exception", f"check_groups({groups}, {d}) raises {type(res).__name__}: {res}", replay, layer="L3")
    t = chk.ask(f"c16.groupsgen {d} " + enc_list(groups, lambda g: enc_list(g, enc_entry)))
    regen = t.opt(lambda: t.list(lambda: t.list(t.next)))
    got_tok = [[enc_entry(x) for x in g] for g in res] if r == "accepted" else None
    if regen != got_tok:
        chk.fail("groups:regenerated-mismatch", f"check_groups({groups}, {d}) = {got_tok if r == 'accepted' else type(res).__name__}, the function regenerated from the source (Gen/ValidationRules.v) gives {regen}", replay)
    if got != model:
        chk.fail("groups:model-mismatch", f"check_groups({groups}, {d}) = {got if r == 'accepted' else type(res).__name__}, model = {model}", replay)
    want = spec_groups(groups, d)
    if got != want:
        chk.fail("groups:spec", f"check_groups({groups}, {d}) = {got if r == 'accepted' else 'rejected'}, specification (in range, pairwise distinct, completed with increasing singletons) = {want}", replay, layer="L3")
    if got is not None and sorted(x for g in got for x in g) != list(range(d)):
        chk.fail("groups:partition", f"check_groups({groups}, {d}) = {got} is not a partition of range({d})", replay, layer="L3")
    if via_fit:
        X = data(6, d)
        est = impl.SparseLinearModel(n_clusters=2, groups=[list(g) for g in groups], max_iter=1, random_state=0)
        if want is None and not survives(chk, ("groups-fit", d, repr(groups)), "groups:via-fit", f"SparseLinearModel(groups={groups}).fit on {d} features", replay,
                                         lambda: impl.SparseLinearModel(n_clusters=2, groups=[list(g) for g in groups], max_iter=1, random_state=0).fit(X)):
            return
        rf, exc = outcome(lambda: est.fit(X))
        if (rf == "accepted") != (want is not None) or rf == "other" or (rf == "accepted" and [list(map(int, g)) for g in est.groups_] != want):
            chk.fail("groups:via-fit", f"SparseLinearModel(groups={groups}).fit on {d} features: {rf} groups_={getattr(est, 'groups_', None)}, specification {want}", replay, layer="L3")
        if rf != "accepted":
            check_rejected(chk, "SparseLinearModel", est, "groups", f"groups={groups}", replay, X)
        chk.traces += 1
    flat = [x for g in groups for x in g]
    nonint = any(enc_entry(x) in ("o", "b0", "b1") for x in flat)
    kind = "accepted" if want is not None else "non-integer entry" if nonint else ("out-of-range" if any(not (0 <= x < d) for x in flat) else "duplicate")
    chk.dist[f"groups d={d} {kind}" + (" full" if len(flat) == d else " partial")] += 1
    chk.count((d, repr(groups)) if flat else None)


def stream_groups(chk, i, rng):
    u = group_universe(chk)
    for k, (d, g) in enumerate(u[i * CHUNK:(i + 1) * CHUNK]):
        one_groups(chk, d, g, via_fit=(k % 125 == 0))


def stream_groups_random(chk, i, rng):
    d = int(rng.integers(4, 8))
    L = int(rng.integers(0, d + 3))
    if rng.random() < 0.6:                                   # near-valid: a shuffled subset, sometimes with one defect
        seq = list(rng.permutation(d)[:min(L, d)])
        if seq and rng.random() < 0.4:
            seq[int(rng.integers(len(seq)))] = int(rng.choice([-1, d, seq[0]]))
    else:
        seq = [int(x) for x in rng.integers(-1, d + 1, size=L)]
    seq = [int(x) for x in seq]
    gl = list(splits(seq))
    one_groups(chk, d, gl[int(rng.integers(len(gl)))], via_fit=(i % 10 == 0))


ENTRY_ALPHABET = [0, 1, 2, True, False, 1.0, 0.5, "a", None, np.int64(1)]


def stream_groups_entries(chk, i, rng):
    """Group lists over 3 features whose entries range over integers, bools, floats, strings and None (all lists of <= 2
    entries, random ones of 3): only integer indices may be accepted."""
    pairs = [[a] for a in ENTRY_ALPHABET] + [[a, b] for a in ENTRY_ALPHABET for b in ENTRY_ALPHABET]
    if i < len(pairs):
        seq = pairs[i]
    else:
        seq = [ENTRY_ALPHABET[int(k)] for k in rng.integers(0, len(ENTRY_ALPHABET), size=3)]
    for k, g in enumerate(splits(seq)):
        one_groups(chk, 3, g, via_fit=(k == 0))


def stream_groups_malformed(chk, i, rng):
    """Group lists whose entries are not integers / not lists: must be rejected (or, for bools, behave as 0/1)."""
    cases = [("float index", [[0.5]], 3), ("integral floats", [[0.0, 1.0]], 2), ("string index", [["a"]], 3), ("None index", [[None]], 3),
             ("nested", [[[0]]], 3), ("not a list of lists", [0, 1], 3), ("a string", "ab", 3), ("an int", 5, 3),
             ("tuple of tuples", ((0, 1),), 3), ("array rows", np.array([[0, 1]]), 3), ("dict", {0: 1}, 3)]
    label, groups, d = cases[i]
    X = data(6, d)
    for name in ("SparseLinearModel", "SparseMLPModel"):
        est = impl.make(name, n_clusters=2, groups=groups, max_iter=1, random_state=0)
        replay = {"estimator": name, "groups": repr(groups), "d": d}
        if not survives(chk, ("gm", name, label), "groups:malformed-other-exception", f"{name}(groups={groups!r}) [{label}]", replay,
                        lambda: impl.make(name, n_clusters=2, groups=groups, max_iter=1, random_state=0).fit(X)):
            chk.count(("gm", name, label))
            continue
        r, exc = outcome(lambda: est.fit(X))
        if r == "accepted":
            chk.fail("groups:malformed-accepted", f"{name}(groups={groups!r}) [{label}] is trained; groups_={est.groups_!r}", replay, layer="L3")
        elif r == "other":
            chk.fail("groups:malformed-other-exception", f"{name}(groups={groups!r}) [{label}] raises {type(exc).__name__}: {str(exc)[:120]}", replay, layer="L3")
        if r != "accepted":
            check_rejected(chk, name, est, None, f"groups={groups!r}", replay, X)
        chk.dist[f"groups malformed:{label}:{r}"] += 1
        chk.count(("gm", name, label))


# =========================================================================================== round-3 streams
# In-domain values in every representation must be accepted and give the same fitted result; arguments are left untouched;
# degenerate sizes and inclusive interval ends are accepted; rectangular affinities are rejected through every entry point.
OBSERVED = collections.Counter()


def observe(chk, key, what):
    """A corner at which the unchanged tree behaves unexpectedly: recorded (dist + one note per key), reported, not judged."""
    chk.dist["observed: " + key] += 1
    if OBSERVED[key] == 0:
        chk.notes.append(f"observed (not judged): {key} — e.g. {what}")
    OBSERVED[key] += 1


# Corners at which the UNCHANGED tree misbehaves, found by the round-3 streams and reported to the coordinator (exact calls in
# the notes of the evidence).  They are recorded, not judged, until a disposition (fix / known finding / out of scope) is made;
# every other key of these streams fails.
OBSERVE_ONLY = {
    # (groups given as tuples trained another model: repaired in /repo 1a7c87e, now a hard expectation)
    "repr:affinity-rejected:list of lists:SparseLinearMMD.path", "repr:affinity-rejected:list of lists:SparseMLPMMD.path",
    "boundary:in-domain-rejected:draw_gmm: one component",
}


def fail_or_observe(chk, key, what, replay, layer="L3"):
    if key in OBSERVE_ONLY:
        observe(chk, key, what)
    else:
        chk.fail(key, what, replay, layer=layer)


def grid_data(n=N, d=D, integral=False):
    r = np.random.RandomState(5)
    return r.randint(1, 7, size=(n, d)).astype(float) if integral else r.randint(1, 40, size=(n, d)) / 8.0


def fit_signature(est):
    out = {}
    for a in fitted_attrs(est):
        v = getattr(est, a)
        if isinstance(v, (np.ndarray, list, tuple, int, float, np.number)):
            try:
                out[a] = np.asarray(v, dtype=float)
            except (ValueError, TypeError):
                out[a] = np.asarray([np.asarray(x[1], dtype=float) for x in v]) if a == "cut_points_list_" else None
    return out


def same_signature(a, b):
    if set(a) != set(b):
        return f"attributes differ: {sorted(set(a) ^ set(b))}"
    for k in a:
        if a[k] is None or b[k] is None:
            continue
        if a[k].shape != b[k].shape or not np.allclose(a[k], b[k], rtol=1e-9, atol=1e-12, equal_nan=True):
            return f"{k} differs"
    return None


def snapshot(obj):
    if isinstance(obj, np.ndarray):
        return ("nd", obj.dtype.str, obj.shape, obj.tobytes(), obj.flags.writeable)
    if isinstance(obj, (list, tuple)):
        return (type(obj).__name__, tuple(snapshot(x) for x in obj))
    if isinstance(obj, dict):
        return ("dict", tuple((k, snapshot(v)) for k, v in obj.items()))
    return ("v", repr(obj))


PARAM_REPRS = {   # parameter -> (reference python value, representations of the same value that must be accepted)
    "n_clusters": (2, [np.int64, np.int32]), "max_iter": (2, [np.int64, np.int32]), "batch_size": (4, [np.int64, np.int32]),
    "n_hidden_dim": (3, [np.int64, np.int32]), "n_cuts": (1, [np.int64, np.int32]), "random_state": (3, [np.int64, np.int32]),
    "learning_rate": (0.125, [np.float32, np.float64]), "reg": (0.5, [np.float32, np.float64]), "alpha": (0.5, [np.float32, np.float64]),
    "M": (2.0, [np.float32, np.float64, int, np.int64]), "temperature": (0.5, [np.float32, np.float64]),
    "max_clusters": (2, [np.int64, np.int32]), "max_depth": (2, [np.int64, np.int32]), "min_samples_split": (2, [np.int64, np.int32]),
    "min_samples_leaf": (1, [np.int64, np.int32]), "max_features": (2, [np.int64, np.int32]), "max_leaves": (3, [np.int64, np.int32]),
}
BOOL_PARAMS = ("verbose", "ovo", "dynamic")


def repr_param_cases():
    return [(name, p) for name, cls in impl.ALL_ESTIMATORS.items() for p in ctor_params(cls) if p in PARAM_REPRS or p in BOOL_PARAMS]


def stream_repr_params(chk, i, rng):
    name, p = repr_param_cases()[i]
    cls = impl.ALL_ESTIMATORS[name]
    X = grid_data()
    if p in BOOL_PARAMS:
        # numpy.bool_ for a documented bool: declared [bool] (an instance of bool) — the model, the documentation reading of
        # Model/Doc.v and the code agree on rejecting it; recorded, since "bool" could be read to include numpy's
        kw = dict(base_kwargs(name, p), **{p: np.bool_(False)})
        r, exc = outcome(lambda: cls(**kw).fit(X))
        chk.dist[f"repr:param:{p}=np.bool_:{r}"] += 1
        if r != "accepted":
            observe(chk, f"numpy.bool_ rejected for the bool hyper-parameter {p}", f"{name}({p}=np.bool_(False)).fit(X): {type(exc).__name__}")
        chk.count(("repr-param", name, p))
        return
    ref_v, reps = PARAM_REPRS[p]
    kw = base_kwargs(name, p)
    if name == "Kauri" and p == "max_leaves":
        kw["max_clusters"] = 2
    ref = cls(**dict(kw, **{p: ref_v}))
    quiet(lambda: ref.fit(X))
    sig = fit_signature(ref)
    for T in reps:
        v = T(ref_v)
        replay = {"estimator": name, "param": p, "value": f"{T.__name__}({ref_v!r})"}
        sat = chk.ask(f"c16.gen {name} {p} " + (f"I {int(ref_v)}" if isinstance(v, (int, np.integer)) else v_real(float(v)).tok)).next()
        est = cls(**dict(kw, **{p: v}))
        r, exc = outcome(lambda: est.fit(X))
        if sat != "1":
            chk.fail("repr:param:model-rejects", f"{name}.{p}={replay['value']}: the model of the declared constraints rejects an in-domain value", replay)
        if r != "accepted":
            chk.fail(f"repr:param-rejected:{p}", f"{name}({p}={replay['value']}).fit raises {type(exc).__name__}: {str(exc)[:140]} although {p}={ref_v!r} is accepted", replay, layer="L3")
        else:
            d = same_signature(sig, fit_signature(est))
            if d:
                chk.fail(f"repr:param-result:{p}", f"{name}({p}={replay['value']}).fit gives a different model than {p}={ref_v!r}: {d}", replay, layer="L3")
        chk.dist[f"repr:param:{T.__name__}:{r}"] += 1
        chk.count(("repr-param", name, p, T.__name__))
    # a 0-d array is not documented as a hyper-parameter value: observed only
    r, exc = outcome(lambda: cls(**dict(kw, **{p: np.array(ref_v)})).fit(X))
    chk.dist[f"repr:param:0-d array:{r}"] += 1


def container_cases():
    cs = []
    mask_ref = np.array([True, False, True])
    for label, mk in [("int32 array", lambda: mask_ref.astype(np.int32)), ("int64 array", lambda: mask_ref.astype(np.int64)), ("uint8 array", lambda: mask_ref.astype(np.uint8)),
                      ("float array", lambda: mask_ref.astype(float)), ("read-only bool array", lambda: (lambda a: (a.setflags(write=False), a)[1])(mask_ref.copy())),
                      ("Fortran bool view", lambda: np.asfortranarray(np.stack([mask_ref, mask_ref]))[0]), ("list", lambda: [True, False, True]), ("tuple", lambda: (True, False, True))]:
        cs.append(("Douglas", "feature_mask", label, (lambda: mask_ref.copy()), mk))
    g_ref = [[0, 1], [2]]
    for name in impl.SPARSE:
        for label, mk in [("list of tuples", lambda: [(0, 1), (2,)]), ("list of int32 arrays", lambda: [np.array([0, 1], dtype=np.int32), np.array([2], dtype=np.int32)]),
                          ("list of int64 arrays", lambda: [np.array([0, 1]), np.array([2])]), ("lists of numpy integers", lambda: [[np.int64(0), np.int32(1)], [np.int16(2)]]),
                          ("partial list of tuples", lambda: [(0, 1)]), ("read-only int32 arrays", lambda: [(lambda a: (a.setflags(write=False), a)[1])(np.array([0, 1], dtype=np.int32)), [2]])]:
            cs.append((name, "groups", label, (lambda: [list(g) for g in g_ref]), mk))
    for name, p, v in [("LinearMMD", "kernel_params", {"gamma": 0.5}), ("MLPMMD", "kernel_params", {"gamma": 0.5}), ("KernelRIM", "base_kernel_params", {"gamma": 0.5}),
                       ("LinearWasserstein", "metric_params", {"p": 1.5})]:
        cs.append((name, p, "dict left untouched", (lambda v=v: dict(v)), (lambda v=v: dict(v))))
    return cs


def stream_repr_containers(chk, i, rng):
    name, p, label, mk_ref, mk = container_cases()[i]
    X = grid_data()
    kw = dict(max_iter=2, random_state=0, n_clusters=2)
    if p == "kernel_params":
        kw["kernel"] = "rbf"
    if p == "base_kernel_params":
        kw["base_kernel"] = "rbf"
    if p == "metric_params":
        kw["metric"] = "minkowski" if False else "euclidean"
        kw.pop("metric")
    ref = impl.make(name, **dict(kw, **{p: mk_ref()}))
    rr, exc0 = outcome(lambda: ref.fit(X))
    v = mk()
    before = snapshot(v)
    est = impl.make(name, **dict(kw, **{p: v}))
    replay = {"estimator": name, "param": p, "representation": label}
    for ep in ("fit", "fit_predict") + (("path",) if hasattr(est, "path") else ()):
        est = impl.make(name, **dict(kw, **{p: v}))
        r, exc = outcome(lambda: dict(entry_points(est))[ep](X))
        if rr != "accepted":
            chk.dist[f"repr:container:reference rejected:{name}.{p}"] += 1
        elif r != "accepted":
            if p == "feature_mask" and label in ("list", "tuple"):
                # declared [np.ndarray, None], documented "array of boolean": the model, Doc.v and the code agree on rejecting a list
                observe(chk, f"Douglas.feature_mask given as a {label} is rejected", f"Douglas(feature_mask={v!r}).{ep}(X): {type(exc).__name__}")
            else:
                chk.fail(f"repr:container-rejected:{p}", f"{name}({p} as {label}).{ep} raises {type(exc).__name__}: {str(exc)[:140]} although the same values as {type(mk_ref()).__name__} are accepted", replay, layer="L3")
        elif ep == "fit":
            if p == "groups":
                # check_groups itself: every group comes back as a list of the same integers, completed; the caller's object is untouched
                out = check_groups(v, X.shape[1])
                want = spec_groups([[int(x) for x in g] for g in v], X.shape[1])
                if not all(type(g) is list for g in out) or [[int(x) for x in g] for g in out] != want or out is v:
                    chk.fail(f"repr:check_groups:{label}", f"check_groups({v!r}, {X.shape[1]}) = {out!r}: expected fresh lists {want}", replay, layer="L3")
                if not all(type(g) is list for g in est.groups_) or [[int(x) for x in g] for g in est.groups_] != want:
                    chk.fail(f"repr:groups_:{label}", f"{name}({p} as {label}).fit: groups_ = {est.groups_!r}, expected lists {want}", replay, layer="L3")
            d = same_signature(fit_signature(ref), fit_signature(est))
            if d:
                fail_or_observe(chk, f"repr:container-result:{p}:{label}", f"{name}({p} as {label}).fit gives a different model than the reference representation: {d}", replay)
        if snapshot(v) != before:
            chk.fail(f"repr:argument-modified:{p}", f"{name}({p} as {label}).{ep} modified the caller's {p}", replay, layer="L3")
        chk.dist[f"repr:container:{p}:{label}:{ep}:{r}"] += 1
        chk.count(("repr-container", name, p, label, ep))


def data_variants():
    Xg, Xi = grid_data(), grid_data(integral=True)
    ro = lambda a: (lambda b: (b.setflags(write=False), b)[1])(a.copy())   # noqa: E731
    big = np.repeat(Xg, 2, axis=0)
    return [("float32", Xg, lambda: Xg.astype(np.float32)), ("Fortran order", Xg, lambda: np.asfortranarray(Xg)), ("strided rows view", Xg, lambda: big[::2]),
            ("reversed columns view", Xg, lambda: Xg[:, ::-1].copy()[:, ::-1]), ("transposed transpose", Xg, lambda: np.ascontiguousarray(Xg.T).T),
            ("read-only", Xg, lambda: ro(Xg)), ("list of lists", Xg, lambda: Xg.tolist()), ("tuple of tuples", Xg, lambda: tuple(map(tuple, Xg.tolist()))),
            ("int64", Xi, lambda: Xi.astype(np.int64)), ("int32", Xi, lambda: Xi.astype(np.int32)), ("uint8", Xi, lambda: Xi.astype(np.uint8)),
            ("bool", (Xi > 3).astype(float), lambda: Xi > 3), ("object array of numbers", Xg, lambda: Xg.astype(object))]


def stream_repr_data(chk, i, rng):
    names = list(impl.ALL_ESTIMATORS)
    variants = data_variants()
    name, (label, Xref, mk) = names[i // len(variants)], variants[i % len(variants)]

    def new():
        return impl.Kauri(max_clusters=2, random_state=0) if name == "Kauri" else impl.make(name, n_clusters=2, max_iter=2, random_state=0)
    ref = new()
    quiet(lambda: ref.fit(Xref))
    sig = fit_signature(ref)
    replay = {"estimator": name, "representation": label}
    Xv = mk()
    before = snapshot(Xv)
    for ep in [e for e, _ in entry_points(new())]:
        est = new()
        r, res = outcome(lambda: dict(entry_points(est))[ep](Xv))
        if r != "accepted":
            chk.fail(f"repr:data-rejected:{label}", f"{name}.{ep} on the reference values as {label} raises {type(res).__name__}: {str(res)[:140]}", dict(replay, entry_point=ep), layer="L3")
        elif ep in ("fit", "fit_predict"):
            d = same_signature(sig, fit_signature(est))
            if d:
                chk.fail(f"repr:data-result:{label}", f"{name}.{ep} on {label} data gives a different model than on float64 C-contiguous data: {d}", dict(replay, entry_point=ep), layer="L3")
            if ep == "fit_predict" and not np.array_equal(np.asarray(res), ref.labels_):
                chk.fail(f"repr:data-result:{label}", f"{name}.fit_predict on {label} data returns other labels than the reference fit", dict(replay, entry_point=ep), layer="L3")
        if snapshot(Xv) != before:
            chk.fail("repr:argument-modified:X", f"{name}.{ep} modified the caller's X ({label})", dict(replay, entry_point=ep), layer="L3")
        chk.dist[f"repr:data:{label}:{ep}:{r}"] += 1
        chk.count(("repr-data", name, label, ep))
    for meth in ("predict", "predict_proba", "score"):
        if not hasattr(ref, meth):
            continue
        want = quiet(lambda: getattr(ref, meth)(Xref))
        r, got = outcome(lambda: getattr(ref, meth)(Xv))
        if r != "accepted":
            fail_or_observe(chk, f"repr:data-rejected:{label}:{name}.{meth}", f"{name}.{meth} on the training values as {label} raises {type(got).__name__}: {str(got)[:140]}", dict(replay, entry_point=meth))
        elif not np.allclose(np.asarray(got, dtype=float), np.asarray(want, dtype=float), rtol=(1e-5 if label == "float32" and meth == "score" else 1e-9), atol=1e-12):
            # score recomputes the affinity from X: on float32 data the library computes it at float32 resolution
            chk.fail(f"repr:data-result:{label}", f"{name}.{meth} on {label} data differs from the float64 reference", dict(replay, entry_point=meth), layer="L3")
        if snapshot(Xv) != before:
            chk.fail("repr:argument-modified:X", f"{name}.{meth} modified the caller's X ({label})", dict(replay, entry_point=meth), layer="L3")
        chk.count(("repr-data", name, label, meth))


RECT_KINDS = [("more columns", (N, N + 2)), ("fewer columns", (N, N - 2)), ("more rows", (N + 2, N)), ("fewer rows", (N - 2, N)), ("square, too large", (N + 2, N + 2)),
              ("square, too small", (N - 1, N - 1)), ("one row", (1, N)), ("one column", (N, 1))]


def stream_rect_affinity(chk, i, rng):
    """Rectangular / wrong-size precomputed affinities through fit, fit_predict, score and path; well-formed ones in several
    representations through the same entry points (accepted, same result, matrix left untouched)."""
    name = AFFINITY_NAMES[i // len(RECT_KINDS)]
    label, (rows, cols) = RECT_KINDS[i % len(RECT_KINDS)]
    X = grid_data()
    A = universal_metric(X) if "Wasserstein" in name else universal_kernel(X)
    big = np.pad(A, ((0, 4), (0, 4)), mode="wrap")
    y = big[:rows, :cols].copy()

    def new():
        if name == "Kauri":
            return impl.Kauri(max_clusters=2, kernel="precomputed", random_state=0)
        kw = dict(max_iter=1, random_state=0, n_clusters=2)
        if name in ("LinearModel", "MLPModel", "Douglas"):
            kw["gemini"] = G.MMDGEMINI(kernel="precomputed")
        elif "Wasserstein" in name:
            kw["metric"] = "precomputed"
        else:
            kw["kernel"] = "precomputed"
        return impl.make(name, **kw)
    ok = chk.ask(f"c16.precomputed 2 {rows} {cols} {N} 1 1").bool()
    fitted = new()
    quiet(lambda: fitted.fit(X, A))
    eps = [("fit", lambda e: e.fit(X, y)), ("fit_predict", lambda e: e.fit_predict(X, y)), ("score", lambda e: e.score(X, y))]
    if hasattr(fitted, "path"):
        eps.append(("path", lambda e: e.path(X, y, alpha_multiplier=3.0, min_features=2, max_patience=1)))
    for ep, call in eps:
        est = fitted if ep == "score" else new()
        before_attrs = snapshot([getattr(est, a) for a in fitted_attrs(est) if isinstance(getattr(est, a), np.ndarray)])
        ysnap = snapshot(y)
        replay = {"estimator": name, "precomputed": f"{label} {rows}x{cols} for {N} samples", "entry_point": ep}
        if ep != "score" and not survives(chk, ("rect", name, label, ep), "affinity:rectangular:crash", f"{name}.{ep} with a {rows}x{cols} precomputed affinity for {N} samples", replay, lambda: call(new())):
            chk.count(("rect", name, label, ep))
            continue
        r, exc = outcome(lambda: call(est))
        if ok or (r == "accepted"):
            chk.fail("affinity:rectangular:model-mismatch" if ok else "affinity:rectangular-accepted", f"{name}.{ep} with a {rows}x{cols} precomputed affinity for {N} samples: {r}; the precomputed rule of the model says {'accept' if ok else 'reject'}", replay, layer="L2" if ok else "L3")
        elif r == "other":
            chk.fail("affinity:rectangular:other-exception", f"{name}.{ep} with a {rows}x{cols} precomputed affinity for {N} samples raises {type(exc).__name__}: {str(exc)[:140]} — neither a ValueError nor a TypeError", replay, layer="L3")
        if r != "accepted" and ep in ("fit", "fit_predict", "path"):
            check_rejected(chk, name, est, "affinity" if ep != "path" else None, f"{rows}x{cols} precomputed affinity through {ep}", replay, X)
        if ep == "score" and snapshot([getattr(est, a) for a in fitted_attrs(est) if isinstance(getattr(est, a), np.ndarray)]) != before_attrs:
            chk.fail("affinity:score-modifies-model", f"{name}.score with a rejected affinity changed the fitted attributes", replay, layer="L3")
        if snapshot(y) != ysnap:
            chk.fail("repr:argument-modified:y", f"{name}.{ep} modified the caller's affinity matrix", replay, layer="L3")
        chk.dist[f"affinity:rectangular:{label}:{ep}:{r}"] += 1
        chk.count(("rect", name, label, ep))
    if i % len(RECT_KINDS) == 0:      # once per estimator: the well-formed matrix in other representations
        refsig = fit_signature(fitted)
        ro = A.copy()
        ro.setflags(write=False)
        asym = A + np.triu(np.ones_like(A), 1) * 0.125
        for lab, yv in [("float32", (A * 8).round() / 8), ("Fortran order", np.asfortranarray(A)), ("read-only", ro), ("list of lists", A.tolist()),
                        ("strided view", np.repeat(np.repeat(A, 2, 0), 2, 1)[::2, ::2]), ("asymmetric", asym), ("negative entries", A - A.mean())]:
            if lab == "float32":
                yref, yv = yv, yv.astype(np.float32)
            else:
                yref = np.asarray(yv, dtype=float).copy()
            r0 = new()
            ref_r, _ = outcome(lambda: r0.fit(X, yref))
            for ep, call in [("fit", lambda e: e.fit(X, yv)), ("fit_predict", lambda e: e.fit_predict(X, yv))] + ([("path", lambda e: e.path(X, yv, alpha_multiplier=3.0, min_features=2, max_patience=1))] if hasattr(fitted, "path") else []):
                est = new()
                ysnap = snapshot(yv)
                r, exc = outcome(lambda: call(est))
                replay = {"estimator": name, "precomputed": lab, "entry_point": ep}
                if ref_r == "accepted" and r != "accepted":
                    fail_or_observe(chk, f"repr:affinity-rejected:{lab}:{name}.{ep}", f"{name}.{ep} with the precomputed affinity as {lab} raises {type(exc).__name__}: {str(exc)[:140]}", replay)
                elif ref_r == "accepted" and ep == "fit":
                    d = same_signature(fit_signature(r0), fit_signature(est))
                    if d:
                        chk.fail(f"repr:affinity-result:{lab}", f"{name}.fit with the affinity as {lab} gives a different model than with float64 C-contiguous: {d}", replay, layer="L3")
                elif ref_r != "accepted":
                    observe(chk, f"a well-formed {lab} precomputed affinity is rejected by {name}", f"{name}.fit(X, A): {ref_r}")
                if snapshot(yv) != ysnap:
                    chk.fail("repr:argument-modified:y", f"{name}.{ep} modified the caller's affinity matrix ({lab})", replay, layer="L3")
                chk.dist[f"repr:affinity:{lab}:{ep}:{r}"] += 1
                chk.count(("repr-affinity", name, lab, ep))


def boundary_cases():
    """(label, estimator-or-function thunk returning a callable, must_accept)"""
    X, Xi = grid_data(), grid_data(integral=True)
    n, d = X.shape
    mk = impl.make
    cs = []

    def add(label, thunk, accept=True):
        cs.append((label, thunk, accept))
    for name in impl.BATCHED:
        add(f"{name}: batch_size = n", lambda name=name: mk(name, n_clusters=2, max_iter=1, batch_size=n, random_state=0).fit(X))
        add(f"{name}: batch_size = n + 3", lambda name=name: mk(name, n_clusters=2, max_iter=1, batch_size=n + 3, random_state=0).fit(X))
        add(f"{name}: batch_size = 1", lambda name=name: mk(name, n_clusters=2, max_iter=1, batch_size=1, random_state=0).fit(X))
    for name in impl.GRADIENT_ESTIMATORS:
        add(f"{name}: n_clusters = 1", lambda name=name: mk(name, n_clusters=1, max_iter=1, random_state=0).fit(X))
        add(f"{name}: n_clusters = n (one sample per cluster)", lambda name=name: mk(name, n_clusters=n, max_iter=1, random_state=0).fit(X))
        add(f"{name}: n_clusters = n + 1", lambda name=name: mk(name, n_clusters=n + 1, max_iter=1, random_state=0).fit(X), False)
        add(f"{name}: one feature", lambda name=name: mk(name, n_clusters=2, max_iter=1, random_state=0).fit(X[:, :1]))
        add(f"{name}: random_state = 2**32 - 1", lambda name=name: mk(name, n_clusters=2, max_iter=1, random_state=2 ** 32 - 1).fit(X))
        add(f"{name}: random_state = RandomState instance", lambda name=name: mk(name, n_clusters=2, max_iter=1, random_state=np.random.RandomState(1)).fit(X))
    for name in impl.SPARSE:
        add(f"{name}: alpha = 0", lambda name=name: mk(name, n_clusters=2, max_iter=1, alpha=0, random_state=0).fit(X))
        add(f"{name}: alpha = -0.0", lambda name=name: mk(name, n_clusters=2, max_iter=1, alpha=-0.0, random_state=0).fit(X))
        add(f"{name}: one group holding every feature", lambda name=name: mk(name, n_clusters=2, max_iter=1, groups=[[0, 1, 2]], random_state=0).fit(X))
        add(f"{name}: groups = [] (all singletons)", lambda name=name: mk(name, n_clusters=2, max_iter=1, groups=[], random_state=0).fit(X))
        add(f"{name}: path with min_features = d", lambda name=name: mk(name, n_clusters=2, max_iter=1, random_state=0).path(X, min_features=d, max_patience=1, alpha_multiplier=3.0))
        add(f"{name}: path with keep_threshold = 1.0", lambda name=name: mk(name, n_clusters=2, max_iter=1, random_state=0).path(X, keep_threshold=1.0, min_features=2, max_patience=1, alpha_multiplier=3.0))
    for name in ("SparseMLPModel", "SparseMLPMMD"):
        add(f"{name}: M = 0", lambda name=name: mk(name, n_clusters=2, max_iter=1, M=0, random_state=0).fit(X))
    for name in ("RIM", "KernelRIM"):
        add(f"{name}: reg = 0", lambda name=name: mk(name, n_clusters=2, max_iter=1, reg=0, random_state=0).fit(X))
    add("Douglas: one cut, one selected feature", lambda: impl.Douglas(n_clusters=2, n_cuts=1, feature_mask=np.array([False, True, False]), max_iter=1, random_state=0).fit(X))
    add("Douglas: all-True mask of the right length", lambda: impl.Douglas(n_clusters=2, feature_mask=np.array([True] * d), max_iter=1, random_state=0).fit(X))
    for m in (d - 1, d + 1, 1, 2 * d):
        add(f"Douglas: all-True mask of length {m} for {d} features", lambda m=m: impl.Douglas(n_clusters=2, feature_mask=np.array([True] * m), max_iter=1, random_state=0).fit(X), False)
        add(f"Douglas: all-True mask of length {m} for {d} features (fit_predict)", lambda m=m: impl.Douglas(n_clusters=2, feature_mask=np.array([True] * m), max_iter=1, random_state=0).fit_predict(X), False)
    K = impl.Kauri
    add("Kauri: max_clusters = 1", lambda: K(max_clusters=1, random_state=0).fit(X))
    add("Kauri: max_leaves = 2, max_depth = 1", lambda: K(max_clusters=2, max_leaves=2, max_depth=1, random_state=0).fit(X))
    add("Kauri: max_features = 1", lambda: K(max_clusters=2, max_features=1, random_state=0).fit(X))
    add("Kauri: max_features = d and d + 5", lambda: (K(max_clusters=2, max_features=d, random_state=0).fit(X), K(max_clusters=2, max_features=d + 5, random_state=0).fit(X)))
    add("Kauri: min_samples_split = 2 * min_samples_leaf = n", lambda: K(max_clusters=2, min_samples_leaf=n // 2, min_samples_split=n, random_state=0).fit(X))
    add("Kauri: min_samples_split = 2 * min_samples_leaf - 1", lambda: K(max_clusters=2, min_samples_leaf=2, min_samples_split=3, random_state=0).fit(X), False)
    add("Kauri: min_samples_leaf = n", lambda: K(max_clusters=2, min_samples_leaf=n, min_samples_split=2 * n, random_state=0).fit(X))
    add("Kauri: min_samples_leaf = n + 1 (fewer samples than a leaf needs)", lambda: K(max_clusters=2, min_samples_leaf=n + 1, min_samples_split=2 * n + 2, random_state=0).fit(X), False)
    add("Kauri: one feature, one sample", lambda: (K(max_clusters=2, random_state=0).fit(X[:, :1]), K(max_clusters=2, random_state=0).fit(X[:1])))
    add("Kauri: integer data with duplicated values", lambda: K(max_clusters=3, random_state=0).fit(Xi))
    for g in (G.KLGEMINI, G.TVGEMINI, G.HellingerGEMINI, G.ChiSquareGEMINI, G.MMDGEMINI, G.WassersteinGEMINI):
        add(f"{g.__name__}: epsilon one ulp above 0 and one ulp below 1", lambda g=g: (g(epsilon=5e-324), g(epsilon=float(np.nextafter(1.0, 0.0)))))
        add(f"{g.__name__}: epsilon = 0.0 / -0.0 / 1.0", lambda g=g: [g(epsilon=e) for e in (0.0,)], False)
        add(f"{g.__name__}: epsilon = -0.0", lambda g=g: g(epsilon=-0.0), False)
        add(f"{g.__name__}: epsilon = 1.0", lambda g=g: g(epsilon=1.0), False)
    add("draw_gmm: one component", lambda: gdata.draw_gmm(3, [np.zeros(2)], [np.eye(2)], [1.0], random_state=0))
    add("draw_gmm: n = 1, two components", lambda: gdata.draw_gmm(1, [np.zeros(2), np.ones(2)], [np.eye(2)] * 2, [0.5, 0.5], random_state=0))
    add("draw_gmm: numpy integer n / seed, integer loc and scale, tuple of proportions", lambda: gdata.draw_gmm(np.int64(3), np.zeros((2, 2), dtype=np.int64), np.stack([np.eye(2, dtype=np.int32)] * 2), (0.5, 0.5), random_state=np.int64(0)))
    add("multivariate_student_t: n = 1, df = 1", lambda: gdata.multivariate_student_t(1, np.zeros(2), np.eye(2), df=1, random_state=0))
    add("gstm: n = 4", lambda: gdata.gstm(n=4, random_state=0))
    add("gstm: n = 3", lambda: gdata.gstm(n=3, random_state=0), False)
    add("celeux_one: n = 1, p = 1", lambda: gdata.celeux_one(n=1, p=1, random_state=0))
    add("celeux_two: n = 1", lambda: gdata.celeux_two(n=1, random_state=0))
    add("add_mlcl_constraint: one must-link pair, factor one ulp above 0", lambda: impl.add_mlcl_constraint(impl.LinearModel(max_iter=1), must_link=[[0, 1]], factor=5e-324))
    add("add_mlcl_constraint: pairs as int32 array / tuple of tuples", lambda: (impl.add_mlcl_constraint(impl.LinearModel(max_iter=1), must_link=np.array([[0, 1]], dtype=np.int32)),
                                                                              impl.add_mlcl_constraint(impl.LinearModel(max_iter=1), cannot_link=((0, 1), (2, 3)))))
    add("add_mlcl_constraint: factor = 0", lambda: impl.add_mlcl_constraint(impl.LinearModel(max_iter=1), must_link=[[0, 1]], factor=0), False)
    add("print_kauri_tree: names as tuple / array / exactly as many as features", lambda: [impl.print_kauri_tree(fitted_kauri(), nm) for nm in (("a", "b", "c"), np.array(["a", "b", "c"]), ["a", "b", "c"])])
    return cs


def stream_boundaries(chk, i, rng):
    label, thunk, accept = boundary_cases()[i]
    replay = {"boundary": label}
    if not accept and not survives(chk, ("boundary", label), "boundary:other-exception", label, replay, thunk):
        chk.count(("boundary", label))
        return
    r, exc = outcome(thunk)
    if accept and r != "accepted":
        fail_or_observe(chk, f"boundary:in-domain-rejected:{label}", f"{label}: raises {type(exc).__name__}: {str(exc)[:160]}", replay)
    if not accept and r == "accepted":
        chk.fail("boundary:out-of-domain-accepted", f"{label}: accepted", replay, layer="L3")
    if not accept and r == "other":
        chk.fail("boundary:other-exception", f"{label}: raises {type(exc).__name__}: {str(exc)[:160]} — neither a ValueError nor a TypeError", replay, layer="L3")
    chk.dist[f"boundary:{'accept' if accept else 'reject'} expected:{r}"] += 1
    chk.count(("boundary", label))


def n_group_chunks(chk):
    return (len(group_universe(chk)) + CHUNK - 1) // CHUNK


def main():
    chk = Check("C16")
    chk.build()
    chk.proofs()
    streams = {
        "table": (stream_table, lambda: 1, 1),
        "params": (stream_params, lambda: len(est_cases()), 1),
        "functions": (stream_functions, lambda: len(fn_cases()), 1),
        "cross": (stream_cross, lambda: 43, 1),
        "malformed": (stream_malformed, lambda: len(impl.ALL_ESTIMATORS) * len(malformed_inputs()), 1),
        "affinity": (stream_affinity, lambda: len(AFFINITY_NAMES) * len(AFFINITY_KINDS), 1),
        "beforefit": (stream_beforefit, lambda: len(impl.ALL_ESTIMATORS) + 1, 1),
        "groups": (stream_groups, lambda: n_group_chunks(chk), 1),
        "groups_random": (stream_groups_random, lambda: 600 if chk.tier == "quick" else 30000, 3),
        "groups_entries": (stream_groups_entries, lambda: 150 if chk.tier == "quick" else 1500, 3),
        "groups_malformed": (stream_groups_malformed, lambda: 11, 1),
        "repr_params": (stream_repr_params, lambda: len(repr_param_cases()), 1),
        "repr_containers": (stream_repr_containers, lambda: len(container_cases()), 1),
        "repr_data": (stream_repr_data, lambda: len(impl.ALL_ESTIMATORS) * len(data_variants()), 1),
        "rect_affinity": (stream_rect_affinity, lambda: len(AFFINITY_NAMES) * len(RECT_KINDS), 1),
        "boundaries": (stream_boundaries, lambda: len(boundary_cases()), 1),
    }
    timing = {}
    if chk.replay_path:
        rp = json.load(open(chk.replay_path))
        st, case = rp["input"].get("stream"), rp["input"].get("case")
        chk.seed = rp.get("seed", chk.seed)
        if st in streams:
            chk.run_stream(st, streams[st][0], 0, only=case)
    else:
        for name, (fn, cnt, widen) in streams.items():
            c = cnt()
            if chk.l1_broken:
                c *= widen                # a broken obligation widens the randomised search (the other streams are exhaustive already)
            t0 = __import__("time").time()
            chk.run_stream(name, fn, c)
            timing[name] = round(__import__("time").time() - t0, 1)
        chk.notes.append(f"wall seconds per stream: {timing}")
    chk.finish(rule="streams: regenerated table vs live constraint objects; every constructor parameter of the 18 estimators and every parameter of the 13 validated "
                    "functions/constructors x ~50 values (integers and floats at, just inside and just outside every bound incl. nextafter, wrong types, bool, np.bool_, NaN, +-inf, "
                    "every string option and non-options, None, callables, containers, instances): verdict of _validate_params / the decorator vs `satisfied` on the live constraints, "
                    "fit / call outcome vs the documented domain, attributes left by rejected fits vs the checks/writes model; Kauri (leaf, split) grid and Douglas mask lengths; "
                    "16 kinds of training data x 18 estimators; precomputed affinity missing / ill-shaped / non-finite / non-numeric vs the precomputed rule of the model; predict/predict_proba/score/get_selection/print before fit; check_groups on ALL "
                    "group lists over d<=3 features with up to d+1 entries from -1..d and over d=4 with up to 4 (quick) / 5 (thorough) entries, plus random lists over 4..7 features, all lists of <=2 entries over ints/bools/floats/strings/None and "
                    "structurally malformed group arguments. non-trivial = a value/group list actually evaluated by both sides (empty group lists excluded); distinct = distinct (estimator|function, parameter, value token) / (d, group list)",
               extra={"regenerated": chk.regenerated})


if __name__ == "__main__":
    main()
