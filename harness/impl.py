"""Access to the implementation under test (imported from /repo in place) and shared helpers."""
import warnings
import numpy as np
import core  # noqa: F401  (sets sys.path / env)

warnings.filterwarnings("ignore")

from gemclus.linear import LinearModel, LinearMMD, LinearWasserstein, RIM, KernelRIM  # noqa: E402
from gemclus.mlp import MLPModel, MLPMMD, MLPWasserstein  # noqa: E402
from gemclus.sparse import SparseLinearModel, SparseLinearMMD, SparseLinearMI, SparseMLPModel, SparseMLPMMD  # noqa: E402
from gemclus.nonparametric import CategoricalModel, CategoricalMMD, CategoricalWasserstein  # noqa: E402
from gemclus.tree import Douglas, Kauri, print_kauri_tree  # noqa: E402
from gemclus import add_mlcl_constraint  # noqa: E402
from gemclus import gemini as G  # noqa: E402

GRADIENT_ESTIMATORS = {
    "LinearModel": LinearModel, "LinearMMD": LinearMMD, "LinearWasserstein": LinearWasserstein, "RIM": RIM,
    "KernelRIM": KernelRIM, "MLPModel": MLPModel, "MLPMMD": MLPMMD, "MLPWasserstein": MLPWasserstein,
    "SparseLinearModel": SparseLinearModel, "SparseLinearMMD": SparseLinearMMD, "SparseLinearMI": SparseLinearMI,
    "SparseMLPModel": SparseMLPModel, "SparseMLPMMD": SparseMLPMMD, "CategoricalModel": CategoricalModel,
    "CategoricalMMD": CategoricalMMD, "CategoricalWasserstein": CategoricalWasserstein, "Douglas": Douglas,
}
ALL_ESTIMATORS = dict(GRADIENT_ESTIMATORS, Kauri=Kauri)
SPARSE = ["SparseLinearModel", "SparseLinearMMD", "SparseLinearMI", "SparseMLPModel", "SparseMLPMMD"]
NONPARAMETRIC = ["CategoricalModel", "CategoricalMMD", "CategoricalWasserstein"]
GENERIC_GEMINI = ["LinearModel", "MLPModel", "SparseLinearModel", "SparseMLPModel", "CategoricalModel", "Douglas"]
BATCHED = [k for k in GRADIENT_ESTIMATORS if k not in NONPARAMETRIC]
GEMINI_NAMES = list(G.AVAILABLE_GEMINIS)


def all_geminis(include_wasserstein=True):
    """(label, factory) for the 13 registry names and the 6 classes with both flags."""
    out = []
    for cls in (G.KLGEMINI, G.TVGEMINI, G.HellingerGEMINI, G.ChiSquareGEMINI, G.MMDGEMINI, G.WassersteinGEMINI):
        if cls is G.WassersteinGEMINI and not include_wasserstein:
            continue
        for ovo in (False, True):
            out.append((f"{cls.__name__}(ovo={ovo})", (lambda c=cls, o=ovo: c(ovo=o))))
    out.append(("MI()", lambda: G.MI()))
    return out


def make(name, **kw):
    """Construct an estimator, silently dropping keyword arguments its constructor does not have."""
    import inspect
    cls = ALL_ESTIMATORS[name]
    params = inspect.signature(cls.__init__).parameters
    return cls(**{k: v for k, v in kw.items() if k in params})


def blobs(rng, n, d, k=3, scale=1.0):
    centers = rng.normal(size=(k, d)) * 3
    y = rng.integers(0, k, size=n)
    return (centers[y] + rng.normal(size=(n, d))) * scale


def softmax_rows(z):
    z = z - z.max(1, keepdims=True)
    e = np.exp(z)
    return e / e.sum(1, keepdims=True)
